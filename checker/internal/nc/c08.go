package nc

import (
	"fmt"
	"go/constant"
	"go/token"
	"math"
	"strings"

	"golang.org/x/tools/go/ssa"
)

func init() { register("C08", C08) }

// speciateShape locates the two loops of Population.speciate.
type speciateShape struct {
	fn           *ssa.Function
	tm           *Termer
	outer, inner *Loop
	compat       *ssa.Call // call of Genome.compatibility
}

func findSpeciate(p *Prog) (*speciateShape, string) {
	fn := p.Func(PkgG, "Population.speciate")
	sh := &speciateShape{fn: fn, tm: NewTermer(fn)}
	cs := CallsTo(fn, p.Func(PkgG, "Genome.compatibility"))
	if len(cs) != 1 {
		return nil, fmt.Sprintf("speciate calls compatibility %d times, expected once", len(cs))
	}
	sh.compat = cs[0].(*ssa.Call)
	ls := OuterLoops(Loops(fn), sh.compat.Block())
	if len(ls) != 2 {
		return nil, fmt.Sprintf("the compatibility call is nested in %d loops, expected 2 (organisms x species)", len(ls))
	}
	sh.inner, sh.outer = ls[0], ls[1]
	return sh, ""
}

// checkSpeciatePartition: every iteration over the organisms ends in exactly
// one of {best.addOrganism(org); org.Species = best} or createFirstSpecies(p, org).
// Shared by C08.3 and C02.4.
func (r *Run) checkSpeciatePartition(label string) {
	p := r.P
	fn := p.Func(PkgG, "Population.speciate")
	tm := NewTermer(fn)
	// the loop over the organisms handed in (independent of how the species search itself is written)
	sh := &speciateShape{fn: fn, tm: tm}
	for _, l := range Loops(fn) {
		if loopRangesOver(tm, l, "p2") && (sh.outer == nil || len(l.Blocks) > len(sh.outer.Blocks)) {
			sh.outer = l
		}
	}
	if sh.outer == nil {
		r.Undecided(label, p.Pos(fn.Pos()), "speciate has no loop over the organisms it is given")
		return
	}
	r.Fn(FuncName(fn))
	create := p.Func(PkgG, "createFirstSpecies")
	addOrg := p.Func(PkgG, "Species.addOrganism")
	speciesF := p.Field(PkgG, "Organism", "Species")
	paths, complete := EnumIterPaths(fn, sh.outer, 2000)
	if !complete {
		r.Undecided(label, p.Pos(fn.Pos()), "too many paths through one iteration of the organism loop")
		return
	}
	r.PathsExplored += len(paths)
	nBack := 0
	for _, ip := range paths {
		if ip.End != "back" {
			continue
		}
		nBack++
		var creates, adds []ssa.CallInstruction
		var backptrs []*ssa.Store
		for _, b := range ip.Blocks[:len(ip.Blocks)-1] {
			for _, in := range b.Instrs {
				switch x := in.(type) {
				case ssa.CallInstruction:
					switch x.Common().StaticCallee() {
					case create:
						creates = append(creates, x)
					case addOrg:
						adds = append(adds, x)
					}
				case *ssa.Store:
					if StoredField(x) == speciesF {
						backptrs = append(backptrs, x)
					}
				}
			}
		}
		pos := p.Pos(firstPos(ip))
		lbl := label + ".path[" + pathKey(ip) + "]"
		switch {
		case len(creates) == 1 && len(adds) == 0 && len(backptrs) == 0:
			a := callArgTerms(tm, creates[0].Common())
			okArgs := a[0].Op == "recv" && a[1].Op == "elem" && isParamIdx(a[1].Args[0], 2)
			// reached only with no species at all or no compatible species selected
			justified := false
			for _, g := range ip.Conds {
				gt := tm.Of(g.Cond)
				if gt.Op == "bin" && gt.Name == "==" && g.True && gt.Args[0].String() == "len(recv.Species)" && gt.Args[1].String() == "0" {
					justified = true
				}
				if gt.Op == "bin" && gt.Name == "!=" && !g.True && gt.Args[1].Op == "nil" {
					justified = true
				}
				if gt.Op == "bin" && gt.Name == "==" && g.True && gt.Args[1].Op == "nil" {
					justified = true
				}
				// !done, where done is a flag that is true exactly when a species was selected
				if _, isPhi := g.Cond.(*ssa.Phi); isPhi && !g.True {
					justified = true
				}
			}
			r.Check(okArgs && justified, lbl, pos, "a new species is founded for the organism (no species exist / none was selected)",
				"a new species is founded on a path where a compatible species may have been selected, or not for the current organism", ip.Describe(p)...)
		case len(creates) == 0 && len(adds) == 1 && len(backptrs) == 1:
			a := callArgTerms(tm, adds[0].Common())
			best := adds[0].Common().Args[0]
			okSame := backptrs[0].Val == best
			okOrg := a[1].Op == "elem" && isParamIdx(a[1].Args[0], 2) && tm.Of(backptrs[0].Addr.(*ssa.FieldAddr).X).String() == a[1].String()
			nonNil := false
			for _, g := range ip.Conds {
				if b, ok := g.Cond.(*ssa.BinOp); ok && (b.X == best || b.Y == best) {
					if (b.Op == token.NEQ && g.True) || (b.Op == token.EQL && !g.True) {
						nonNil = true
					}
				}
			}
			r.Check(okSame && okOrg && nonNil, lbl, pos, "the organism joins the selected species and points back to it",
				fmt.Sprintf("membership and back pointer disagree or are unguarded: same species=%v same organism=%v species known non-nil=%v", okSame, okOrg, nonNil), ip.Describe(p)...)
		default:
			r.Bad(lbl, pos, fmt.Sprintf("one pass over an organism performs %d createFirstSpecies, %d addOrganism and %d back-pointer stores; expected either (1,0,0) or (0,1,1): the organism ends up in no species, in two, or listed without pointing back", len(creates), len(adds), len(backptrs)), ip.Describe(p)...)
		}
	}
	r.Floor(label+" iteration paths", nBack, 2)
}

// C08 — speciation puts each organism in its nearest compatible species.
func C08(p *Prog, r *Run) {
	r.Explanation = "Decided on Population.speciate: (1) full scan: the loop over the species has no exit other than exhaustion; (2) argmin under threshold, over every acyclic path of one scan step: the running best species and best distance change together, exactly when distance < CompatThreshold and distance < best-so-far (strictly, distance on the smaller side), to the current species and its distance; the distance is compatibility(organism's genome, representative's genome, options) with representative = first organism of the species; the best distance starts at a value no distance exceeds; (3) founding: every pass over an organism ends in exactly one of joining the selected species (with back pointer) or founding a new species, the latter exactly when no species exist or none was selected; a new species gets LastSpecies+1 as id (incremented before use, only there) and is created novel. Not decided: the distance itself (C07)."
	sh, why := findSpeciate(p)
	if sh == nil {
		r.Rule("C08.0", "shape of speciate", func() { r.Undecided("speciate", "-", why) })
		return
	}
	fn, tm := sh.fn, sh.tm
	r.Fn(FuncName(fn))

	r.Rule("C08.1", "full scan: the loop over the species is left only when all species have been compared", func() {
		nExit := 0
		for b := range sh.inner.Blocks {
			for _, s := range b.Succs {
				if sh.inner.Blocks[s] {
					continue
				}
				nExit++
				iff, ok := b.Instrs[len(b.Instrs)-1].(*ssa.If)
				okB := false
				if ok {
					ct := tm.Of(iff.Cond)
					okB = ct.Op == "bin" && ct.Name == "<" && ct.Args[1].String() == "len(recv.Species)" && b.Succs[1] == s
				}
				r.Check(okB, "species-scan.exit", p.Pos(firstBlockPos(b)), "the scan ends by exhaustion of recv.Species",
					"the scan over the species can be left early (break/return): an organism is placed in the first compatible species instead of the nearest one")
			}
		}
		r.Floor("exits of the species scan", nExit, 1)
	})

	r.Rule("C08.2", "argmin under threshold: best species and best distance are updated together exactly when distance < threshold and distance < best-so-far; the distance is measured against the species' first organism", func() {
		// distance arguments
		a := callArgTerms(tm, &sh.compat.Call)
		first := p.Func(PkgG, "Species.firstOrganism")
		okOrg := a[0].Op == "field" && a[0].Name == "Genotype" && a[0].Args[0].Op == "elem" && isParamIdx(a[0].Args[0].Args[0], 2)
		okRep := a[1].Op == "field" && a[1].Name == "Genotype" && isCallTo(a[1].Args[0], first) && a[1].Args[0].Args[0].String() == "recv.Species[*]"
		r.Check(okOrg && okRep, "distance.arguments", p.Pos(sh.compat.Pos()), "distance(organism genome, representative genome)", "the distance is not measured between the organism's genome and the genome of the species' first organism: "+a[0].String()+" vs "+a[1].String())
		// firstOrganism returns nil or Organisms[0]
		tf := NewTermer(first)
		okF := true
		for _, b := range first.Blocks {
			if ret, ok := b.Instrs[len(b.Instrs)-1].(*ssa.Return); ok {
				for _, alt := range tf.Of(ret.Results[0]).Alternatives() {
					if alt.Op != "nil" && alt.String() != "recv.Organisms[0]" {
						okF = false
					}
				}
			}
		}
		r.Check(okF, "representative", p.Pos(first.Pos()), "the representative is Organisms[0]", "firstOrganism does not return the first organism of the species")
		// header phis: best species (pointer), best value (float), done flag
		var bestSp, bestVal *ssa.Phi
		for _, ph := range HeaderPhis(sh.inner) {
			ts := typeShort(ph.Type())
			switch {
			case strings.HasSuffix(ts, "genetics.Species"):
				bestSp = ph
			case ts == "float64":
				bestVal = ph
			}
		}
		if bestSp == nil || bestVal == nil {
			r.Undecided("argmin.state", p.Pos(fn.Pos()), "cannot find the running best species / best distance of the scan")
			return
		}
		// initial values
		initOK := false
		for i, e := range bestVal.Edges {
			if !sh.inner.Blocks[bestVal.Block().Preds[i]] {
				if c, ok := e.(*ssa.Const); ok && c.Value != nil {
					f, _ := constant.Float64Val(c.Value)
					initOK = f >= math.MaxFloat64 || math.IsInf(f, 1)
				}
				if t := tm.Of(e); t.Op == "call" && t.Name == "math.Inf" && !strings.HasPrefix(t.Args[0].String(), "-") {
					initOK = true
				}
			}
		}
		r.Check(initOK, "argmin.init", p.Pos(fn.Pos()), "the best distance starts at the largest float", "the best distance does not start at a value that no distance exceeds: species farther than it can never be selected")
		spInit := false
		for i, e := range bestSp.Edges {
			if !sh.inner.Blocks[bestSp.Block().Preds[i]] && tm.Of(e).Op == "nil" {
				spInit = true
			}
		}
		r.Check(spInit, "argmin.init-species", p.Pos(fn.Pos()), "no species is selected before the scan", "a species is pre-selected before the scan")
		paths, complete := EnumIterPaths(fn, sh.inner, 500)
		if !complete {
			r.Undecided("argmin.paths", p.Pos(fn.Pos()), "too many paths")
			return
		}
		r.PathsExplored += len(paths)
		dist := ssa.Value(sh.compat)
		n := 0
		for _, ip := range paths {
			if ip.End != "back" {
				continue
			}
			n++
			ns, nv := ip.NextValue(bestSp), ip.NextValue(bestVal)
			underThr, underBest, evaluated := false, false, ip.OnPath(sh.compat)
			for _, g := range ip.Conds {
				b, ok := g.Cond.(*ssa.BinOp)
				if !ok {
					continue
				}
				x, y, op := b.X, b.Y, b.Op
				if y == dist {
					x, y = y, x
					switch op {
					case token.GTR:
						op = token.LSS
					case token.LSS:
						op = token.GTR
					case token.GEQ:
						op = token.LEQ
					case token.LEQ:
						op = token.GEQ
					}
				}
				if x != dist || op != token.LSS || !g.True {
					continue
				}
				if yt := tm.Of(y); yt.Op == "field" && yt.Name == "CompatThreshold" {
					underThr = true
				}
				if y == ssa.Value(bestVal) {
					underBest = true
				}
			}
			updated := ns != ssa.Value(bestSp) || nv != ssa.Value(bestVal)
			pos := p.Pos(firstPos(ip))
			lbl := "argmin.path[" + pathKey(ip) + "]"
			switch {
			case updated:
				okU := evaluated && underThr && underBest && nv == dist && tm.Of(ns).String() == "recv.Species[*]"
				r.Check(okU, lbl, pos, "update: (best, bestDistance) <- (this species, its distance) under distance < threshold and distance < best-so-far",
					fmt.Sprintf("the running best is updated to (%s, %s) on a path with distance<threshold=%v, distance<best-so-far=%v; both tests (strict, distance on the smaller side) must hold and both values must be set together", tm.Of(ns), tm.Of(nv), underThr, underBest), ip.Describe(p)...)
			default:
				okK := !(underThr && underBest)
				// a species may be passed over only after its distance was measured (and failed a test), or because it has no representative
				noRep := false
				for _, g := range ip.Conds {
					gt := tm.Of(g.Cond)
					if gt.Op == "bin" && gt.Args[1].Op == "nil" && isCallTo(gt.Args[0], first) {
						if (gt.Name == "!=" && !g.True) || (gt.Name == "==" && g.True) {
							noRep = true
						}
					}
				}
				if !evaluated && !noRep {
					r.Bad(lbl, pos, "a species can be passed over without its distance to the organism being measured: a closer compatible species than the one chosen may exist", ip.Describe(p)...)
					continue
				}
				r.Check(okK, lbl, pos, "no update on this path (a test failed or the species is empty)", "a species closer than both the threshold and the best so far is not recorded as the best", ip.Describe(p)...)
			}
		}
		r.Floor("scan-step paths", n, 3)
	})

	r.Rule("C08.3", "founding: each organism either joins the selected species (with back pointer) or founds a new species, the latter exactly when no species exist or none was selected; new species get a fresh id and are novel", func() {
		r.checkSpeciatePartition("speciate")
		r.checkCreateFirstSpecies("createFirstSpecies")
	})

	r.Rule("C08.4", "only speciate assigns membership: addOrganism is called from speciate and createFirstSpecies only, createFirstSpecies from speciate only, and nobody else stores an organism's Species back pointer - so every organism that is in a species was compared with the representatives first", func() {
		spec := p.Func(PkgG, "Population.speciate")
		cfs := p.Func(PkgG, "createFirstSpecies")
		add := p.Func(PkgG, "Species.addOrganism")
		back := p.Field(PkgG, "Organism", "Species")
		nCalls, nSt := 0, 0
		for _, fn := range p.SrcFuncs() {
			for _, c := range CallsTo(fn, add) {
				nCalls++
				r.Check(fn == spec || fn == cfs, "addOrganism.caller:"+fn.Name(), p.Pos(c.Pos()), "called by the speciation code", FuncName(fn)+" puts an organism into a species without speciate's comparison with the representatives (nearest compatible species / founding when none is compatible)")
			}
			for _, c := range CallsTo(fn, cfs) {
				nCalls++
				r.Check(fn == spec, "createFirstSpecies.caller:"+fn.Name(), p.Pos(c.Pos()), "called by speciate", FuncName(fn)+" founds a species for an organism outside speciate: whether an existing representative is within the threshold is not examined")
			}
			for _, st := range FieldStores(fn, back) {
				nSt++
				okS := fn == spec || fn == cfs
				if !okS {
					// a constructor initialising its own fresh organism, or a nil reset
					if fa, ok := st.Addr.(*ssa.FieldAddr); ok {
						if _, fresh := fa.X.(*ssa.Alloc); fresh {
							okS = true
						}
					}
					if c, ok := st.Val.(*ssa.Const); ok && c.Value == nil {
						okS = true
					}
				}
				r.Check(okS, "Organism.Species.writer:"+fn.Name(), p.Pos(st.Pos()), "back pointer set by the speciation code", FuncName(fn)+" sets an organism's species back pointer outside speciate")
			}
		}
		r.Floor("membership call sites", nCalls, 4)
		r.Floor("back-pointer stores", nSt, 2)
	})

	r.Rule("C08.5", "the distance compared with the threshold is the compatibility formula: Genome.compatibility only dispatches to the two walks (shared with C07.1)", func() {
		r.c07Dispatch()
	})
}

func firstBlockPos(b *ssa.BasicBlock) token.Pos {
	for _, in := range b.Instrs {
		if in.Pos().IsValid() {
			return in.Pos()
		}
	}
	return token.NoPos
}

// checkCreateFirstSpecies: LastSpecies is incremented before it is used as the id, the species is
// created novel, appended to the population, and organism and species point at each other.
func (r *Run) checkCreateFirstSpecies(label string) {
	p := r.P
	fn := p.Func(PkgG, "createFirstSpecies")
	r.Fn(FuncName(fn))
	tm := NewTermer(fn)
	last := p.Field(PkgG, "Population", "LastSpecies")
	var inc *ssa.Store
	for _, st := range FieldStores(fn, last) {
		v := tm.Of(st.Val)
		if v.Op == "bin" && v.Name == "+" && v.Args[0].String() == "p0.LastSpecies" && v.Args[1].String() == "1" {
			inc = st
		}
	}
	r.Check(inc != nil, label+".id-increment", p.Pos(fn.Pos()), "LastSpecies is incremented", "createFirstSpecies does not increment LastSpecies: species ids are reused")
	ctor := p.Func(PkgG, "NewSpeciesNovel")
	cs := CallsTo(fn, ctor)
	if len(cs) != 1 {
		r.Bad(label+".ctor", p.Pos(fn.Pos()), fmt.Sprintf("%d NewSpeciesNovel calls", len(cs)))
		return
	}
	c := cs[0]
	a := callArgTerms(tm, c.Common())
	after := inc != nil && (inc.Block() == c.Block() && instrIndex(inc) < instrIndex(c) || inc.Block() != c.Block() && inc.Block().Dominates(c.Block()))
	r.Check(a[0].String() == "p0.LastSpecies" && after, label+".id", p.Pos(c.Pos()), "the id is LastSpecies after the increment", "the new species' id is "+a[0].String()+" (increment before use: "+fmt.Sprint(after)+")")
	r.Check(a[1].String() == "true", label+".novel", p.Pos(c.Pos()), "created novel", "the new species is not created novel: it is aged in the turnover that founded it")
	sp := c.Value()
	appended, added, back := false, false, false
	Instrs(fn, func(_ *ssa.BasicBlock, _ int, in ssa.Instruction) {
		switch x := in.(type) {
		case *ssa.Store:
			if f := StoredField(x); f != nil {
				if f.Name() == "Species" && f == p.Field(PkgG, "Population", "Species") {
					if v := tm.Of(x.Val); v.Op == "call" && v.Name == "append" && v.Args[0].String() == "p0.Species" {
						appended = true
					}
				}
				if f == p.Field(PkgG, "Organism", "Species") && x.Val == sp && isParamIdx(tm.Of(x.Addr.(*ssa.FieldAddr).X), 1) {
					back = true
				}
			}
		case ssa.CallInstruction:
			if x.Common().StaticCallee() == p.Func(PkgG, "Species.addOrganism") && x.Common().Args[0] == sp && isParamIdx(tm.Of(x.Common().Args[1]), 1) {
				added = true
			}
		}
	})
	r.Check(appended && added && back, label+".links", p.Pos(fn.Pos()), "appended to the population, lists the organism, organism points back",
		fmt.Sprintf("new species appended=%v, lists the organism=%v, organism points back=%v", appended, added, back))
	// the only writers of LastSpecies
	var others []string
	for _, f := range p.SrcFuncs() {
		if f == fn {
			continue
		}
		for _, st := range FieldStores(f, last) {
			others = append(others, FuncName(f)+" at "+p.Pos(st.Pos()))
		}
	}
	r.Check(len(others) == 0, label+".only-writer", p.Pos(fn.Pos()), "no other function writes LastSpecies", "LastSpecies is also written by "+strings.Join(others, "; ")+": an id can be issued twice")
	// NewSpeciesNovel: Age 1, IsNovel <- param
	sm := NewSummaries(p).Ctor(ctor)
	if sm.Why == "" {
		age := sm.Fields[p.Field(PkgG, "Species", "Age")]
		nov := sm.Fields[p.Field(PkgG, "Species", "IsNovel")]
		id := sm.Fields[p.Field(PkgG, "Species", "Id")]
		r.Check(age != nil && age.String() == "1" && nov != nil && isParamIdx(nov, 1) && id != nil && isParamIdx(id, 0), label+".NewSpeciesNovel", p.Pos(ctor.Pos()), "Age 1, IsNovel and Id from the arguments",
			fmt.Sprintf("NewSpeciesNovel: Age=%v IsNovel=%v Id=%v", age, nov, id))
	} else {
		r.Undecided(label+".NewSpeciesNovel", p.Pos(ctor.Pos()), sm.Why)
	}
}
