package nc

import (
	"fmt"
	"go/constant"
	"go/token"
	"math"
	"strings"

	"golang.org/x/tools/go/ssa"
)

func init() { register("C08", C08) }

// speciateShape locates the two loops of Population.speciate.
type speciateShape struct {
	fn           *ssa.Function
	tm           *Termer
	outer, inner *Loop
	compat       *ssa.Call // call of Genome.compatibility
}

func findSpeciate(p *Prog) (*speciateShape, string) {
	fn := p.Func(PkgG, "Population.speciate")
	sh := &speciateShape{fn: fn, tm: NewTermer(fn)}
	cs := CallsTo(fn, p.Func(PkgG, "Genome.compatibility"))
	if len(cs) != 1 {
		return nil, fmt.Sprintf("speciate calls compatibility %d times, expected once", len(cs))
	}
	sh.compat = cs[0].(*ssa.Call)
	ls := OuterLoops(Loops(fn), sh.compat.Block())
	if len(ls) != 2 {
		return nil, fmt.Sprintf("the compatibility call is nested in %d loops, expected 2 (organisms x species)", len(ls))
	}
	sh.inner, sh.outer = ls[0], ls[1]
	return sh, ""
}

// checkSpeciatePartition: every iteration over the organisms ends in exactly
// one of {best.addOrganism(org); org.Species = best} or createFirstSpecies(p, org).
// Shared by C08.3 and C02.4.
func (r *Run) checkSpeciatePartition(label string) {
	p := r.P
	fn := p.Func(PkgG, "Population.speciate")
	tm := NewTermer(fn)
	// the loop over the organisms handed in (independent of how the species search itself is written)
	sh := &speciateShape{fn: fn, tm: tm}
	for _, l := range Loops(fn) {
		if loopRangesOver(tm, l, "p2") && (sh.outer == nil || len(l.Blocks) > len(sh.outer.Blocks)) {
			sh.outer = l
		}
	}
	if sh.outer == nil {
		r.Undecided(label, p.Pos(fn.Pos()), "speciate has no loop over the organisms it is given")
		return
	}
	r.Fn(FuncName(fn))
	// founding: a call of createFirstSpecies (function or method of Population), or its body in place (a fresh species on the path)
	create := foundingFunc(p)
	speciesF := p.Field(PkgG, "Organism", "Species")
	locals := structLocals(fn)
	loops := Loops(fn)
	sums := NewSummaries(p)
	freshAll := freshSpeciesValues(p, sums, fn)
	if create == nil && len(freshAll) == 0 {
		p.Func(PkgG, "createFirstSpecies") // neither a founding function nor founding in place: the anchor is missing
	}
	paths, complete := EnumIterPaths(fn, sh.outer, 2000)
	if !complete {
		r.Undecided(label, p.Pos(fn.Pos()), "too many paths through one iteration of the organism loop")
		return
	}
	r.PathsExplored += len(paths)
	flags := &selectionFlags{fn: fn, locals: locals, loops: loops, outer: sh.outer, memo: map[interface{}]bool{}}
	nBack := 0
	for _, ip := range paths {
		if ip.End != "back" {
			continue
		}
		if pathContradictsNil(ip) {
			// not an execution: e.g. an expanded helper's fresh error result continuing on the caller's `err == nil` side
			continue
		}
		nBack++
		seq := newLocalPathSeq(fn, locals, ip.Blocks[:len(ip.Blocks)-1])
		fresh := freshOnPath(ip, freshAll)
		var creates []ssa.CallInstruction
		var adds []*memberAdd // addOrganism calls, or the helper's append written in place
		var backptrs []*ssa.Store
		otherListWrites := 0 // a species' organism list replaced in some other way
		for _, b := range ip.Blocks[:len(ip.Blocks)-1] {
			for _, in := range b.Instrs {
				if add, other := memberWrite(p, in); add != nil {
					adds = append(adds, add)
					continue
				} else if other {
					otherListWrites++
					continue
				}
				switch x := in.(type) {
				case ssa.CallInstruction:
					if create != nil && x.Common().StaticCallee() == create {
						creates = append(creates, x)
					}
				case *ssa.Store:
					if StoredField(x) == speciesF {
						backptrs = append(backptrs, x)
					}
				}
			}
		}
		pos := p.Pos(firstPos(ip))
		lbl := label + ".path[" + pathKey(ip) + "]"
		// a founding path is reached only with no species at all or no compatible species selected
		foundingJustified := func() bool {
			justified := false
			for _, g := range ip.Conds {
				// no species exist: len(recv.Species) == 0 in any spelling
				if LenZeroFact(g.Cond, g.True, func(v ssa.Value) bool { return tm.Of(v).String() == "recv.Species" }) > 0 {
					justified = true
				}
				// a pointer was found nil (x == nil, nil == x, !(x != nil), ...)
				if GuardNilness(g, func(ssa.Value) bool { return true }) > 0 {
					justified = true
				}
				// !done, where done is a flag that is true exactly when a species was selected: an SSA-promoted
				// local or a boolean field of a struct-valued local
				// (that it is: every scan step that selects a species raises it, none takes it back - selectionFlags)
				if ph, isPhi := g.Cond.(*ssa.Phi); isPhi && !g.True && flags.phiSound(ph) {
					justified = true
				}
				if c, isCell := cellOfLoad(locals, g.Cond); isCell && !g.True && c.typ() != nil && typeShort(c.typ()) == "bool" && flags.cellSound(c) {
					justified = true
				}
			}
			return justified
		}
		switch {
		case otherListWrites > 0:
			r.Bad(lbl, pos, fmt.Sprintf("one pass over an organism replaces a species' organism list %d time(s) other than by appending one organism to it: members are dropped or listed without the comparison", otherListWrites), ip.Describe(p)...)
		case len(fresh) > 0:
			// founding written in place: one fresh species, which lists the current organism and is pointed back to by it
			// (its id, novelty and registration with the population are the subject of checkCreateFirstSpecies)
			if len(fresh) != 1 || len(creates) != 0 || len(adds) != 1 || len(backptrs) != 1 || adds[0].Species != fresh[0] || backptrs[0].Val != fresh[0] {
				r.Bad(lbl, pos, fmt.Sprintf("one pass over an organism creates %d new species in place and performs %d createFirstSpecies, %d addOrganism and %d back-pointer stores; expected one new species that lists the organism and is pointed back to by it: the organism ends up in no species, in two, or listed without pointing back", len(fresh), len(creates), len(adds), len(backptrs)), ip.Describe(p)...)
				continue
			}
			ff := foundingOnPath(p, sums, fn, tm, loops, sh.outer, ip, fresh[0])
			orgT := tm.Of(adds[0].Org)
			okArgs := ff.Added && ff.Back && ff.Once && tm.Of(backptrs[0].Addr.(*ssa.FieldAddr).X).String() == orgT.String()
			r.Check(okArgs && foundingJustified(), lbl, pos, "a new species is founded in place for the organism (no species exist / none was selected)",
				"a new species is founded on a path where a compatible species may have been selected, or not (exactly once) for the current organism", ip.Describe(p)...)
		case len(creates) == 1 && len(adds) == 0 && len(backptrs) == 0:
			a := callArgTerms(tm, creates[0].Common())
			okArgs := a[0].Op == "recv" && a[1].Op == "elem" && isParamIdx(a[1].Args[0], 2)
			r.Check(okArgs && foundingJustified(), lbl, pos, "a new species is founded for the organism (no species exist / none was selected)",
				"a new species is founded on a path where a compatible species may have been selected, or not for the current organism", ip.Describe(p)...)
		case len(creates) == 0 && len(adds) == 1 && len(backptrs) == 1:
			best := adds[0].Species
			orgT := tm.Of(adds[0].Org)
			// the same species value; for a field of a struct-valued local: two reads with no write in between
			okSame := seq.sameValue(backptrs[0].Val, best, loops, sh.outer)
			okOrg := orgT.Op == "elem" && isParamIdx(orgT.Args[0], 2) && tm.Of(backptrs[0].Addr.(*ssa.FieldAddr).X).String() == orgT.String()
			nonNil := false
			for _, g := range ip.Conds {
				if GuardNilness(g, func(v ssa.Value) bool { return seq.sameValue(v, best, loops, sh.outer) }) < 0 {
					nonNil = true
				}
			}
			r.Check(okSame && okOrg && nonNil, lbl, pos, "the organism joins the selected species and points back to it",
				fmt.Sprintf("membership and back pointer disagree or are unguarded: same species=%v same organism=%v species known non-nil=%v", okSame, okOrg, nonNil), ip.Describe(p)...)
		default:
			r.Bad(lbl, pos, fmt.Sprintf("one pass over an organism performs %d createFirstSpecies, %d addOrganism and %d back-pointer stores; expected either (1,0,0) or (0,1,1): the organism ends up in no species, in two, or listed without pointing back", len(creates), len(adds), len(backptrs)), ip.Describe(p)...)
		}
	}
	r.Floor(label+" iteration paths", nBack, 2)
}

// C08 — speciation puts each organism in its nearest compatible species.
func C08(p *Prog, r *Run) {
	r.Explanation = "Decided on Population.speciate: (1) full scan: the loop over the species has no exit other than exhaustion; (2) argmin under threshold, over every acyclic path of one scan step: the running best species and best distance change together, exactly when distance < CompatThreshold and distance < best-so-far (strictly, distance on the smaller side), to the current species and its distance; the distance is compatibility(organism's genome, representative's genome, options) with representative = first organism of the species; the best distance starts at a value no distance exceeds; (3) founding: every pass over an organism ends in exactly one of joining the selected species (with back pointer) or founding a new species, the latter exactly when no species exist or none was selected; a new species gets LastSpecies+1 as id (incremented before use, only there) and is created novel; a flag tested instead of the selected species (`!done`) counts as 'none was selected' only when every scan step that selects a species raises it and none takes it back; (4) only speciate assigns membership; (5,6) the distance compared is the NEAT distance: dispatch, guarded division and both walks (obligations of C07.1, C07.2, C07.3+4, evaluated here as well); (7) the options compared with are the caller's: speciate reads threshold and distance options from the one Options object its context carries, NewContext/FromContext bind and find it under one key, Options.NeatContext returns on every path a context binding its own receiver and stores nothing, and every caller up to the public constructors hands on the options it was given. Not decided: C07.5/C07.6 (inputs and configured coefficients of the walks, see C07)."
	sh, why := findSpeciate(p)
	if sh == nil {
		r.Rule("C08.0", "shape of speciate", func() { r.Undecided("speciate", "-", why) })
		return
	}
	fn, tm := sh.fn, sh.tm
	r.Fn(FuncName(fn))

	r.Rule("C08.1", "full scan: the loop over the species is left only when all species have been compared", func() {
		nExit := 0
		for b := range sh.inner.Blocks {
			for _, s := range b.Succs {
				if sh.inner.Blocks[s] {
					continue
				}
				nExit++
				iff, ok := b.Instrs[len(b.Instrs)-1].(*ssa.If)
				okB := false
				if ok && len(b.Succs) == 2 && b.Succs[0] != b.Succs[1] {
					// what holds on the way out: i >= len(recv.Species), in any spelling
					if x, y, op, okF := CmpFact(iff.Cond, b.Succs[0] == s); okF {
						isLen := func(v ssa.Value) bool { return tm.Of(v).String() == "len(recv.Species)" }
						okB = (isLen(y) && !isLen(x) && (op == token.GEQ || op == token.EQL)) || (isLen(x) && !isLen(y) && (op == token.LEQ || op == token.EQL))
					}
				}
				r.Check(okB, "species-scan.exit", p.Pos(firstBlockPos(b)), "the scan ends by exhaustion of recv.Species",
					"the scan over the species can be left early (break/return): an organism is placed in the first compatible species instead of the nearest one")
			}
		}
		r.Floor("exits of the species scan", nExit, 1)
	})

	r.Rule("C08.2", "argmin under threshold: best species and best distance are updated together exactly when distance < threshold and distance < best-so-far; the distance is measured against the species' first organism", func() {
		// distance arguments
		a := callArgTerms(tm, &sh.compat.Call)
		// the representative of the species under comparison: Species.firstOrganism() of it, or that helper's body
		// written in place (nil for an empty list, else Organisms[0])
		first := p.FuncOpt(PkgG, "Species.firstOrganism")
		const curSpecies = "recv.Species[*]"
		isRep := func(t *Term) bool {
			if first != nil && isCallTo(t, first) && len(t.Args) == 1 && t.Args[0].String() == curSpecies {
				return true
			}
			return t.Op == "elem" && t.String() == curSpecies+".Organisms[0]"
		}
		okOrg := a[0].Op == "field" && a[0].Name == "Genotype" && a[0].Args[0].Op == "elem" && isParamIdx(a[0].Args[0].Args[0], 2)
		okRep := a[1].Op == "field" && a[1].Name == "Genotype"
		if okRep {
			nRep := 0
			for _, alt := range a[1].Args[0].Alternatives() {
				switch {
				case isRep(alt):
					nRep++
				case alt.Op == "nil":
					// "no representative"; when and why this alternative is taken is examined per scan step below
				default:
					okRep = false
				}
			}
			okRep = okRep && nRep > 0
		}
		r.Check(okOrg && okRep, "distance.arguments", p.Pos(sh.compat.Pos()), "distance(organism genome, representative genome)", "the distance is not measured between the organism's genome and the genome of the species' first organism: "+a[0].String()+" vs "+a[1].String())
		// firstOrganism returns nil or Organisms[0]
		if first != nil {
			// on every path through it: Organisms[0], or nil because the list is empty (or there is no species)
			tf := NewTermer(first)
			okF := true
			fpaths, fcomplete := EnumRegionPaths(first, first.Blocks[0], func(*ssa.BasicBlock) bool { return false }, 200)
			nRet := 0
			for _, fp := range fpaths {
				if fp.End != "return" {
					okF = false
					continue
				}
				nRet++
				ret := fp.Blocks[len(fp.Blocks)-1].Instrs[len(fp.Blocks[len(fp.Blocks)-1].Instrs)-1].(*ssa.Return)
				rv := fp.ResolveAt(ret.Results[0])
				if c, isConst := rv.(*ssa.Const); isConst && c.Value == nil {
					why := false
					for _, g := range fp.Conds {
						if condImpliesEmpty(tf, g, "recv.Organisms") {
							why = true
						}
						if GuardNilness(g, func(v ssa.Value) bool { return tf.Of(v).Op == "recv" }) > 0 {
							why = true
						}
					}
					okF = okF && why
					continue
				}
				for _, alt := range tf.Of(rv).Alternatives() {
					if alt.String() != "recv.Organisms[0]" {
						okF = false
					}
				}
			}
			okF = okF && fcomplete && nRet > 0
			r.Check(okF, "representative", p.Pos(first.Pos()), "the representative is Organisms[0], nil only for an empty species", "firstOrganism does not return the first organism of the species (or returns nil for a species that has organisms)")
		} else {
			r.OK("representative", p.Pos(sh.compat.Pos()), "Species.firstOrganism no longer exists; the representative is read in place (distance.arguments)")
		}
		// the running best species (pointer) and best distance (float) of the scan: locals carried around the loop -
		// SSA-promoted ones (header phis) or fields of one struct-valued local that the scan writes
		locals := structLocals(fn)
		var bestSp, bestVal *scanVar
		for _, ph := range HeaderPhis(sh.inner) {
			ts := typeShort(ph.Type())
			switch {
			case strings.HasSuffix(ts, "genetics.Species"):
				bestSp = &scanVar{phi: ph}
			case ts == "float64":
				bestVal = &scanVar{phi: ph}
			}
		}
		nSpCells, nValCells := 0, 0
		for _, c := range loopCells(fn, locals, sh.inner) {
			c := c
			if c.typ() == nil {
				continue
			}
			ts := typeShort(c.typ())
			switch {
			case strings.HasSuffix(ts, "genetics.Species") && (bestSp == nil || bestSp.cell != nil):
				bestSp = &scanVar{cell: &c}
				nSpCells++
			case ts == "float64" && (bestVal == nil || bestVal.cell != nil):
				bestVal = &scanVar{cell: &c}
				nValCells++
			}
		}
		if bestSp == nil || bestVal == nil || nSpCells > 1 || nValCells > 1 {
			r.Undecided("argmin.state", p.Pos(fn.Pos()), "cannot find the running best species / best distance of the scan")
			return
		}
		// initial values
		valInits, valKnown := bestVal.initValues(fn, locals, sh.inner)
		initOK := len(valInits) > 0
		for _, e := range valInits {
			okE := false
			if c, ok := e.(*ssa.Const); ok && c.Value != nil {
				f, _ := constant.Float64Val(c.Value)
				okE = f >= math.MaxFloat64 || math.IsInf(f, 1)
			}
			if t := tm.Of(e); t.Op == "call" && t.Name == "math.Inf" && !strings.HasPrefix(t.Args[0].String(), "-") {
				okE = true
			}
			initOK = initOK && okE
		}
		r.Check(initOK && valKnown, "argmin.init", p.Pos(fn.Pos()), "the best distance starts at the largest float", "the best distance does not start at a value that no distance exceeds: species farther than it can never be selected")
		spInits, spKnown := bestSp.initValues(fn, locals, sh.inner)
		spInit := len(spInits) > 0
		for _, e := range spInits {
			spInit = spInit && tm.Of(e).Op == "nil"
		}
		r.Check(spInit && spKnown, "argmin.init-species", p.Pos(fn.Pos()), "no species is selected before the scan", "a species is pre-selected before the scan")
		paths, complete := EnumIterPaths(fn, sh.inner, 500)
		if !complete {
			r.Undecided("argmin.paths", p.Pos(fn.Pos()), "too many paths")
			return
		}
		r.PathsExplored += len(paths)
		dist := ssa.Value(sh.compat)
		n := 0
		for _, ip := range paths {
			if ip.End != "back" {
				continue
			}
			n++
			seq := newLocalPathSeq(fn, locals, ip.Blocks[:len(ip.Blocks)-1])
			ns, updSp, knownSp := bestSp.next(ip, seq)
			nv, updVal, knownVal := bestVal.next(ip, seq)
			underThr, underBest, evaluated := false, false, ip.OnPath(sh.compat)
			for _, g := range ip.Conds {
				// the comparison that holds on this path, with the distance on the left: distance < y
				x, y, op, ok := CmpFact(g.Cond, g.True)
				if !ok {
					continue
				}
				if y == dist {
					x, y, op = y, x, mirrorCmp(op)
				}
				if x != dist || op != token.LSS {
					continue
				}
				if yt := tm.Of(y); yt.Op == "field" && yt.Name == "CompatThreshold" {
					underThr = true
				}
				if bestVal.isCurrent(y, seq) {
					underBest = true
				}
			}
			updated := updSp || updVal
			pos := p.Pos(firstPos(ip))
			lbl := "argmin.path[" + pathKey(ip) + "]"
			switch {
			case updated:
				okU := evaluated && underThr && underBest && knownSp && knownVal && nv == dist && tm.Of(ns).String() == "recv.Species[*]"
				nsT, nvT := "?", "?"
				if ns != nil {
					nsT = tm.Of(ns).String()
				}
				if nv != nil {
					nvT = tm.Of(nv).String()
				}
				r.Check(okU, lbl, pos, "update: (best, bestDistance) <- (this species, its distance) under distance < threshold and distance < best-so-far",
					fmt.Sprintf("the running best is updated to (%s, %s) on a path with distance<threshold=%v, distance<best-so-far=%v; both tests (strict, distance on the smaller side) must hold and both values must be set together", nsT, nvT, underThr, underBest), ip.Describe(p)...)
			default:
				okK := !(underThr && underBest)
				// a species may be passed over only after its distance was measured (and failed a test), or because it has no
				// representative: the representative, as it is on this path, was tested and is nil, or the species' list is empty
				noRep := false
				sub := &IterPath{Blocks: ip.Blocks[:len(ip.Blocks)-1], End: "partial"}
				for _, g := range ip.Conds {
					if condImpliesEmpty(tm, g, curSpecies+".Organisms") {
						noRep = true
					}
					// a value found nil (in any spelling of the test)
					var x ssa.Value
					if GuardNilness(g, func(v ssa.Value) bool { x = v; return true }) <= 0 {
						continue
					}
					// the value tested, as it is on this path; a constant nil says nothing about the species
					xv := sub.Resolve(x)
					if _, isConst := xv.(*ssa.Const); isConst {
						continue
					}
					allRep := true
					alts := tm.Of(xv).Alternatives()
					for _, alt := range alts {
						if !isRep(alt) {
							allRep = false
						}
					}
					if allRep && len(alts) > 0 {
						noRep = true
					}
				}
				if !evaluated && !noRep {
					r.Bad(lbl, pos, "a species can be passed over without its distance to the organism being measured: a closer compatible species than the one chosen may exist", ip.Describe(p)...)
					continue
				}
				r.Check(okK, lbl, pos, "no update on this path (a test failed or the species is empty)", "a species closer than both the threshold and the best so far is not recorded as the best", ip.Describe(p)...)
			}
		}
		r.Floor("scan-step paths", n, 3)
	})

	r.Rule("C08.3", "founding: each organism either joins the selected species (with back pointer) or founds a new species, the latter exactly when no species exist or none was selected; new species get a fresh id and are novel", func() {
		r.checkSpeciatePartition("speciate")
		r.checkCreateFirstSpecies("createFirstSpecies")
	})

	r.Rule("C08.4", "only speciate assigns membership: addOrganism is called from speciate and createFirstSpecies only, createFirstSpecies from speciate only, and nobody else stores an organism's Species back pointer - so every organism that is in a species was compared with the representatives first", func() {
		spec := p.Func(PkgG, "Population.speciate")
		// the founding function (createFirstSpecies, possibly as a method of Population); nil when founding is written in place in
		// speciate: then each fresh species created there is a founding site
		cfs := foundingFunc(p)
		add := p.FuncOpt(PkgG, "Species.addOrganism")
		back := p.Field(PkgG, "Organism", "Species")
		nCalls, nSt := 0, 0
		nFound, nAdds := 0, 0 // founding sites (calls of the founding function, species founded in place); sites that list an organism in a species
		inPlace := freshSpeciesValues(p, NewSummaries(p), spec)
		if cfs == nil && len(inPlace) == 0 {
			p.Func(PkgG, "createFirstSpecies") // no founding code at all: the anchor is missing
		}
		for _, sp := range inPlace {
			nCalls++
			nFound++
			r.OK("createFirstSpecies.caller:"+spec.Name(), p.Pos(sp.Pos()), "a species founded in place by speciate")
		}
		for _, fn := range p.SrcFuncs() {
			if fn != spec && fn != cfs && fn != add && expandedHelper(p, fn) {
				// the declaration of a new private helper whose every call was expanded in place (source normalisation):
				// nothing executes it; its statements are examined where they were expanded, as part of the caller
				continue
			}
			// calls of addOrganism, and the helper's append written in place (the helper's own append is not a site: its callers are)
			Instrs(fn, func(_ *ssa.BasicBlock, _ int, in ssa.Instruction) {
				if m, _ := memberWrite(p, in); m != nil && fn != add {
					nCalls++
					nAdds++
					r.Check(fn == spec || fn == cfs, "addOrganism.caller:"+fn.Name(), p.Pos(in.Pos()), "called by the speciation code", FuncName(fn)+" puts an organism into a species without speciate's comparison with the representatives (nearest compatible species / founding when none is compatible)")
				}
			})
			for _, c := range CallsTo(fn, cfs) {
				if cfs == nil {
					break
				}
				nCalls++
				nFound++
				r.Check(fn == spec, "createFirstSpecies.caller:"+fn.Name(), p.Pos(c.Pos()), "called by speciate", FuncName(fn)+" founds a species for an organism outside speciate: whether an existing representative is within the threshold is not examined")
			}
			for _, st := range FieldStores(fn, back) {
				nSt++
				okS := fn == spec || fn == cfs
				if !okS {
					// a constructor initialising its own fresh organism, or a nil reset
					if fa, ok := st.Addr.(*ssa.FieldAddr); ok {
						if _, fresh := fa.X.(*ssa.Alloc); fresh {
							okS = true
						}
					}
					if c, ok := st.Val.(*ssa.Const); ok && c.Value == nil {
						okS = true
					}
				}
				r.Check(okS, "Organism.Species.writer:"+fn.Name(), p.Pos(st.Pos()), "back pointer set by the speciation code", FuncName(fn)+" sets an organism's species back pointer outside speciate")
			}
		}
		// what the rule must have seen not to pass vacuously: the code that founds a species for an organism (at least one site:
		// the `no species yet` and the `none is compatible` cases may share one) and the two ways an organism gets listed in a
		// species (joining the selected one, being listed in the one founded for it) - three sites in all, however the founding
		// sites are arranged (how many founding paths speciate has, and what justifies each, is the subject of C08.3)
		r.Floor("founding sites", nFound, 1)
		r.Floor("sites that list an organism in a species", nAdds, 2)
		r.Floor("membership call sites", nCalls, 3)
		r.Floor("back-pointer stores", nSt, 2)
	})

	r.Rule("C08.5", "the distance compared with the threshold is the compatibility formula: Genome.compatibility only dispatches to the two walks (shared with C07.1)", func() {
		r.c07Dispatch()
	})

	r.Rule("C08.6", "the distance compared with the threshold is the NEAT distance for either method: a float division by a match counter is guarded (never NaN, which is below no threshold), and both walks account every gene exactly once, as disjoint, excess or matching, and return the formula over the final counters (obligations shared with C07.2 and C07.3+4: a wrong distance makes a farther species the 'nearest', or founds a species although a representative is within the threshold)", func() {
		r.c08DistanceIsFormula()
	})

	r.Rule("C08.7", "the threshold, method and coefficients speciation compares with are those of the options object handed in: speciate reads them from the options its context argument carries, FromContext/NewContext bind and find the options under one key, Options.NeatContext returns on every path a context that binds its own receiver (computed from the receiver alone, nothing stored), and every caller up to the public constructors hands on the options it was given - otherwise a population built with options B (e.g. a value copy of A with another CompatThreshold) is speciated by A's threshold: organisms beyond B's threshold join a species, or found one although a representative is within it", func() {
		r.c08OptionsIdentity()
	})
}

func firstBlockPos(b *ssa.BasicBlock) token.Pos {
	for _, in := range b.Instrs {
		if in.Pos().IsValid() {
			return in.Pos()
		}
	}
	return token.NoPos
}

// checkCreateFirstSpecies: LastSpecies is incremented before it is used as the id, the species is
// created novel, appended to the population, and organism and species point at each other.
// The species may be built by NewSpeciesNovel or by that constructor's body written in place
// (another constructor plus stores to the new object): the rule looks at the state of the
// new object when createFirstSpecies returns.
func (r *Run) checkCreateFirstSpecies(label string) {
	p := r.P
	fn := foundingFunc(p)
	// founding written in place in speciate (createFirstSpecies turned into a helper the pinned tree does not have, or written out by hand)
	nSites, incs := r.checkFoundingInPlace(label)
	if fn == nil {
		if nSites == 0 {
			p.Func(PkgG, "createFirstSpecies") // no founding code at all: the anchor is missing
		}
		r.checkLastSpeciesWriters(label, nil, incs)
		return
	}
	r.Fn(FuncName(fn))
	tm := NewTermer(fn)
	last := p.Field(PkgG, "Population", "LastSpecies")
	var rets []*ssa.Return
	for _, b := range fn.Blocks {
		if b == fn.Recover {
			continue // where a function with a deferred call resumes after a recovered panic: not a path of the founding
		}
		if ret, ok := b.Instrs[len(b.Instrs)-1].(*ssa.Return); ok {
			rets = append(rets, ret)
		}
	}
	// the one store LastSpecies = LastSpecies + 1, executed on every path
	var inc *ssa.Store
	lastStores := FieldStores(fn, last)
	for _, st := range lastStores {
		if isParamIdx(tm.Of(st.Addr.(*ssa.FieldAddr).X), 0) && plusOneOfField(tm, st.Val, 0, last) != nil {
			inc = st
		}
	}
	okInc := inc != nil && len(lastStores) == 1
	if okInc {
		for _, ret := range rets {
			okInc = okInc && instrDominates(inc, ret)
		}
		for _, l := range Loops(fn) {
			okInc = okInc && !l.Blocks[inc.Block()]
		}
	}
	r.Check(okInc, label+".id-increment", p.Pos(fn.Pos()), "LastSpecies is incremented (once, on every path)", fmt.Sprintf("createFirstSpecies does not increment LastSpecies exactly once on every path (%d stores to it): species ids are reused", len(lastStores)))
	// the new species
	sums := NewSummaries(p)
	fresh := freshSpeciesValues(p, sums, fn)
	if len(fresh) != 1 {
		r.Bad(label+".ctor", p.Pos(fn.Pos()), fmt.Sprintf("%d species constructions (NewSpeciesNovel or an equivalent fresh species), expected one", len(fresh)))
		return
	}
	sp := fresh[0]
	spPos := p.Pos(sp.Pos())
	// its Id, IsNovel and Age when createFirstSpecies returns
	idF, novF, ageF := p.Field(PkgG, "Species", "Id"), p.Field(PkgG, "Species", "IsNovel"), p.Field(PkgG, "Species", "Age")
	okId, okNovel, okAge, why := len(rets) > 0, len(rets) > 0, len(rets) > 0, ""
	idDesc, after := "?", false
	for _, ret := range rets {
		st := sums.ObjectAt(fn, sp, ret)
		if st.Why != "" {
			why = st.Why
			break
		}
		okId1 := false
		if id := st.Fields[idF]; id != nil {
			idDesc = id.String()
			if okInc && id.Op != "phi" && id.V != nil {
				switch {
				case id.V == inc.Val:
					// the very value stored into LastSpecies
					okId1, after = true, true
				case loadOfParamField(tm, id.V, 0, last) != nil:
					// LastSpecies read back: after the increment, which is the only store to it
					after = instrDominates(inc, loadOfParamField(tm, id.V, 0, last))
					okId1 = after
				default:
					// LastSpecies + 1 computed again from a read that precedes the increment
					if ld := plusOneOfField(tm, id.V, 0, last); ld != nil {
						after = instrDominates(ld, inc) && !mayPrecede(inc, ld)
						okId1 = after
					}
				}
			}
		}
		okId = okId && okId1
		nov := st.Fields[novF]
		okNovel = okNovel && nov != nil && nov.String() == "true"
		age := st.Fields[ageF]
		okAge = okAge && age != nil && age.String() == "1" && st.Fresh
	}
	if why != "" {
		r.Undecided(label+".NewSpeciesNovel", spPos, "state of the new species: "+why)
		return
	}
	r.Check(okId, label+".id", spPos, "the id is LastSpecies after the increment", "the new species' id is "+idDesc+" (increment before use: "+fmt.Sprint(after)+")")
	r.Check(okNovel, label+".novel", spPos, "created novel", "the new species is not created novel: it is aged in the turnover that founded it")
	appended, added, back := false, false, false
	Instrs(fn, func(_ *ssa.BasicBlock, _ int, in ssa.Instruction) {
		if m, _ := memberWrite(p, in); m != nil && m.Species == sp && isParamIdx(tm.Of(m.Org), 1) {
			added = true
		}
		if x, ok := in.(*ssa.Store); ok {
			if f := StoredField(x); f != nil {
				if f == p.Field(PkgG, "Population", "Species") {
					if base, elems, ok := appendCall(x.Val); ok && len(elems) == 1 && elems[0] == sp && isPopSpecies(tm.Of(base)) && isParamIdx(tm.Of(x.Addr.(*ssa.FieldAddr).X), 0) {
						appended = true
					}
				}
				if f == p.Field(PkgG, "Organism", "Species") && x.Val == sp && isParamIdx(tm.Of(x.Addr.(*ssa.FieldAddr).X), 1) {
					back = true
				}
			}
		}
	})
	r.Check(appended && added && back, label+".links", p.Pos(fn.Pos()), "appended to the population, lists the organism, organism points back",
		fmt.Sprintf("new species appended=%v, lists the organism=%v, organism points back=%v", appended, added, back))
	r.checkLastSpeciesWriters(label, fn, incs)
	// the constructor: a fresh species of Age 1 (Id and IsNovel are examined above)
	ctorPos := spPos
	if c, ok := sp.(*ssa.Call); ok && c.Call.StaticCallee() != nil {
		ctorPos = p.Pos(c.Call.StaticCallee().Pos())
	}
	r.Check(okAge, label+".NewSpeciesNovel", ctorPos, "a fresh species with Age 1, Id and IsNovel as given", "the new species is not a fresh object of Age 1 when createFirstSpecies returns")
}

// checkLastSpeciesWriters: LastSpecies is written only by the founding code - the founding function, and the
// increments of the foundings written in place in speciate (inPlace).
func (r *Run) checkLastSpeciesWriters(label string, founding *ssa.Function, inPlace map[*ssa.Store]bool) {
	p := r.P
	last := p.Field(PkgG, "Population", "LastSpecies")
	spec := p.Func(PkgG, "Population.speciate")
	pos := p.Pos(spec.Pos())
	if founding != nil {
		pos = p.Pos(founding.Pos())
	}
	var others []string
	for _, f := range p.SrcFuncs() {
		if f == founding {
			continue
		}
		if f != spec && expandedHelper(p, f) {
			continue // a declaration nothing executes (every call of it was expanded in place, where it is examined)
		}
		for _, st := range FieldStores(f, last) {
			if f == spec && inPlace[st] {
				continue
			}
			others = append(others, FuncName(f)+" at "+p.Pos(st.Pos()))
		}
	}
	r.Check(len(others) == 0, label+".only-writer", pos, "no other function writes LastSpecies", "LastSpecies is also written by "+strings.Join(others, "; ")+": an id can be issued twice")
}

// checkFoundingInPlace examines the foundings that speciate performs itself (a fresh species created inside the
// loop over the organisms): on every pass over an organism that creates a species, exactly one is created, LastSpecies
// is incremented exactly once and is the new species' id, the species is novel, appended to the population, lists the
// organism and is pointed back to by it. Returns the number of founding sites and the LastSpecies increments that belong to them.
func (r *Run) checkFoundingInPlace(label string) (int, map[*ssa.Store]bool) {
	p := r.P
	fn := p.Func(PkgG, "Population.speciate")
	sums := NewSummaries(p)
	freshAll := freshSpeciesValues(p, sums, fn)
	incs := map[*ssa.Store]bool{}
	if len(freshAll) == 0 {
		return 0, incs
	}
	r.Fn(FuncName(fn))
	tm := NewTermer(fn)
	loops := Loops(fn)
	var outer *Loop
	for _, l := range loops {
		if loopRangesOver(tm, l, "p2") && (outer == nil || len(l.Blocks) > len(outer.Blocks)) {
			outer = l
		}
	}
	if outer == nil {
		r.Undecided(label+".ctor", p.Pos(fn.Pos()), "speciate creates species itself but has no loop over the organisms it is given")
		return len(freshAll), incs
	}
	paths, complete := EnumIterPaths(fn, outer, 2000)
	if !complete {
		r.Undecided(label+".ctor", p.Pos(fn.Pos()), "too many paths through one iteration of the organism loop")
		return len(freshAll), incs
	}
	r.PathsExplored += len(paths)
	type site struct {
		n                                     int
		one, inc, id, after, novel, age, link bool
		idDesc, why, links                    string
	}
	sites := map[ssa.Value]*site{}
	last := p.Field(PkgG, "Population", "LastSpecies")
	strayInc := ""
	for _, ip := range paths {
		if pathContradictsNil(ip) {
			continue
		}
		fresh := freshOnPath(ip, freshAll)
		if ip.End != "back" {
			continue
		}
		if len(fresh) == 0 {
			// no founding on this pass: the counter stays as it is
			for _, b := range ip.Blocks[:len(ip.Blocks)-1] {
				for _, in := range b.Instrs {
					if st, ok := in.(*ssa.Store); ok && StoredField(st) == last {
						strayInc = p.Pos(st.Pos())
					}
				}
			}
			continue
		}
		for _, sp := range fresh {
			s := sites[sp]
			if s == nil {
				s = &site{one: true, inc: true, id: true, after: true, novel: true, age: true, link: true, idDesc: "?"}
				sites[sp] = s
			}
			s.n++
			s.one = s.one && len(fresh) == 1
			ff := foundingOnPath(p, sums, fn, tm, loops, outer, ip, sp)
			if ff.Why != "" {
				s.why = ff.Why
				continue
			}
			s.inc = s.inc && ff.IncOK && ff.Once
			s.id = s.id && ff.IdOK
			s.after = s.after && ff.After
			s.idDesc = ff.IdDesc
			s.novel = s.novel && ff.Novel
			s.age = s.age && ff.Age
			s.link = s.link && ff.Appended && ff.Added && ff.Back
			s.links = fmt.Sprintf("new species appended=%v, lists the organism=%v, organism points back=%v", ff.Appended, ff.Added, ff.Back)
			if ff.IncOK && len(fresh) == 1 {
				incs[ff.Inc] = true
			}
		}
	}
	n := 0
	for _, sp := range freshAll {
		s := sites[sp]
		spPos := p.Pos(sp.Pos())
		if s == nil {
			// created on no pass that returns to the loop over the organisms: not part of the speciation of an organism
			r.Bad(label+".ctor", spPos, "speciate creates a species outside a completed pass over an organism")
			continue
		}
		n++
		r.Check(s.one, label+".ctor", spPos, "one species construction per founding", "a pass over an organism creates more than one new species")
		r.Check(s.inc && strayInc == "", label+".id-increment", spPos, "LastSpecies is incremented (once, on every founding pass and on no other)", "a pass over an organism that founds a species does not increment LastSpecies exactly once, or a pass that founds none changes it ("+strayInc+"): species ids are reused")
		if s.why != "" {
			r.Undecided(label+".NewSpeciesNovel", spPos, "state of the new species: "+s.why)
			continue
		}
		r.Check(s.id, label+".id", spPos, "the id is LastSpecies after the increment", "the new species' id is "+s.idDesc+" (increment before use: "+fmt.Sprint(s.after)+")")
		r.Check(s.novel, label+".novel", spPos, "created novel", "the new species is not created novel: it is aged in the turnover that founded it")
		r.Check(s.link, label+".links", spPos, "appended to the population, lists the organism, organism points back", s.links)
		ctorPos := spPos
		if c, ok := sp.(*ssa.Call); ok && c.Call.StaticCallee() != nil {
			ctorPos = p.Pos(c.Call.StaticCallee().Pos())
		}
		r.Check(s.age, label+".NewSpeciesNovel", ctorPos, "a fresh species with Age 1, Id and IsNovel as given", "the new species is not a fresh object of Age 1 when the pass over the organism ends")
	}
	return n, incs
}
