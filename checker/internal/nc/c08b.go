package nc

import (
	"fmt"
	"go/token"
	"go/types"
	"strings"

	"golang.org/x/tools/go/ssa"
)

// Fourth-round obligations of C08.
//
// C08.6  "nearest" is only as right as the distance: the C07 obligations that say that the value
//        Genome.compatibility returns - for either method - is the NEAT distance are evaluated as part of
//        C08 as well (the rule code is C07's; nothing is duplicated here).
// C08.7  the threshold, method and coefficients speciation compares with are those of the options object the
//        population was built with / the caller's context carries.

// c08SharedC07Rules: the C07 rules whose obligations C08 relies on (C07.1, the dispatch, is C08.5 already).
var c08SharedC07Rules = []string{"C07.2", "C07.3+4.linear", "C07.3+4.fast"}

// c08DistanceIsFormula runs the C07 check on the side and takes over the obligations of the rules that decide the
// value of the distance (division never NaN, linear walk, fast walk). They appear under C08.6 with the C07 rule id
// in front of the construct.
func (r *Run) c08DistanceIsFormula() {
	p := r.P
	sub := NewRun(p, r.Property, r.Tier)
	sub.Notes = nil
	sub.Guarded(func() { C07(p, sub) })
	shared := func(rule string) bool {
		if rule == "setup" {
			return true // an anchor of C07 does not resolve: the distance functions are not where the rules look
		}
		for _, s := range c08SharedC07Rules {
			if rule == s {
				return true
			}
		}
		return false
	}
	count := map[string]int{}
	for _, o := range sub.Obs {
		if !shared(o.Rule) {
			continue
		}
		count[o.Rule]++
		r.add(o.Status, o.Rule+":"+o.Construct, o.Pos, o.Detail, o.Path)
	}
	for f := range sub.FuncsAnalysed {
		r.FuncsAnalysed[f] = true
	}
	r.PathsExplored += sub.PathsExplored
	r.Floor("obligations of the linear walk (C07.3+4.linear)", count["C07.3+4.linear"], 4)
	r.Floor("obligations of the fast walk (C07.3+4.fast)", count["C07.3+4.fast"], 6)
}

// ---------------------------------------------------------------------------
// C08.7: which Options object speciation reads.

// c08Opts bundles what the options-identity rule needs.
type c08Opts struct {
	p       *Prog
	optsT   *types.Named
	newCtx  *ssa.Function // neat.NewContext
	fromCtx *ssa.Function // neat.FromContext
	neatCtx *ssa.Function // (*neat.Options).NeatContext
	key     *ssa.Global   // the context key FromContext looks the options up with
}

func (c *c08Opts) isOptsPtr(t types.Type) bool {
	pt, ok := t.Underlying().(*types.Pointer)
	return ok && types.Identical(pt.Elem(), c.optsT)
}

// keyGlobal: v is the value of a package-level variable (possibly boxed into an interface): that variable.
func keyGlobal(v ssa.Value) *ssa.Global {
	v = stripPtr(v)
	if u, ok := v.(*ssa.UnOp); ok && u.Op == token.MUL {
		if g, isG := u.X.(*ssa.Global); isG {
			return g
		}
	}
	return nil
}

// lookupKey: the key of the one `ctx.Value(key)` lookup FromContext performs on its parameter.
func (c *c08Opts) lookupKey() *ssa.Global {
	var key *ssa.Global
	n := 0
	Instrs(c.fromCtx, func(_ *ssa.BasicBlock, _ int, in ssa.Instruction) {
		call, ok := in.(*ssa.Call)
		if !ok || !call.Call.IsInvoke() || call.Call.Method.Name() != "Value" || len(call.Call.Args) != 1 {
			return
		}
		n++
		key = keyGlobal(call.Call.Args[0])
	})
	if n != 1 {
		return nil
	}
	return key
}

// ctxDerivers: functions of package context that return a context answering Value(k) like their first argument.
var ctxDerivers = map[string]bool{
	"context.WithCancel": true, "context.WithCancelCause": true, "context.WithDeadline": true, "context.WithDeadlineCause": true,
	"context.WithTimeout": true, "context.WithTimeoutCause": true, "context.WithoutCancel": true,
}

// carried: the *Options value a lookup with the options key finds in context value v - or, when v is (derived from) a
// context parameter of the function, that parameter: then the options are whatever the caller's context carries.
// nil: not determined (why says what was met).
func (c *c08Opts) carried(v ssa.Value, depth int) (ssa.Value, string) {
	if depth > 12 {
		return nil, "too deep"
	}
	switch x := v.(type) {
	case *ssa.Parameter:
		return x, ""
	case *ssa.ChangeInterface:
		return c.carried(x.X, depth+1)
	case *ssa.ChangeType:
		return c.carried(x.X, depth+1)
	case *ssa.UnOp:
		// a variable that function literals capture and nobody reassigns (read by the declaring function or by a literal):
		// the one value it holds - for a captured parameter, that parameter of the enclosing function
		if w, ok := c08CapturedValue(x); ok {
			return c.carried(w, depth+1)
		}
	case *ssa.Extract:
		if call, ok := x.Tuple.(*ssa.Call); ok && x.Index == 0 {
			if n, _ := calleeName(&call.Call); ctxDerivers[n] && len(call.Call.Args) > 0 {
				return c.carried(call.Call.Args[0], depth+1)
			}
		}
	case *ssa.Phi:
		var root ssa.Value
		for _, e := range x.Edges {
			if e == ssa.Value(x) {
				continue
			}
			rv, why := c.carried(e, depth+1)
			if rv == nil {
				return nil, why
			}
			if root != nil && root != rv {
				return nil, "different options on different paths"
			}
			root = rv
		}
		if root != nil {
			return root, ""
		}
	case *ssa.Call:
		callee := x.Call.StaticCallee()
		switch {
		case callee != nil && callee == c.newCtx && len(x.Call.Args) == 2:
			return c.optsRoot(x.Call.Args[1], depth+1)
		case callee != nil && callee == c.neatCtx && len(x.Call.Args) == 1:
			return c.optsRoot(x.Call.Args[0], depth+1)
		}
		n, _ := calleeName(&x.Call)
		switch {
		case n == "context.WithValue" && len(x.Call.Args) == 3:
			if k := keyGlobal(x.Call.Args[1]); k != nil && k == c.key {
				val := stripPtr(x.Call.Args[2])
				if !c.isOptsPtr(val.Type()) {
					return nil, "the options key is bound to a value that is not *Options"
				}
				return c.optsRoot(val, depth+1)
			} else if k != nil || !types.Identical(stripPtr(x.Call.Args[1]).Type(), c.key.Type().(*types.Pointer).Elem()) {
				// another key (another variable, or a key of another type): lookups with the options key see the parent
				return c.carried(x.Call.Args[0], depth+1)
			}
			return nil, "context.WithValue with a key that cannot be told from the options key"
		case ctxDerivers[n] && len(x.Call.Args) > 0:
			return c.carried(x.Call.Args[0], depth+1)
		}
	}
	return nil, "a context of unknown content: " + NewTermer(v.Parent()).Of(v).String()
}

// optsRoot: where the *Options value v comes from: a parameter of the function (an options parameter, or the context
// parameter it was looked up in), else the value itself (a load from memory, an allocation, ...).
func (c *c08Opts) optsRoot(v ssa.Value, depth int) (ssa.Value, string) {
	if depth > 12 {
		return nil, "too deep"
	}
	switch x := v.(type) {
	case *ssa.ChangeType:
		return c.optsRoot(x.X, depth+1)
	case *ssa.UnOp:
		// a captured variable that holds one value (see carried)
		if w, ok := c08CapturedValue(x); ok {
			return c.optsRoot(w, depth+1)
		}
	case *ssa.Extract:
		if x.Index != 0 {
			break
		}
		switch t := x.Tuple.(type) {
		case *ssa.Call:
			if t.Call.StaticCallee() == c.fromCtx && len(t.Call.Args) == 1 {
				return c.carried(t.Call.Args[0], depth+1)
			}
		case *ssa.TypeAssert:
			return c.optsRoot(t, depth+1)
		}
	case *ssa.TypeAssert:
		// ctx.Value(optionsKey).(*Options) written in place
		if call, ok := x.X.(*ssa.Call); ok && call.Call.IsInvoke() && call.Call.Method.Name() == "Value" && len(call.Call.Args) == 1 && c.isOptsPtr(x.AssertedType) {
			if k := keyGlobal(call.Call.Args[0]); k != nil && k == c.key {
				return c.carried(call.Call.Value, depth+1)
			}
		}
	case *ssa.Phi:
		var root ssa.Value
		for _, e := range x.Edges {
			if e == ssa.Value(x) {
				continue
			}
			if k, isK := e.(*ssa.Const); isK && k.Value == nil {
				continue // "no options": nothing is read from it
			}
			rv, why := c.optsRoot(e, depth+1)
			if rv == nil {
				return nil, why
			}
			if root != nil && root != rv {
				return nil, "different options on different paths"
			}
			root = rv
		}
		if root != nil {
			return root, ""
		}
	}
	return v, ""
}

// c08Short: "Type.method" or "function".
func c08Short(fn *ssa.Function) string {
	if fn.Signature.Recv() != nil {
		if n, ok := deref(fn.Signature.Recv().Type()).(*types.Named); ok {
			return n.Obj().Name() + "." + fn.Name()
		}
	}
	return fn.Name()
}

func c08Describe(fn *ssa.Function, v ssa.Value) string {
	if v == nil {
		return "?"
	}
	if prm, ok := v.(*ssa.Parameter); ok {
		if prm.Parent() != nil {
			fn = prm.Parent() // for a call made by a function literal: the enclosing function that declares the parameter
		}
		return "parameter " + prm.Name() + " of " + FuncName(fn)
	}
	return NewTermer(fn).Of(v).String()
}

// c08OptionsIdentity implements C08.7.
func (r *Run) c08OptionsIdentity() {
	p := r.P
	c := &c08Opts{p: p, optsT: p.Named(PkgT, "Options"), newCtx: p.Func(PkgT, "NewContext"), fromCtx: p.Func(PkgT, "FromContext"), neatCtx: p.Func(PkgT, "Options.NeatContext")}
	spec := p.Func(PkgG, "Population.speciate")
	compat := p.Func(PkgG, "Genome.compatibility")
	r.Fn(FuncName(c.newCtx), FuncName(c.fromCtx), FuncName(c.neatCtx))
	c.key = c.lookupKey()
	if c.key == nil {
		r.Undecided("context.key", p.Pos(c.fromCtx.Pos()), "FromContext does not look the options up with one package-level key")
		return
	}
	isParamOf := func(fn *ssa.Function, v ssa.Value) bool {
		prm, ok := v.(*ssa.Parameter)
		return ok && prm.Parent() == fn
	}

	// (a) FromContext answers with what its context carries under the key; NewContext binds its options argument under that key;
	// the key is never reassigned
	{
		okFrom, n := true, 0
		for _, b := range c.fromCtx.Blocks {
			ret, ok := b.Instrs[len(b.Instrs)-1].(*ssa.Return)
			if !ok || len(ret.Results) == 0 {
				continue
			}
			n++
			root, _ := c.optsRoot(ret.Results[0], 0)
			okFrom = okFrom && root != nil && root == ssa.Value(c.fromCtx.Params[0])
		}
		r.Check(okFrom && n > 0, "context.FromContext", p.Pos(c.fromCtx.Pos()), "FromContext returns the *Options its context argument carries under the options key",
			"FromContext does not return (on every path) the value its context argument carries under the options key: speciate compares with another Options object than the one handed in")
		okNew, n2 := true, 0
		for _, b := range c.newCtx.Blocks {
			ret, ok := b.Instrs[len(b.Instrs)-1].(*ssa.Return)
			if !ok || len(ret.Results) == 0 {
				continue
			}
			n2++
			root, _ := c.carried(ret.Results[0], 0)
			okNew = okNew && root != nil && len(c.newCtx.Params) == 2 && root == ssa.Value(c.newCtx.Params[1])
		}
		r.Check(okNew && n2 > 0, "context.NewContext", p.Pos(c.newCtx.Pos()), "NewContext binds its options argument under the key FromContext reads",
			"NewContext does not return a context in which the options key is bound to its options argument")
		var keyWrites []string
		for _, f := range p.SrcFuncs() {
			if f.Name() == "init" && f.Synthetic != "" {
				continue
			}
			Instrs(f, func(_ *ssa.BasicBlock, _ int, in ssa.Instruction) {
				if st, ok := in.(*ssa.Store); ok && st.Addr == ssa.Value(c.key) {
					keyWrites = append(keyWrites, FuncName(f)+" at "+p.Pos(st.Pos()))
				}
			})
		}
		r.Check(len(keyWrites) == 0, "context.key", p.Pos(c.key.Pos()), "the options key is never reassigned", "the options key is reassigned by "+strings.Join(keyWrites, "; ")+": a context built before is searched with another key afterwards")
	}

	// (b) NeatContext: whatever path is taken, the context returned binds the options key to the receiver itself - a value
	// that is computed from the receiver alone, so no state (a memo field, a cache) that a value copy of the Options would
	// inherit or that another Options object left behind can decide which options a population is speciated with
	{
		okWrap, n, what := true, 0, ""
		for _, b := range c.neatCtx.Blocks {
			if b == c.neatCtx.Recover {
				continue
			}
			ret, ok := b.Instrs[len(b.Instrs)-1].(*ssa.Return)
			if !ok || len(ret.Results) == 0 {
				continue
			}
			n++
			root, why := c.carried(ret.Results[0], 0)
			if root == nil || root != ssa.Value(c.neatCtx.Params[0]) {
				okWrap = false
				what = why
				if root != nil {
					what = "it carries " + c08Describe(c.neatCtx, root)
				}
			}
		}
		r.Check(okWrap && n > 0, "NeatContext.wraps-receiver", p.Pos(c.neatCtx.Pos()), "the context returned binds the options key to the receiver on every path",
			"Options.NeatContext does not return a context made for its receiver ("+what+"): options that are a value copy of others, or that are asked after others, hand speciate the OTHER object's threshold, method and coefficients")
		// ... and producing it changes nothing speciation reads and leaves nothing behind: no store to a field of an Options
		// object or to a package-level variable in NeatContext / NewContext / FromContext
		var writes []string
		for _, f := range []*ssa.Function{c.neatCtx, c.newCtx, c.fromCtx} {
			for _, e := range Writes(f) {
				switch {
				case e.Kind == "global":
					writes = append(writes, FuncName(f)+" writes "+e.Addr.Name()+" at "+p.Pos(e.Instr.Pos()))
				case e.Kind == "field" && e.Owner != nil && e.Owner.Obj() == c.optsT.Obj():
					if _, fresh := e.Addr.(*ssa.FieldAddr).X.(*ssa.Alloc); !fresh {
						writes = append(writes, FuncName(f)+" writes Options."+e.Field.Name()+" at "+p.Pos(e.Instr.Pos()))
					}
				case e.Kind == "mapupdate":
					writes = append(writes, FuncName(f)+" updates a map at "+p.Pos(e.Instr.Pos()))
				}
			}
		}
		r.Check(len(writes) == 0, "NeatContext.writes-nothing", p.Pos(c.neatCtx.Pos()), "NeatContext, NewContext and FromContext store to no Options field, package-level variable or map",
			"asking for the options' context leaves state behind ("+strings.Join(writes, "; ")+"): a later request - on these options after a change, or on a value copy of them - can be answered from it")
	}

	// (c) speciate: the threshold it compares with and the options it measures the distance with belong to one Options object:
	// the one found in its context argument (or handed in as a parameter)
	{
		thrF := p.Field(PkgT, "Options", "CompatThreshold")
		var root ssa.Value
		okAll, n, bad := true, 0, ""
		see := func(v ssa.Value, what string, pos token.Pos) {
			n++
			rv, why := c.optsRoot(v, 0)
			switch {
			case rv == nil:
				okAll, bad = false, what+" at "+p.Pos(pos)+": "+why
			case !isParamOf(spec, rv):
				okAll, bad = false, what+" at "+p.Pos(pos)+" is read from "+c08Describe(spec, rv)
			case root != nil && root != rv:
				okAll, bad = false, what+" at "+p.Pos(pos)+" comes from "+c08Describe(spec, rv)+", other reads from "+c08Describe(spec, root)
			default:
				root = rv
			}
		}
		nThr := 0
		Instrs(spec, func(_ *ssa.BasicBlock, _ int, in ssa.Instruction) {
			switch x := in.(type) {
			case *ssa.FieldAddr:
				if fieldOf(x.X.Type(), x.Field) == thrF {
					nThr++
					see(x.X, "the threshold", x.Pos())
				}
			case *ssa.Field:
				if fieldOf(x.X.Type(), x.Field) == thrF {
					okAll, bad = false, "the threshold is read from a copy of the options at "+p.Pos(x.Pos())
				}
			case ssa.CallInstruction:
				if x.Common().StaticCallee() == compat && len(x.Common().Args) == 3 {
					see(x.Common().Args[2], "the options of the distance", x.Pos())
				}
			}
		})
		r.Check(okAll && nThr > 0 && n > nThr, "speciate.options", p.Pos(spec.Pos()), "threshold and distance options are those carried by speciate's context argument",
			"speciate does not take threshold and distance options from the one Options object its caller handed in: "+bad)
		r.Floor("reads of the threshold / distance options in speciate", n, 2)
	}

	// (d) every caller of speciate - and, through unexported functions, up to the public entry points - hands on the options
	// (or context) it was given itself
	{
		type key struct {
			fn  *ssa.Function
			idx int
		}
		seen := map[key]bool{}
		nSites := 0
		var up func(fn *ssa.Function, idx int, depth int)
		up = func(fn *ssa.Function, idx int, depth int) {
			if seen[key{fn, idx}] || depth > 6 {
				return
			}
			seen[key{fn, idx}] = true
			var sites []ssa.CallInstruction
			if depth > 0 && fn.Parent() != nil {
				// a function literal that hands on its own parameter: it is run by the calls of a function value of its
				// signature in the declared function it belongs to (`for _, phase := range phases { phase(ctx) }`); what those
				// hand in is judged like any other call site. When there is none, the literal is handed out of the function
				// and its parameter is the choice of whoever runs it
				sites = c08LiteralCallSites(fn)
			} else {
				if depth > 0 {
					if obj, ok := fn.Object().(*types.Func); !ok || obj.Exported() {
						return // a public entry point: its parameter is the caller's choice
					}
				}
				var closed bool
				sites, closed = repoCallSites(p, fn)
				if !closed && depth > 0 {
					return // also entered through an interface or as a function value: the parameter is the caller's choice
				}
			}
			for _, s := range sites {
				caller := s.Parent()
				if caller != spec && expandedHelper(p, caller) {
					continue
				}
				args := s.Common().Args
				if idx >= len(args) {
					continue
				}
				nSites++
				var root ssa.Value
				var why string
				if c.isOptsPtr(args[idx].Type()) {
					root, why = c.optsRoot(args[idx], 0)
				} else {
					root, why = c.carried(args[idx], 0)
				}
				// a call made by a function literal is a call of the declared function the literal belongs to: what the literal
				// hands on is judged against the parameters of that function (which it can only reach through captured variables
				// that hold one value, see c08CapturedValue)
				lbl := "options.passed-on:" + c08Short(c08Outermost(caller)) + ">" + c08Short(fn)
				if root == nil {
					r.Bad(lbl, p.Pos(s.Pos()), FuncName(caller)+" hands "+fn.Name()+" options that are not determined by its own arguments ("+why+"): the population is speciated with a threshold other than the one of the options it is built with")
					continue
				}
				prm, isPrm := root.(*ssa.Parameter)
				if !isPrm || !c08Encloses(prm.Parent(), caller) {
					r.Bad(lbl, p.Pos(s.Pos()), FuncName(caller)+" hands "+fn.Name()+" "+c08Describe(caller, root)+" instead of the options/context it was given: the population is speciated with a threshold other than the one of the options it is built with")
					continue
				}
				r.OK(lbl, p.Pos(s.Pos()), "hands on "+c08Describe(caller, root))
				for i, q := range prm.Parent().Params {
					if q == prm {
						up(prm.Parent(), i, depth+1)
					}
				}
			}
		}
		for i, prm := range spec.Params {
			if c.isOptsPtr(prm.Type()) || typeShort(prm.Type()) == "context.Context" {
				up(spec, i, 0)
			}
		}
		r.Floor("call sites that hand options to speciate", nSites, 4)
	}
	_ = fmt.Sprint
}
