package nc

import (
	"fmt"
	"go/token"
	"strings"

	"golang.org/x/tools/go/ssa"
)

func init() { register("C10", C10) }

// genomeUsers lists what is done with a genome value: calls receiving it, stores of it.
func genomeUsers(v ssa.Value) (calls []ssa.CallInstruction, other []ssa.Instruction) {
	for _, ref := range *v.Referrers() {
		switch x := ref.(type) {
		case ssa.CallInstruction:
			calls = append(calls, x)
		case *ssa.DebugRef:
		case *ssa.Phi:
			c2, o2 := genomeUsers(x)
			calls = append(calls, c2...)
			other = append(other, o2...)
		case *ssa.BinOp: // comparison with nil
		default:
			other = append(other, ref)
		}
	}
	return
}

// C10 — the champion of every sizeable species survives unchanged.
func C10(p *Prog, r *Run) {
	r.Explanation = "Decided on Species.reproduce and its callees: (1) the champion-clone branch is reachable whenever ExpectedOffspring > 5 (guard `ExpectedOffspring > c` with c <= 5), no clone was made yet in this call (a private flag that is set only inside the branch) and no super-champion offspring are pending; no other condition guards it; (2) the clone is pristine: it is duplicate() of the genome of Organisms[0], and on the clone path nothing but NewOrganism receives the new genome before it is appended to the babies; in the super-champion branch every mutator is control-dependent on superChampOffspring > 1 and the counter drops by exactly one per offspring, so the last one is an exact duplicate too; (3) the duplicate is exact: the C06.1-C06.3 obligations (copy-field completeness, element-wise duplication, remapping/no alias); (4) the champion is Organisms[0]: adjustFitness sorts descending before marking, removeOrganism filters in order, and nothing else on the epoch path reorders a species' organisms; (5) every baby reaches speciate and ends in exactly one species (shared with C02.4/C08.3). Not decided: that ExpectedOffspring of a species really exceeds five (C09), fitness ties."
	rep := p.Func(PkgG, "Species.reproduce")
	dup := p.Func(PkgG, "Genome.duplicate")
	newOrg := p.Func(PkgG, "NewOrganism")
	r.Fn(FuncName(rep))
	tm := NewTermer(rep)
	eo := p.Field(PkgG, "Species", "ExpectedOffspring")
	sco := p.Field(PkgG, "Organism", "superChampOffspring")

	isSco := func(t *Term) bool { return t != nil && t.Op == "field" && t.Obj == sco }
	isEO := func(t *Term) bool { return t != nil && t.Op == "field" && t.Obj == eo }
	isQuotaOrReserve := func(t *Term) bool { return isSco(t) || isEO(t) }
	// classify the ways reproduce duplicates the genome of Organisms[0]: a duplicate call seen under one case of its
	// reaching condition (GuardCases: a call behind `super || (!done && quota > 5)` - the body the two champion
	// branches were merged into - is reached in two cases, a call behind a plain if-chain in one)
	var clones, supers []c10Copy
	repLoops := Loops(rep)
	for _, c := range CallsTo(rep, dup) {
		recvT := tm.Of(c.Common().Args[0]).String()
		if recvT != "recv.Organisms[0].Genotype" {
			continue
		}
		var within map[*ssa.BasicBlock]bool
		if l := InnermostLoop(repLoops, c.Block()); l != nil {
			within = l.Blocks
		}
		cases, _ := GuardCases(c.Block(), within)
		dominating := map[Guard]bool{}
		for _, g := range guardsResolved(c.Block()) {
			dominating[Guard{g.Cond, g.True, nil}] = true
		}
		for _, k := range cases {
			cp := c10Copy{call: c, guards: k, within: within}
			for _, g := range k {
				if !dominating[Guard{g.Cond, g.True, nil}] {
					cp.own = append(cp.own, g)
				}
				// any spelling of "clones are pending": sco > 0, 0 < sco, sco >= 1, !(sco <= 0) ...
				if f, ok := c10FactOf(tm, g, isSco); ok && isSco(f.TX) {
					if lo, has, _, _ := f.constBounds(); has && lo >= 1 {
						cp.super = true
					}
				}
			}
			if cp.super {
				supers = append(supers, cp)
			} else {
				clones = append(clones, cp)
			}
		}
	}
	for i := range clones {
		clones[i].label = "clone"
		if i > 0 {
			clones[i].label = fmt.Sprintf("clone#%d", i+1)
		}
	}
	for i := range supers {
		supers[i].label = "super-champ"
		if i > 0 {
			supers[i].label = fmt.Sprintf("super-champ#%d", i+1)
		}
	}

	// c10CloneBranch judges one case in which the champion's genome is duplicated outside the super-champion turn.
	c10CloneBranch := func(cp c10Copy, ci int) {
		cloneCall := cp.call
		sfx := ""
		if ci > 0 {
			sfx = fmt.Sprintf("#%d", ci+1)
		}
		// inCase: the block executes only in this case (the call's block is shared by several cases when the
		// branches were merged)
		inCase := func(b *ssa.BasicBlock) bool { return len(cp.own) == 0 || mustBeInCase(b, cp.own, cp.within) }
		okEO, okSuper := false, false
		var flag *ssa.Phi
		var pending *pendingFlag // flag has positive polarity ("clone still to be made")
		var extra []string
		// Is ExpectedOffspring written during reproduce (directly or through a callee)? If not, a threshold test
		// evaluated before the loop has the value it would have at every iteration.
		eoWritten := len(FieldStores(rep, eo)) > 0
		{
			idxs := []int{rootGlobal, rootUnknown}
			for i := range rep.Params {
				idxs = append(idxs, i)
			}
			for _, idx := range idxs {
				ws, _ := p.writeSet(rep, idx)
				if _, w := ws["Species.ExpectedOffspring"]; w {
					eoWritten = true
				}
			}
		}
		hoisted := map[ssa.Value]bool{} // conditions that are entry values of the pending flag
		work := append([]Guard{}, cp.guards...)
		for len(work) > 0 {
			g := work[0]
			work = work[1:]
			if c, isC := g.Cond.(*ssa.Const); isC && hoisted[g.Cond] {
				// the pending flag starts as a constant
				if !IsConstBool(c, true) {
					extra = append(extra, "the pending flag starts as "+c.String())
				}
				continue
			}
			gt := tm.Of(g.Cond)
			if hoisted[g.Cond] && eoWritten && gt.Has(func(x *Term) bool { return x.Op == "field" && x.Obj == eo }) {
				extra = append(extra, gt.String()+" evaluated before the loop although ExpectedOffspring is written during reproduce")
				continue
			}
			// the branch outcome as a comparison that holds, the quota / the reserved clones on the left
			// (spelling-independent: operands swapped, negated complement, outcome of the else branch)
			f, isF := c10FactOf(tm, g, isQuotaOrReserve)
			_, yConst := constInt(f.Y)
			hasArg := func(pred func(*Term) bool) bool {
				return gt.Op == "bin" && len(gt.Args) == 2 && (pred(gt.Args[0]) || pred(gt.Args[1]))
			}
			switch {
			case isF && yConst && isEO(f.TX) && f.TX.Args[0].Op == "recv":
				// a lower bound on the quota that admits every quota above five
				lo, hasLo, _, hasHi := f.constBounds()
				if hasLo && !hasHi && lo <= 6 {
					okEO = true
				} else {
					extra = append(extra, f.String())
				}
			case isF && yConst && isSco(f.TX):
				// "no super-champion clones pending": sco <= 0, sco < 1, sco == 0, !(sco > 0) ...
				if _, _, hi, hasHi := f.constBounds(); hasHi && hi <= 0 {
					okSuper = true
				} else {
					extra = append(extra, f.String())
				}
			case isF && !yConst && isEO(f.TX) && f.Op == token.GTR:
				// loop bound count < ExpectedOffspring
			case hasArg(func(x *Term) bool { return strings.HasPrefix(x.String(), "?unknown") }) && (gt.Name == "==" || gt.Name == "!="):
				// select: default branch of the cancellation test
			case hasArg(func(x *Term) bool { return x.String() == "len(recv.Organisms)" }):
			case gt.Op == "extract" || gt.String() == "FromContext(p1)#1":
			default:
				if ph, ok := g.Cond.(*ssa.Phi); ok && !g.True && flag == nil {
					flag = ph
					continue
				}
				if ph, ok := g.Cond.(*ssa.Phi); ok && g.True && flag == nil && !hoisted[g.Cond] {
					// `pending := <init>` before the loop, `if pending { clone; pending = false }`: the guard
					// "pending is true" is equivalent to "<init> was true and no clone was made yet"
					// (analysePendingFlag); the init values are judged like conditions of the branch itself.
					pf := analysePendingFlag(ph, cloneCall.(ssa.Instruction), InnermostLoop(Loops(rep), cloneCall.Block()), inCase)
					flag, pending = ph, &pf
					if pf.Shape {
						var inits []Guard
						for _, v := range pf.Inits {
							inits = append(inits, Guard{v, true, g.At})
						}
						for _, ig := range resolveGuards(inits) {
							hoisted[ig.Cond] = true
							work = append(work, ig)
						}
					} else {
						extra = append(extra, gt.String()+"="+fmt.Sprint(g.True))
					}
					continue
				}
				if gt.Op == "bin" && (gt.Name == "!=" || gt.Name == "==") && (gt.Args[1].Op == "nil" || gt.Args[0].Op == "nil") {
					continue // error checks
				}
				extra = append(extra, gt.String()+"="+fmt.Sprint(g.True))
			}
		}
		r.Check(okEO, "clone-branch.threshold"+sfx, p.Pos(cloneCall.Pos()), "guarded by ExpectedOffspring > c with c <= 5", "the champion clone is not made for every species with more than five expected offspring")
		r.Check(okSuper, "clone-branch.after-super"+sfx, p.Pos(cloneCall.Pos()), "the super-champion branch precedes the clone branch", "the clone branch is not the alternative of the super-champion branch")
		r.Check(len(extra) == 0, "clone-branch.no-extra-condition"+sfx, p.Pos(cloneCall.Pos()), "no further condition", "the champion clone additionally depends on: "+strings.Join(extra, "; ")+" — for some species with a quota above five no unmodified copy of the champion is produced")
		// the done flag: false initially, set true only inside the branch
		if flag == nil {
			r.Bad("clone-branch.flag"+sfx, p.Pos(cloneCall.Pos()), "no once-only flag guards the clone: every offspring of a sizeable species would be a clone")
		} else if pending != nil {
			why := pending.Why
			if pending.Shape && pending.Clear == 0 {
				why = "the flag is never cleared"
			}
			r.Check(pending.Shape && pending.Clear > 0, "clone-branch.flag"+sfx, p.Pos(cloneCall.Pos()), "the once-only flag is armed before the loop and cleared only after the clone was made", "the flag that enables the champion clone can become false without a clone having been made: "+why)
		} else {
			okFlag := true
			var visit func(ph *ssa.Phi, depth int)
			seen := map[*ssa.Phi]bool{}
			visit = func(ph *ssa.Phi, depth int) {
				if seen[ph] || depth > 6 {
					return
				}
				seen[ph] = true
				for i, e := range ph.Edges {
					switch x := e.(type) {
					case *ssa.Const:
						if IsConstBool(x, true) {
							pred := ph.Block().Preds[i]
							// set after the duplicate call and only in this case (a shared body sets it under the
							// test that tells the cases apart)
							if !(cloneCall.Block() == pred || cloneCall.Block().Dominates(pred)) || !inCase(pred) {
								okFlag = false
							}
						}
					case *ssa.Phi:
						visit(x, depth+1)
					default:
						okFlag = false
					}
				}
			}
			visit(flag, 0)
			r.Check(okFlag, "clone-branch.flag"+sfx, p.Pos(cloneCall.Pos()), "the once-only flag starts false and is set only after the clone was made", "the flag that suppresses the champion clone can become true without a clone having been made")
		}
	}
	r.Rule("C10.1", "clone branch: reachable whenever ExpectedOffspring > 5, no clone made yet and no super-champion offspring pending; guarded by nothing else", func() {
		if len(clones) == 0 {
			r.Bad("clone-branch", p.Pos(rep.Pos()), "reproduce has no branch that duplicates the genome of Organisms[0] outside the super-champion case: the species champion is not preserved")
			return
		}
		// every case in which the champion is duplicated outside the super-champion turn is judged on its own
		for ci := range clones {
			c10CloneBranch(clones[ci], ci)
		}
	})

	r.Rule("C10.2", "pristine clone: duplicate of Organisms[0]'s genome, handed only to NewOrganism and appended to the babies; super-champion mutators only while more than one of its offspring is pending", func() {
		check := func(cp c10Copy) {
			c, label, allowMut := cp.call, cp.label, cp.super
			var genome ssa.Value
			for _, ref := range *c.Value().Referrers() {
				if ex, ok := ref.(*ssa.Extract); ok && ex.Index == 0 {
					genome = ex
				}
			}
			if genome == nil {
				r.Undecided(label, p.Pos(c.Pos()), "cannot find the duplicated genome")
				return
			}
			calls, other := genomeUsers(genome)
			orgs := 0
			for _, u := range calls {
				callee := u.Common().StaticCallee()
				r.CallSites++
				if !cp.onCase(u) {
					// a body shared with another case: this use is behind a test that this case fails
					continue
				}
				switch {
				case callee == newOrg:
					orgs++
				case allowMut:
					// mutators of the super-champion offspring: only while more than one is pending
					g1 := false
					for _, g := range guardsResolved(u.Block()) {
						// any spelling of "more than one clone pending": sco > 1, 1 < sco, sco >= 2, !(sco <= 1) ...
						if f, ok := c10FactOf(tm, g, isSco); ok && isSco(f.TX) {
							if lo, has, _, _ := f.constBounds(); has && lo >= 2 {
								g1 = true
							}
						}
					}
					n, _ := calleeName(u.Common())
					r.Check(g1, label+".mutator:"+n, p.Pos(u.Pos()), n+" only under superChampOffspring > 1", "the super-champion's offspring is mutated by "+n+" also when it is the last one: no exact copy of the population champion is kept")
				default:
					n, _ := calleeName(u.Common())
					r.Bad(label+".touched:"+n, p.Pos(u.Pos()), "the champion's clone is passed to "+n+" before it becomes an organism: the copy is not unmodified")
				}
			}
			for _, o := range other {
				if fa, ok := o.(*ssa.FieldAddr); ok {
					for _, r2 := range *fa.Referrers() {
						if _, isSt := r2.(*ssa.Store); isSt && cp.onCase(r2) {
							r.Bad(label+".field-store", p.Pos(r2.Pos()), "a field of the champion's clone is written directly")
						}
					}
				}
			}
			r.Check(orgs == 1, label+".organism", p.Pos(c.Pos()), "wrapped by exactly one NewOrganism", fmt.Sprintf("the cloned genome is wrapped by %d NewOrganism calls", orgs))
			// the organism reaches the append to babies: no path from NewOrganism success to the loop's back edge avoiding the append
			a := callArgTerms(tm, c.Common())
			r.Check(a[0].String() == "recv.Organisms[0].Genotype", label+".source", p.Pos(c.Pos()), "clone of Organisms[0]", "the clone is made from "+a[0].String())
		}
		for _, cp := range clones {
			check(cp)
		}
		for _, cp := range supers {
			check(cp)
		}
		// every iteration appends exactly one baby (the clone included): see C02.2; here: the append follows the branch
		for _, cp := range supers {
			superCall := cp.call
			sfx := strings.TrimPrefix(cp.label, "super-champ")
			// the counter drops by exactly one per super-champion offspring
			n := 0
			for _, st := range FieldStores(rep, sco) {
				v := tm.Of(st.Val)
				if v.Op == "bin" && v.Name == "-" && v.Args[1].String() == "1" && v.Args[0].Op == "field" && v.Args[0].Obj == sco {
					n++
					dom := superCall.Block() == st.Block() || superCall.Block().Dominates(st.Block())
					r.Check(dom, "super-champ.decrement.place"+sfx, p.Pos(st.Pos()), "decremented in the super-champion branch", "superChampOffspring is decremented outside the super-champion branch")
					// on every non-error path of the branch
					// (searched under the outcomes that make this the super-champion turn when the body is shared)
					path := FindPath(p, PathQuery{Fn: rep, StartAfter: superCall.(ssa.Instruction), Assume: cp.own,
						Target: func(in ssa.Instruction) bool {
							if c, ok := in.(ssa.CallInstruction); ok {
								if b, ok := c.Common().Value.(*ssa.Builtin); ok && b.Name() == "append" {
									return strings.Contains(tm.Of(c.Common().Args[1]).String(), "Organism")
								}
							}
							return false
						},
						Avoid: func(in ssa.Instruction) bool { return in == ssa.Instruction(st) }, Explored: &r.PathsExplored})
					r.Check(path == nil, "super-champ.decrement.always"+sfx, p.Pos(st.Pos()), "every super-champion offspring consumes one unit", "a super-champion offspring can be produced without decrementing the counter: the exact copy (last unit) is never reached", path...)
				} else {
					r.Bad("super-champ.counter-write"+sfx, p.Pos(st.Pos()), "superChampOffspring is set to "+v.String()+" during reproduction")
				}
			}
			r.Check(n == 1, "super-champ.decrement"+sfx, p.Pos(rep.Pos()), "exactly one decrement site", fmt.Sprintf("%d decrement sites of superChampOffspring", n))
		}
	})

	r.Rule("C10.3", "the duplicate is exact (C06.1–C06.3)", func() {
		// the obligations of C06 on the copy path are part of this property
		sub := NewRun(p, "C06", r.Tier)
		C06(p, sub)
		for _, o := range sub.Obs {
			if !strings.HasPrefix(o.Rule, "C06.1") && !strings.HasPrefix(o.Rule, "C06.2") && !strings.HasPrefix(o.Rule, "C06.3") {
				continue
			}
			no := r.add(o.Status, o.Rule+":"+o.Construct, o.Pos, o.Detail, o.Path)
			_ = no
		}
		r.FieldsChecked += sub.FieldsChecked
	})

	r.Rule("C10.4", "fittest first: adjustFitness sorts the organisms descending before marking; only adjustFitness reorders a species on the epoch path; removeOrganism keeps the order", func() {
		adj := p.Func(PkgG, "Species.adjustFitness")
		r.Fn(FuncName(adj))
		ta := NewTermer(adj)
		sorts := CallsNamed(adj, "sort.Sort")
		okS := false
		for _, c := range sorts {
			a := ta.Of(c.Common().Args[0])
			if a.Op == "call" && a.Name == "sort.Reverse" && strings.Contains(a.String(), "recv.Organisms") {
				// dominates the champion mark and the elimination marks
				okS = true
				for _, st := range FieldStores(adj, p.Field(PkgG, "Organism", "toEliminate")) {
					if !(c.Block() == st.Block() && instrIndex(c) < instrIndex(st) || c.Block() != st.Block() && c.Block().Dominates(st.Block())) {
						okS = false
					}
				}
			}
		}
		r.Check(okS, "adjustFitness.sort", p.Pos(adj.Pos()), "sort.Sort(sort.Reverse(Organisms)) precedes the marking", "adjustFitness does not sort the organisms by descending fitness before marking: Organisms[0] is not the fittest")
		// the value sorted on must keep the order of distinct positive fitness values: every update of an organism's
		// fitness before the sort is fitness*c, fitness/n, or a constant written only where the fitness is not positive
		fitF := p.Field(PkgG, "Organism", "Fitness")
		for _, st := range FieldStores(adj, fitF) {
			vt := ta.Of(st.Val)
			self := ta.Of(st.Addr).String()
			okM, why := false, ""
			switch {
			case vt.Op == "bin" && (vt.Name == "*" || vt.Name == "/") && vt.Args[0].String() == self,
				vt.Op == "bin" && vt.Name == "*" && vt.Args[1].String() == self:
				// a positive constant, an option value or the species size (either operand order of the product)
				o := vt.Args[1]
				if vt.Args[0].String() != self {
					o = vt.Args[0]
				}
				if o.Op == "const" {
					okM = !strings.HasPrefix(o.Name, "-") && o.Name != "0"
				} else {
					okM = true
				}
				why = "scaled by " + o.String()
			case vt.Op == "const":
				// allowed only under fitness < c with c <= 0
				for _, g := range guardsResolved(st.Block()) {
					// fitness < c / fitness <= c in any spelling (c > fitness, ...), the fitness on the left
					f, isF := c10FactOf(ta, g, func(t *Term) bool { return t.String() == self })
					if isF && (f.Op == token.LSS || f.Op == token.LEQ) && f.TX.String() == self && f.TY.Op == "const" {
						c := f.TY.Name
						if c == "0" || strings.HasPrefix(c, "-") {
							okM = true
						}
						why = "replaced by " + vt.Name + " when fitness " + f.Op.String() + " " + c
					}
				}
				if why == "" {
					why = "replaced by the constant " + vt.Name
				}
			default:
				// the same updates made on a local and stored once (`f := org.Fitness; if .. {f *= 0.01}; if f < 0
				// {f = 0.0001}; org.Fitness = f / n`, or the arithmetic moved into a helper): the stored value is
				// judged as a composition of such steps, or, failing that, per path of one iteration
				okM, why = c10ScaledFitness(ta, st.Val, self)
				if !okM {
					if okP, w := c10OrderPreservingByPaths(adj, ta, st, self); okP {
						okM, why = true, w
					}
				}
			}
			r.Check(okM, "adjustFitness.order-preserving", p.Pos(st.Pos()), "fitness update keeps the order of distinct positive values ("+why+")",
				"before the species is sorted an organism's fitness is "+why+": distinct positive fitness values can become equal (or change order), so Organisms[0] - the organism that is cloned - need not be the fittest")
		}
		// Less: by Fitness ascending
		less := p.Func(PkgG, "Organisms.Less")
		tl := NewTermer(less)
		okL := false
		for _, b := range less.Blocks {
			if ret, ok := b.Instrs[len(b.Instrs)-1].(*ssa.Return); ok && tl.Of(ret.Results[0]).String() == "true" {
				for _, g := range guardsResolved(b) {
					// f[i].Fitness < f[j].Fitness, also spelled f[j].Fitness > f[i].Fitness
					f, isF := c10FactOf(tl, g, nil)
					if isF && f.Op == token.GTR {
						f.X, f.Y, f.TX, f.TY, f.Op = f.Y, f.X, f.TY, f.TX, token.LSS
					}
					if isF && f.Op == token.LSS && f.TX.String() == "recv[*].Fitness" && f.TY.String() == "recv[*].Fitness" {
						li := f.TX.Args[0].Args[1]
						ri := f.TY.Args[0].Args[1]
						okL = isParamIdx(li, 1) && isParamIdx(ri, 2)
					}
				}
			}
		}
		r.Check(okL, "Organisms.Less", p.Pos(less.Pos()), "Less(i,j) is true when f[i].Fitness < f[j].Fitness", "Organisms.Less does not order by ascending fitness (Reverse would then not put the fittest first)")
		// who reorders Species.Organisms on the epoch path?
		roots := []*ssa.Function{p.Func(PkgG, "SequentialPopulationEpochExecutor.NextEpoch"), p.Func(PkgG, "ParallelPopulationEpochExecutor.NextEpoch")}
		re := p.Reachable(roots, nil)
		for _, fn := range re.RepoFuncs() {
			tf := NewTermer(fn)
			for _, name := range []string{"sort.Sort", "sort.Stable", "sort.Slice"} {
				for _, c := range CallsNamed(fn, name) {
					a := tf.Of(c.Common().Args[0]).String()
					if strings.Contains(a, ".Organisms") && !strings.Contains(a, "make(") {
						r.Check(fn == adj, "reorders:"+fn.Name(), p.Pos(c.Pos()), "the only sort of a species' organisms on the epoch path", FuncName(fn)+" re-sorts a species' organisms on the epoch path ("+a+"): Organisms[0] may no longer be the champion marked by adjustFitness")
					}
				}
			}
		}
		// who replaces a species' organism list on the epoch path? Only addOrganism (append) and
		// removeOrganism (ordered filter, below); a list rebuilt elsewhere need not be fittest-first.
		orgsF := p.Field(PkgG, "Species", "Organisms")
		nWr := 0
		for _, fn := range re.RepoFuncs() {
			for _, st := range FieldStores(fn, orgsF) {
				nWr++
				okW := fn.Name() == "addOrganism" || fn.Name() == "removeOrganism"
				if !okW {
					// a constructor filling its own fresh species
					if base, _, isApp := appendCall(st.Val); isApp {
						if t := NewTermer(fn).Of(base); t.Op == "field" && t.Obj == orgsF {
							okW = true
						}
					}
					if fa, ok := st.Addr.(*ssa.FieldAddr); ok {
						if _, fresh := fa.X.(*ssa.Alloc); fresh {
							okW = true
						}
					}
				}
				r.Check(okW, "Organisms.writers:"+fn.Name(), p.Pos(st.Pos()), "a species' list is only appended to or filtered in order", FuncName(fn)+" replaces a species' organism list on the epoch path; after adjustFitness sorted it fittest-first only order-keeping updates (addOrganism's append, removeOrganism's ordered filter) keep Organisms[0] the champion that reproduce clones")
			}
		}
		r.Floor("stores to Species.Organisms on the epoch path", nWr, 2)
		// removeOrganism filters in order
		rem := p.Func(PkgG, "Species.removeOrganism")
		tr := NewTermer(rem)
		okR := false
		for _, c := range CallsNamed(rem, "append") {
			_, elems, ok := appendCall(c.Value())
			if ok && len(elems) == 1 && tr.Of(elems[0]).String() == "recv.Organisms[*]" {
				okR = true
			}
		}
		// the same filter written with the standard library: the list stored is slices.DeleteFunc / slices.Delete
		// (documented to keep the remaining elements in their order) of the species' list or of a plain copy of it
		for _, st := range FieldStores(rem, orgsF) {
			if c10OrderKeepingDelete(tr, st.Val, "recv.Organisms") {
				okR = true
			}
		}
		r.Check(okR, "removeOrganism.order", p.Pos(rem.Pos()), "the remaining organisms are appended in their original order", "removeOrganism does not keep the remaining organisms in order")
	})

	r.Rule("C10.5", "the baby enters the population: all babies of all species are speciated, each into exactly one species", func() {
		seq := p.Func(PkgG, "SequentialPopulationEpochExecutor.reproduce")
		ts := NewTermer(seq)
		sp := p.Func(PkgG, "Population.speciate")
		ok := false
		for _, c := range CallsTo(seq, sp) {
			a := ts.Of(c.Common().Args[2])
			// babies accumulated by append(babies, repBabies...)
			if a.Has(func(x *Term) bool { return x.Op == "call" && x.Name == "append" }) && strings.Contains(a.String(), "Species.reproduce(") {
				ok = true
			}
		}
		r.Check(ok, "sequential.babies-speciated", p.Pos(seq.Pos()), "speciate receives the concatenation of every species' babies", "the sequential executor does not pass all babies to speciate")
		r.checkSpeciatePartition("speciate")
	})
	r.Rule("C10.6", "the champion's genome is intact when it is cloned and its copy stays intact: on the epoch path nothing writes genome content (fields of genes, links, nodes, traits, modules; the genome's lists and their elements) of an object that existed before the call - offspring are built and mutated as fresh copies only", func() {
		// transitive write sets (wthrough.go): a fact (param, Type.field) means the function may store to that
		// field of an object reachable from that parameter; objects created inside the call are not listed.
		type tgt struct {
			name string
			fn   *ssa.Function
		}
		tgts := []tgt{
			{"Species.reproduce", rep},
			{"SequentialPopulationEpochExecutor.NextEpoch", p.Func(PkgG, "SequentialPopulationEpochExecutor.NextEpoch")},
			{"ParallelPopulationEpochExecutor.NextEpoch", p.Func(PkgG, "ParallelPopulationEpochExecutor.NextEpoch")},
		}
		nFacts := 0
		var cw *closureWT
		for _, t := range tgts {
			r.Fn(FuncName(t.fn))
			pos := p.Pos(t.fn.Pos())
			// Writes that go through variables captured by function literals (a local table of closures over the
			// offspring's genome) are decided by what the creating function bound; writes made by calling a method
			// value are followed through the compiler's wrapper (robust_c10.go closureAwareWT).
			if cw == nil {
				_, base := p.writeSet(t.fn, 0)
				cw = closureAwareWT(p, base)
			}
			bad, first, n := c10WrittenContent(p, t.fn, cw)
			nFacts += n
			if len(bad) > 0 {
				pos = p.Pos(first)
			}
			r.Check(len(bad) == 0, "champion-intact:"+t.name, pos, "no genome content of a pre-existing organism is written",
				t.name+" writes genome content of an object that existed before the call: "+strings.Join(bad, "; ")+" - when that object belongs to a species' champion (for example the champion picked as the second parent of an interspecies mating before its own species reproduces), the genome that is cloned afterwards, or the clone itself, is no longer the champion's genome of the previous generation")
		}
		// the write sets are not empty (the analysis saw the epoch path at all)
		r.Floor("write-through facts of the epoch path", nFacts, 10)
	})
	r.Rule("C10.7", "the clones reserved for a champion fit into its species' quota: wherever superChampOffspring of a species' Organisms[0] is assigned (delta coding, stolen babies), the same path leaves that species an ExpectedOffspring that is at least as large - reproduce makes the exact copy only as the LAST reserved clone and only while count < ExpectedOffspring, so a larger reservation loses the champion", func() {
		r.c10ReserveWithinQuota(rep)
	})
	r.Rule("C10.8", "the offspring loop gives the champion its turn and delivers the copy: it runs ExpectedOffspring times (count from 0 in steps of one, quota not written meanwhile), the organism wrapping the copy is appended to the babies on every continuing path, the list only grows and is what reproduce returns", func() {
		r.c10OffspringLoop(rep, tm, newOrg, append(append([]c10Copy{}, clones...), supers...))
	})
	_ = token.ADD
}
