package nc

import (
	"bytes"
	"fmt"
	"go/ast"
	"go/scanner"
	"go/token"
	"go/types"
	"os"
	"sort"
	"strings"

	"golang.org/x/tools/go/packages"
	"golang.org/x/tools/go/types/typeutil"
)

// Source normalisation: helpers that are not part of the pinned tree are inlined.
//
// The rules are written against the functions of the pinned repository. A
// refactoring that extracts a loop, a lookup or a block into a NEW function
// leaves the behaviour alone but moves the instructions a rule looks for into
// another function. Before the SSA form is built, every static call of a
// repository function that is not in the pinned function list
// (pinned_funcs.go) is therefore replaced - in an in-memory overlay, /repo is
// never touched - by the callee's body:
//
//	var r0 T; a0 := arg0; L: for { p0 := a0; <body, `return e` -> `r0 = e; break L`>; break L }
//
// spliced on ONE line in front of the statement that contains the call, so
// every other source position stays what it is in /repo. The transformation
// preserves evaluation order (only the lexically first call of a statement
// header is lifted, short-circuit operands are lifted under their guard) and
// is skipped whenever one of its preconditions fails (recursion, defer,
// labels, variadics, methods of generic types, names that would be captured,
// types that cannot be spelled in the caller's file; a generic function is
// inlined per call site with the type arguments of that call, genericInstance). A function literal that closes over
// variables of the caller and is passed for a parameter the helper only ever calls (an iterator with a callback:
// `n.each(func(x *T) error { acc = ...; return err })`) is expanded at the calls of that parameter in the inlined
// body, by the same rewriting, and is then no longer evaluated: the callback's body is part of the caller's loop
// again and the variables it updates are plain locals (argLitBindable). What was inlined is reported in the
// evidence. Inlining is semantics preserving, so a violation remains a
// violation on the normalised program.

type inlineSite struct {
	call   *ast.CallExpr
	callee types.Object
	// [std] normalize_std.go: the ancestors of the call inside its header expression (outermost first, the
	// call last) and, if set, the node that the result temporary replaces instead of the call itself
	path    []ast.Node
	replace ast.Node
}

type normalizer struct {
	fset    *token.FileSet
	pkgs    []*packages.Package
	pinned  map[string]bool
	decl    map[types.Object]*ast.FuncDecl
	declPkg map[types.Object]*packages.Package
	closure map[types.Object]*ast.FuncLit // single-assignment local closures (`f := func(..){..}`, only ever called)
	// dead closures: once EVERY call of such a closure has been replaced by its body nothing refers to the
	// function value any more, and the statement that declares it is removed (closureEdits). A literal that
	// stays in the text keeps capturing its free variables, which go/ssa then turns into heap cells: every
	// read of `sensor` becomes a separate load and the rules lose the identity of the value.
	closureStmt  map[types.Object]ast.Stmt // the declaring statement, if it is a plain member of a statement list
	closureCalls map[types.Object]int      // number of call sites of the closure in its function
	keepClosures bool                      // fall-back mode: never remove a literal
	src          map[string][]byte
	n            int
	busy         map[types.Object]bool
	extra        map[string]bool // pinned functions that are inlined as well while a flat view is generated
	Log          []string
	// [std] normalize_std.go: predicate literals that were expanded in place (their text is gone from the file)
	consumed map[*ast.FuncLit]bool
	// function-typed parameters of a helper being inlined whose argument is a method value `x.m` of a stable
	// receiver: calls of the parameter in the inlined body are spelled `<temp>.m(..)` (funcParamSubst)
	subst map[types.Object]string
	// normalize_tables.go: parameters of the helper being inlined that are bound to an immutable table of functions
	// at the site being expanded, and the tables found so far
	tables    map[types.Object]*funcTable
	tableMemo map[*types.Var]*funcTable
	// function-typed parameters of a helper being inlined whose argument is a function literal written at the
	// call: while the helper's body is rendered the parameter is registered in closure/decl/declPkg like a local
	// closure, so that its calls in the body are expanded into the literal's body (argLitBinding)
	argLit map[types.Object]bool
}

type textEdit struct {
	start, end int // byte offsets in the file
	text       string
	seq        int
}

func (nz *normalizer) fileBytes(name string) []byte {
	if b, ok := nz.src[name]; ok {
		return b
	}
	b, err := os.ReadFile(name)
	if err != nil {
		b = nil
	}
	nz.src[name] = b
	return b
}

func (nz *normalizer) text(n ast.Node) string {
	p, e := nz.fset.Position(n.Pos()), nz.fset.Position(n.End())
	b := nz.fileBytes(p.Filename)
	if b == nil || e.Offset > len(b) {
		return ""
	}
	return string(b[p.Offset:e.Offset])
}

func (nz *normalizer) off(p token.Pos) int { return nz.fset.Position(p).Offset }

// flatten re-emits Go source on one line (comments dropped, automatic semicolons made explicit).
func flatten(src string) (string, bool) {
	fs := token.NewFileSet()
	f := fs.AddFile("", fs.Base(), len(src))
	var s scanner.Scanner
	bad := false
	s.Init(f, []byte(src), func(token.Position, string) { bad = true }, 0)
	var out bytes.Buffer
	for {
		_, tok, lit := s.Scan()
		if tok == token.EOF {
			break
		}
		switch {
		case tok == token.SEMICOLON:
			out.WriteString("; ")
		case lit != "":
			out.WriteString(lit)
			out.WriteString(" ")
		default:
			out.WriteString(tok.String())
			out.WriteString(" ")
		}
	}
	return out.String(), !bad
}

func applyEdits(src []byte, base int, end int, edits []textEdit) string {
	sort.SliceStable(edits, func(i, j int) bool {
		if edits[i].start != edits[j].start {
			return edits[i].start < edits[j].start
		}
		return edits[i].seq < edits[j].seq
	})
	var out bytes.Buffer
	cur := base
	for _, e := range edits {
		if e.start < cur || e.end > end {
			continue // overlapping edit: dropped (the call stays a call)
		}
		out.Write(src[cur:e.start])
		out.WriteString(e.text)
		cur = e.end
	}
	out.Write(src[cur:end])
	return out.String()
}

// isNewHelper: a repository function with a body that the pinned tree does not have.
func (nz *normalizer) isNewHelper(f types.Object) bool {
	if f == nil || isNilObj(f) {
		return false
	}
	if _, isVar := f.(*types.Var); isVar {
		return nz.closure[f] != nil // a local closure is never part of the pinned interface
	}
	fn, ok := f.(*types.Func)
	if !ok || fn.Pkg() == nil || !strings.HasPrefix(fn.Pkg().Path(), Mod) {
		return false
	}
	if nz.pinned[fn.FullName()] && !nz.extra[fn.FullName()] {
		return false
	}
	d := nz.decl[f]
	return d != nil && d.Body != nil
}

func isNilObj(o types.Object) bool {
	switch x := o.(type) {
	case *types.Func:
		return x == nil
	case *types.Var:
		return x == nil
	}
	return false
}

func objName(o types.Object) string {
	if fn, ok := o.(*types.Func); ok {
		return fn.FullName()
	}
	return "closure " + o.Name()
}

// inlinable checks the callee-side preconditions.
func (nz *normalizer) inlinable(f types.Object) (ok bool, why string) {
	d := nz.decl[f]
	sig := f.Type().(*types.Signature)
	if sig.Variadic() {
		return false, "variadic"
	}
	if sig.RecvTypeParams().Len() > 0 {
		return false, "generic"
	}
	// a generic function is judged per call site (genericInstance, called by expansion)
	bad := ""
	ast.Inspect(d.Body, func(n ast.Node) bool {
		switch x := n.(type) {
		case *ast.DeferStmt:
			bad = "defer"
		case *ast.LabeledStmt:
			bad = "label"
		case *ast.BranchStmt:
			if x.Tok == token.GOTO {
				bad = "goto"
			}
		case *ast.CallExpr:
			if id, ok := x.Fun.(*ast.Ident); ok && id.Name == "recover" {
				bad = "recover"
			}
		}
		return bad == ""
	})
	if bad != "" {
		return false, bad
	}
	return true, ""
}

func (nz *normalizer) qualifier(file *ast.File, pk *packages.Package) (types.Qualifier, *bool) {
	failed := false
	byPath := map[string]string{}
	for _, im := range file.Imports {
		path := strings.Trim(im.Path.Value, `"`)
		name := ""
		if im.Name != nil {
			name = im.Name.Name
		} else if ip, ok := pk.Imports[path]; ok {
			name = ip.Name
		}
		if name != "" && name != "_" && name != "." {
			byPath[path] = name
		}
	}
	return func(p *types.Package) string {
		if p == pk.Types {
			return ""
		}
		if n, ok := byPath[p.Path()]; ok {
			return n
		}
		failed = true
		return p.Name()
	}, &failed
}

// hasCall: does e contain a call that may have effects (anything but conversions and a few builtins)?
func (nz *normalizer) hasCall(info *types.Info, e ast.Node, except *ast.CallExpr) bool {
	found := false
	ast.Inspect(e, func(n ast.Node) bool {
		if found {
			return false
		}
		switch x := n.(type) {
		case *ast.FuncLit:
			return false
		case *ast.CallExpr:
			if x == except {
				return true
			}
			if tv, ok := info.Types[x.Fun]; ok && tv.IsType() {
				return true // conversion
			}
			if id, ok := x.Fun.(*ast.Ident); ok {
				if _, isB := info.Uses[id].(*types.Builtin); isB && (id.Name == "len" || id.Name == "cap") {
					return true
				}
			}
			found = true
		case *ast.UnaryExpr:
			if x.Op == token.ARROW {
				found = true
			}
		}
		return !found
	})
	return found
}

// headerExprs lists the expressions a statement evaluates itself (not those of nested statements), in order.
func headerExprs(s ast.Stmt) (exprs []ast.Expr, ok bool) {
	switch x := s.(type) {
	case *ast.ExprStmt:
		return []ast.Expr{x.X}, true
	case *ast.AssignStmt:
		return append(append([]ast.Expr{}, x.Lhs...), x.Rhs...), true
	case *ast.ReturnStmt:
		return x.Results, true
	case *ast.IncDecStmt:
		return []ast.Expr{x.X}, true
	case *ast.SendStmt:
		return []ast.Expr{x.Chan, x.Value}, true
	case *ast.DeclStmt:
		if gd, ok := x.Decl.(*ast.GenDecl); ok && gd.Tok == token.VAR {
			for _, sp := range gd.Specs {
				if vs, ok := sp.(*ast.ValueSpec); ok {
					exprs = append(exprs, vs.Values...)
				}
			}
			return exprs, true
		}
	case *ast.IfStmt:
		if x.Init != nil {
			ie, ok := headerExprs(x.Init)
			if !ok {
				return nil, false
			}
			exprs = append(exprs, ie...)
		}
		return append(exprs, x.Cond), true
	case *ast.SwitchStmt:
		if x.Init != nil {
			ie, ok := headerExprs(x.Init)
			if !ok {
				return nil, false
			}
			exprs = append(exprs, ie...)
		}
		if x.Tag != nil {
			exprs = append(exprs, x.Tag)
		}
		return exprs, true
	case *ast.RangeStmt:
		return []ast.Expr{x.X}, true
	}
	return nil, false
}

// findSite finds, in the header of statement s, the lexically first call; if it is a call of a new
// helper it is returned together with the short-circuit guard under which it is evaluated.
//
// skip holds the calls of this header that were lifted already (their value is a temporary now, nothing of them is
// evaluated by the statement any more): the site returned is then the lexically first call AFTER them, i.e. the
// next call the statement executes. Lifting it behind the earlier ones keeps the order of the calls.
func (nz *normalizer) findSite(info *types.Info, s ast.Stmt, skip map[*ast.CallExpr]bool) (site *inlineSite, guard string, ok bool) {
	exprs, okH := headerExprs(s)
	if !okH {
		return nil, "", false
	}
	var first *ast.CallExpr
	var path []ast.Node
	var firstPath []ast.Node
	var visit func(n ast.Node) bool
	visit = func(n ast.Node) bool {
		if n == nil {
			path = path[:len(path)-1]
			return true
		}
		path = append(path, n)
		if first != nil {
			return true
		}
		switch x := n.(type) {
		case *ast.FuncLit:
			path = path[:len(path)-1]
			return false
		case *ast.CallExpr:
			if skip[x] {
				path = path[:len(path)-1]
				return false
			}
			// a new helper: its receiver and arguments are bound, in order, by the expansion itself
			if cal := nz.calleeOf(info, x); cal != nil && nz.liftable(cal) { // [std] was isNewHelper; [tables] calleeOf
				first = x
				firstPath = append([]ast.Node{}, path...)
				path = path[:len(path)-1]
				return false
			}
			// arguments and callee are evaluated before the call itself: look inside first
			for _, sub := range append([]ast.Expr{x.Fun}, x.Args...) {
				ast.Inspect(sub, visit)
				if first != nil {
					path = path[:len(path)-1]
					return false
				}
			}
			if tv, okT := info.Types[x.Fun]; okT && tv.IsType() {
				path = path[:len(path)-1]
				return false
			}
			if id, okI := x.Fun.(*ast.Ident); okI {
				if _, isB := info.Uses[id].(*types.Builtin); isB && (id.Name == "len" || id.Name == "cap" || id.Name == "append" || id.Name == "make" || id.Name == "new" || id.Name == "copy" || id.Name == "delete") {
					path = path[:len(path)-1]
					return false
				}
			}
			first = x
			firstPath = append([]ast.Node{}, path...)
			path = path[:len(path)-1]
			return false
		}
		return true
	}
	for _, e := range exprs {
		path = path[:0]
		ast.Inspect(e, visit)
		if first != nil {
			break
		}
	}
	if first == nil {
		return nil, "", false
	}
	callee := nz.calleeOf(info, first)
	if callee == nil || !nz.liftable(callee) { // [std] was isNewHelper
		return nil, "", false
	}
	// short-circuit guard along the path
	var conj []string
	for i := 0; i+1 < len(firstPath); i++ {
		be, isB := firstPath[i].(*ast.BinaryExpr)
		if !isB || (be.Op != token.LAND && be.Op != token.LOR) {
			continue
		}
		child := firstPath[i+1]
		if child == ast.Node(be.X) {
			continue
		}
		if nz.hasCall(info, be.X, nil) {
			return nil, "", false
		}
		if be.Op == token.LAND {
			conj = append(conj, "("+nz.text(be.X)+")")
		} else {
			conj = append(conj, "!("+nz.text(be.X)+")")
		}
	}
	return &inlineSite{call: first, callee: callee, path: firstPath}, strings.Join(conj, " && "), true // [std] path
}

// capturedNames: package-level names the callee's body uses that mean something else at the call site.
func (nz *normalizer) captured(callee types.Object, callerPk *packages.Package, at token.Pos) bool {
	d := nz.decl[callee]
	cpk := nz.declPkg[callee]
	bad := false
	lit := nz.closure[callee]
	ast.Inspect(d.Body, func(n ast.Node) bool {
		id, ok := n.(*ast.Ident)
		if !ok || bad {
			return !bad
		}
		obj := cpk.TypesInfo.Uses[id]
		if obj == nil {
			return true
		}
		if lit != nil && obj.Pkg() != nil && obj.Parent() != nil && obj.Parent() != obj.Pkg().Scope() {
			// a variable the closure captures from the enclosing function: at the call site the
			// name must still denote the same variable
			if obj.Pos() < lit.Pos() || obj.Pos() >= lit.End() {
				if nz.argLit[callee] {
					// the literal is an argument of a helper that is being inlined where the literal was
					// written: the variable is in scope there; it is lost only if a local name of the
					// helper (receiver, parameter, result, local in scope at the call of the parameter)
					// hides it. Package-level and predeclared names are outer to the caller's variable.
					if sc := callerPk.Types.Scope().Innermost(at); sc != nil {
						if _, o := sc.LookupParent(id.Name, at); o != nil && o != obj && o.Parent() != types.Universe && !(o.Pkg() != nil && o.Parent() == o.Pkg().Scope()) {
							bad = true
							return false
						}
					}
					return true
				}
				if sc := callerPk.Types.Scope().Innermost(at); sc != nil {
					if _, o := sc.LookupParent(id.Name, at); o != obj {
						bad = true
						return false
					}
				}
			}
			return true
		}
		pkgLevel := false
		if _, isPkgName := obj.(*types.PkgName); isPkgName {
			pkgLevel = true
		} else if obj.Pkg() != nil && obj.Parent() == obj.Pkg().Scope() {
			pkgLevel = true
		}
		if !pkgLevel {
			return true
		}
		if cpk != callerPk {
			bad = true // cross-package: the name need not be visible at all
			return false
		}
		sc := callerPk.Types.Scope().Innermost(at)
		if sc == nil {
			return true
		}
		if _, o := sc.LookupParent(id.Name, at); o != nil && o != obj {
			if _, isPN := obj.(*types.PkgName); isPN {
				if pn2, ok := o.(*types.PkgName); ok && pn2.Imported() == obj.(*types.PkgName).Imported() {
					return true
				}
			}
			bad = true
		}
		return !bad
	})
	return bad
}

// bodyText renders the callee's body for inlining: nested new helpers inlined, returns rewritten.
// label == "" keeps the returns (used for go/defer literals).
func (nz *normalizer) bodyText(callee types.Object, label string, results []string) (string, bool) {
	d := nz.decl[callee]
	pk := nz.declPkg[callee]
	if nz.busy[callee] {
		return "", false
	}
	nz.busy[callee] = true
	defer delete(nz.busy, callee)
	file := nz.fileOf(pk, d)
	edits := nz.stmtEdits(pk, file, d.Body)
	// (the literals of the callee's own closures are kept "used" or removed by stmtEdits: closureEdits)
	edits = append(edits, nz.tableRespell(pk, d.Body)...) // [tables]
	if len(nz.subst) > 0 {
		ast.Inspect(d.Body, func(n ast.Node) bool {
			if c, ok := n.(*ast.CallExpr); ok {
				if fid, ok := c.Fun.(*ast.Ident); ok {
					if rep, ok := nz.subst[pk.TypesInfo.Uses[fid]]; ok {
						edits = append(edits, textEdit{nz.off(fid.Pos()), nz.off(fid.End()), rep, 500})
					}
				}
			}
			return true
		})
	}
	if label != "" {
		named := namedResults(d)
		var lits []*ast.FuncLit
		ast.Inspect(d.Body, func(n ast.Node) bool {
			if fl, ok := n.(*ast.FuncLit); ok {
				lits = append(lits, fl)
			}
			return true
		})
		inLit := func(p token.Pos) bool {
			for _, fl := range lits {
				if fl.Pos() <= p && p < fl.End() {
					return true
				}
			}
			return false
		}
		ast.Inspect(d.Body, func(n ast.Node) bool {
			ret, ok := n.(*ast.ReturnStmt)
			if !ok || inLit(ret.Pos()) {
				return true
			}
			pre := ""
			switch {
			case len(results) == 0:
			case len(ret.Results) == 0:
				pre = strings.Join(results, ", ") + " = " + strings.Join(named, ", ") + "; "
				edits = append(edits, textEdit{nz.off(ret.Pos()), nz.off(ret.Pos()) + len("return"), pre + "break " + label, 1000})
				return true
			default:
				pre = strings.Join(results, ", ") + " = "
			}
			if len(ret.Results) == 0 {
				edits = append(edits, textEdit{nz.off(ret.Pos()), nz.off(ret.Pos()) + len("return"), "break " + label, 1000})
				return true
			}
			edits = append(edits, textEdit{nz.off(ret.Pos()), nz.off(ret.Pos()) + len("return"), pre, 1000})
			edits = append(edits, textEdit{nz.off(ret.End()), nz.off(ret.End()), "; break " + label, 1000})
			return true
		})
	}
	b := nz.fileBytes(nz.fset.Position(d.Pos()).Filename)
	inner := applyEdits(b, nz.off(d.Body.Lbrace)+1, nz.off(d.Body.Rbrace), edits)
	return inner, true
}

func namedResults(d *ast.FuncDecl) []string {
	var out []string
	if d.Type.Results == nil {
		return nil
	}
	for _, f := range d.Type.Results.List {
		for _, n := range f.Names {
			out = append(out, n.Name)
		}
	}
	return out
}

func (nz *normalizer) fileOf(pk *packages.Package, n ast.Node) *ast.File {
	for _, f := range pk.Syntax {
		if f.Pos() <= n.Pos() && n.Pos() < f.End() {
			return f
		}
	}
	return nil
}

// expansion builds the one-line text that computes the call's results into temporaries.
func (nz *normalizer) expansion(pk *packages.Package, file *ast.File, site *inlineSite, guard string) (prelude string, temps []string, ok bool) {
	info := pk.TypesInfo
	callee := site.callee
	if okI, why := nz.inlinable(callee); !okI {
		nz.Log = append(nz.Log, fmt.Sprintf("not inlined: %s (%s)", objName(callee), why))
		return "", nil, false
	}
	if nz.captured(callee, pk, site.call.Pos()) {
		nz.Log = append(nz.Log, fmt.Sprintf("not inlined: %s (a name of its body is shadowed at %s)", objName(callee), nz.fset.Position(site.call.Pos())))
		return "", nil, false
	}
	d := nz.decl[callee]
	sig := callee.Type().(*types.Signature)
	q, failed := nz.qualifier(file, pk)
	// a generic helper: the temporaries get the types of this call's instance, the body sees its type
	// parameters as local aliases of the type arguments (genericInstance)
	tsig, typeDecls, whyG := nz.genericInstance(pk, callee, site.call, q)
	if tsig == nil {
		nz.Log = append(nz.Log, fmt.Sprintf("not inlined: %s (generic: %s at %s)", objName(callee), whyG, nz.fset.Position(site.call.Pos())))
		return "", nil, false
	}
	if nz.argLit[callee] {
		// a parameter standing for a literal argument: the temporaries get the types the LITERAL declares (the
		// parameter's own type may mention type parameters of the helper that the inlined text never names)
		lsig, isSig := nz.declPkg[callee].TypesInfo.TypeOf(nz.closure[callee]).(*types.Signature)
		if !isSig || lsig.Params().Len() != sig.Params().Len() || lsig.Results().Len() != sig.Results().Len() || mentionsTypeParam(lsig, map[types.Type]bool{}) {
			return "", nil, false
		}
		tsig = lsig
	}
	nz.n++
	id := fmt.Sprintf("__inl%d", nz.n)
	var sb strings.Builder
	// result temporaries
	for i := 0; i < sig.Results().Len(); i++ {
		t := fmt.Sprintf("%s_r%d", id, i)
		temps = append(temps, t)
		fmt.Fprintf(&sb, "var %s %s; _ = %s; ", t, types.TypeString(tsig.Results().At(i).Type(), q), t)
	}
	var body strings.Builder
	body.WriteString(typeDecls)
	// receiver
	if sig.Recv() != nil {
		sel, okS := site.call.Fun.(*ast.SelectorExpr)
		if !okS {
			return "", nil, false
		}
		rt := info.TypeOf(sel.X)
		recvText := nz.text(sel.X)
		_, wantPtr := sig.Recv().Type().(*types.Pointer)
		_, havePtr := rt.Underlying().(*types.Pointer)
		if selInfo, okSel := info.Selections[sel]; okSel && len(selInfo.Index()) > 1 {
			return "", nil, false // promoted through an embedded field
		}
		switch {
		case wantPtr && !havePtr:
			recvText = "&" + recvText
		case !wantPtr && havePtr:
			recvText = "*" + recvText
		}
		fmt.Fprintf(&body, "%s_recv := %s; ", id, recvText)
		if d.Recv != nil && len(d.Recv.List) == 1 && len(d.Recv.List[0].Names) == 1 && d.Recv.List[0].Names[0].Name != "_" {
			n := d.Recv.List[0].Names[0].Name
			fmt.Fprintf(&body, "%s := %s_recv; _ = %s; ", n, id, n)
		}
	}
	// parameters
	var pnames []string
	for _, f := range d.Type.Params.List {
		if len(f.Names) == 0 {
			pnames = append(pnames, "_")
		}
		for _, n := range f.Names {
			pnames = append(pnames, n.Name)
		}
	}
	if len(pnames) != len(site.call.Args) {
		return "", nil, false // f(g()) with a multi-value g
	}
	var binds strings.Builder
	var argLits []boundLit
	for i, a := range site.call.Args {
		pt := tsig.Params().At(i).Type()
		argText := nz.text(a)
		if lit, isLit := ast.Unparen(a).(*ast.FuncLit); isLit && pnames[i] != "_" && nz.argLitBindable(pk, callee, sig.Params().At(i), lit) {
			p := sig.Params().At(i)
			if nz.argLit == nil {
				nz.argLit = map[types.Object]bool{}
			}
			nz.argLit[p], nz.closure[p], nz.declPkg[p] = true, lit, pk
			nz.decl[p] = &ast.FuncDecl{Name: ast.NewIdent(p.Name()), Type: lit.Type, Body: lit.Body}
			defer func() {
				delete(nz.argLit, p)
				delete(nz.closure, p)
				delete(nz.declPkg, p)
				delete(nz.decl, p)
			}()
			argText = fmt.Sprintf("\x00lit%d\x00", i)
			argLits = append(argLits, boundLit{mark: argText, name: p.Name(), text: nz.text(a)})
		}
		fmt.Fprintf(&binds, "var %s_a%d %s = %s; ", id, i, types.TypeString(pt, q), argText)
		if pnames[i] != "_" {
			fmt.Fprintf(&body, "%s := %s_a%d; _ = %s; ", pnames[i], id, i, pnames[i])
		} else {
			fmt.Fprintf(&body, "_ = %s_a%d; ", id, i)
		}
		if recvText, meth, okM := nz.stableMethodValue(info, a); okM && pnames[i] != "_" && nz.onlyCalled(callee, sig.Params().At(i)) {
			fmt.Fprintf(&binds, "%s_f%d := %s; _ = %s_f%d; ", id, i, recvText, id, i)
			if nz.subst == nil {
				nz.subst = map[types.Object]string{}
			}
			nz.subst[sig.Params().At(i)] = fmt.Sprintf("%s_f%d.%s", id, i, meth)
			defer delete(nz.subst, sig.Params().At(i))
		}
	}
	// named results are ordinary locals of the inlined body
	if d.Type.Results != nil {
		for _, f := range d.Type.Results.List {
			for _, n := range f.Names {
				if n.Name != "_" {
					fmt.Fprintf(&body, "var %s %s; _ = %s; ", n.Name, types.TypeString(info.TypeOf(f.Type), q), n.Name)
				}
			}
		}
		// info belongs to the caller's package; the callee may live elsewhere
		if nz.declPkg[callee] != pk {
			for _, f := range d.Type.Results.List {
				if len(f.Names) > 0 {
					return "", nil, false
				}
			}
		}
	}
	// [tables] parameters bound to an immutable function table: calls through them are static calls in this body
	unbind := nz.bindTables(pk, site, sig, tsig)
	inner, okB := nz.bodyText(callee, id, temps)
	unbind()
	if !okB {
		nz.Log = append(nz.Log, fmt.Sprintf("not inlined: %s (recursive)", objName(callee)))
		return "", nil, false
	}
	flat, okF := flatten(inner)
	if !okF || *failed {
		nz.Log = append(nz.Log, fmt.Sprintf("not inlined: %s (a type or the body cannot be spelled at the call site)", objName(callee)))
		return "", nil, false
	}
	// [std] fix: a helper from another file may use an import the caller's file does not have
	if miss := nz.missingImport(pk, file, callee, flat); miss != "" {
		nz.Log = append(nz.Log, fmt.Sprintf("not inlined: %s (its body uses package %s, which the file of the call at %s does not import)", objName(callee), miss, nz.fset.Position(site.call.Pos())))
		return "", nil, false
	}
	loop := fmt.Sprintf("%s: for { %s%s; break %s }; ", id, body.String(), flat, id)
	// a literal argument all of whose calls were expanded is not evaluated any more (forming a closure has no
	// effect; the variables it would capture stay plain locals); if a call of the parameter is left it stays
	bindText := binds.String()
	for _, bl := range argLits {
		if identOccurs(flat, bl.name) {
			bindText = strings.Replace(bindText, bl.mark, bl.text, 1)
		} else {
			bindText = strings.Replace(bindText, bl.mark, "nil", 1)
			nz.Log = append(nz.Log, fmt.Sprintf("literal argument %s of %s expanded at its calls at %s", bl.name, objName(callee), nz.fset.Position(site.call.Pos())))
		}
	}
	if guard != "" {
		sb.WriteString("if " + guard + " { " + bindText + loop + "}; ")
	} else {
		sb.WriteString(bindText + loop)
	}
	nz.Log = append(nz.Log, fmt.Sprintf("inlined %s at %s", objName(callee), nz.fset.Position(site.call.Pos())))
	return sb.String(), temps, true
}

// stmtEdits walks the statement lists below root and produces the edits that inline new helpers.
func (nz *normalizer) stmtEdits(pk *packages.Package, file *ast.File, root ast.Node) []textEdit {
	var edits []textEdit
	info := pk.TypesInfo
	seq := 0
	inlined := map[types.Object]int{} // closure -> calls below root that were replaced by the body
	var handle func(s ast.Stmt, elseIf bool)
	handle = func(s ast.Stmt, elseIf bool) {
		target := s
		if ls, ok := s.(*ast.LabeledStmt); ok {
			target = ls.Stmt
		}
		switch x := target.(type) {
		case *ast.GoStmt, *ast.DeferStmt:
			var call *ast.CallExpr
			if g, ok := x.(*ast.GoStmt); ok {
				call = g.Call
			} else {
				call = x.(*ast.DeferStmt).Call
			}
			callee := typeutil.Callee(info, call)
			if _, isFn := callee.(*types.Func); !isFn || !nz.isNewHelper(callee) {
				return
			}
			// as a function literal the body keeps its own defers, labels and returns
			if sg := callee.Type().(*types.Signature); sg.Variadic() || sg.TypeParams().Len() > 0 || sg.RecvTypeParams().Len() > 0 || nz.captured(callee, pk, call.Pos()) {
				return
			}
			d := nz.decl[callee]
			sig := callee.Type().(*types.Signature)
			q, failed := nz.qualifier(file, pk)
			inner, okB := nz.bodyText(callee, "", nil)
			if !okB {
				return
			}
			flat, okF := flatten(inner)
			if !okF {
				return
			}
			var params []string
			extraArg := ""
			if sig.Recv() != nil {
				sel, okS := call.Fun.(*ast.SelectorExpr)
				if !okS || len(d.Recv.List) != 1 || len(d.Recv.List[0].Names) != 1 {
					return
				}
				params = append(params, d.Recv.List[0].Names[0].Name+" "+types.TypeString(sig.Recv().Type(), q))
				rt := info.TypeOf(sel.X)
				recvText := nz.text(sel.X)
				_, wantPtr := sig.Recv().Type().(*types.Pointer)
				_, havePtr := rt.Underlying().(*types.Pointer)
				if wantPtr && !havePtr {
					recvText = "&" + recvText
				} else if !wantPtr && havePtr {
					recvText = "*" + recvText
				}
				extraArg = recvText
			}
			i := 0
			for _, f := range d.Type.Params.List {
				names := f.Names
				if len(names) == 0 {
					names = []*ast.Ident{{Name: "_"}}
				}
				for _, n := range names {
					params = append(params, n.Name+" "+types.TypeString(sig.Params().At(i).Type(), q))
					i++
				}
			}
			res := ""
			if sig.Results().Len() > 0 {
				var rs []string
				names := namedResults(d)
				for j := 0; j < sig.Results().Len(); j++ {
					t := types.TypeString(sig.Results().At(j).Type(), q)
					if len(names) == sig.Results().Len() {
						t = names[j] + " " + t
					}
					rs = append(rs, t)
				}
				res = " (" + strings.Join(rs, ", ") + ")"
			}
			if *failed {
				return
			}
			lit := "func(" + strings.Join(params, ", ") + ")" + res + " { " + flat + " }"
			seq++
			edits = append(edits, textEdit{nz.off(call.Fun.Pos()), nz.off(call.Fun.End()), lit, seq})
			if extraArg != "" {
				sep := ", "
				if len(call.Args) == 0 {
					sep = ""
				}
				seq++
				edits = append(edits, textEdit{nz.off(call.Lparen) + 1, nz.off(call.Lparen) + 1, extraArg + sep, seq})
			}
			nz.Log = append(nz.Log, fmt.Sprintf("inlined %s as a function literal at %s", objName(callee), nz.fset.Position(call.Pos())))
			return
		}
		// The calls of the header are lifted one after the other, in the order the statement executes them: the
		// lexically first call, then - behind it - the first call after it, and so on, for as long as each of them
		// is a plain, unguarded call of a new helper (`return f(a), f(b), f(c)`). The first call that is not (a
		// pinned or library function, a call under a short-circuit operator, a standard helper) ends the run: a
		// helper behind it would be executed before it.
		skip := map[*ast.CallExpr]bool{}
		opened := false
		for round := 0; round < 16; round++ {
			site, guard, ok := nz.findSite(info, target, skip)
			if !ok {
				break
			}
			sig := site.callee.Type().(*types.Signature)
			if guard != "" && (sig.Results().Len() != 1) {
				break
			}
			if round > 0 && (guard != "" || nz.isStd(site.callee)) {
				break
			}
			// [std] begin: standard-library helpers are expanded by normalize_std.go; a call whose operands are
			// declared by the init statement of the same header cannot be lifted in front of it
			var prelude string
			var temps []string
			if nz.isStd(site.callee) {
				prelude, temps, ok = nz.stdExpansion(pk, file, site, target)
			} else if nz.usesHeaderDecl(info, target, site) {
				nz.Log = append(nz.Log, fmt.Sprintf("not inlined: %s (an operand is declared in the same statement header at %s)", objName(site.callee), nz.fset.Position(site.call.Pos())))
				break
			} else {
				prelude, temps, ok = nz.expansion(pk, file, site, guard)
			}
			var replaced ast.Node = site.call
			if site.replace != nil {
				replaced = site.replace
			}
			// [std] end
			if !ok {
				break
			}
			repl := strings.Join(temps, ", ")
			if es, isES := target.(*ast.ExprStmt); isES && es.X == ast.Expr(site.call) {
				// result discarded
				seq++
				edits = append(edits, textEdit{nz.off(s.Pos()), nz.off(s.Pos()), prelude, seq})
				seq++
				edits = append(edits, textEdit{nz.off(site.call.Pos()), nz.off(site.call.End()), "", seq})
				inlined[site.callee]++
				break
			}
			if len(temps) == 0 {
				break
			}
			inlined[site.callee]++
			open := ""
			if elseIf && !opened {
				open = "{ "
				opened = true
			}
			seq++
			edits = append(edits, textEdit{nz.off(s.Pos()), nz.off(s.Pos()), open + prelude, seq})
			seq++
			edits = append(edits, textEdit{nz.off(replaced.Pos()), nz.off(replaced.End()), repl, seq}) // [std] was site.call
			if guard != "" || site.replace != nil || nz.isStd(site.callee) {
				break
			}
			skip[site.call] = true
		}
		if opened {
			seq++
			edits = append(edits, textEdit{nz.off(s.End()), nz.off(s.End()), " }", seq})
		}
	}
	var walkList func(list []ast.Stmt)
	var walkStmt func(s ast.Stmt)
	walkStmt = func(s ast.Stmt) {
		switch x := s.(type) {
		case *ast.BlockStmt:
			walkList(x.List)
		case *ast.IfStmt:
			walkStmt(x.Body)
			switch e := x.Else.(type) {
			case *ast.IfStmt:
				handle(e, true)
				walkStmt(e)
			case *ast.BlockStmt:
				walkStmt(e)
			}
		case *ast.ForStmt:
			walkStmt(x.Body)
		case *ast.RangeStmt:
			walkStmt(x.Body)
		case *ast.SwitchStmt:
			walkStmt(x.Body)
		case *ast.TypeSwitchStmt:
			walkStmt(x.Body)
		case *ast.SelectStmt:
			walkStmt(x.Body)
		case *ast.CaseClause:
			walkList(x.Body)
		case *ast.CommClause:
			walkList(x.Body)
		case *ast.LabeledStmt:
			walkStmt(x.Stmt)
		}
	}
	walkList = func(list []ast.Stmt) {
		for _, s := range list {
			handle(s, false)
			walkStmt(s)
		}
	}
	switch r := root.(type) {
	case *ast.BlockStmt:
		walkList(r.List)
	}
	// function literals inside the body have their own statement lists
	ast.Inspect(root, func(n ast.Node) bool {
		if fl, ok := n.(*ast.FuncLit); ok && fl.Body != nil {
			if nz.consumed[fl] {
				return false // [std] expanded in place by normalize_std.go, nested helpers included
			}
			walkList(fl.Body.List)
		}
		return true
	})
	return append(edits, nz.closureEdits(root, inlined)...)
}

// closureEdits: what becomes of the literals of the inlinable closures declared below root. A closure whose calls
// were ALL replaced by its body (inlined counts the replaced calls below root; the closure is only ever called,
// findClosures) is dead: the declaring statement is removed, its line breaks kept so that every other position
// stays what it is. Creating a function value has no effect, so this preserves behaviour; and should a call
// have survived after all (an edit that was dropped as overlapping) the name is undeclared, the normalised
// sources do not type-check and the loader falls back to literals that stay (keepClosures). Any other literal
// stays where it is and its variable is kept "used" by `; _ = f`.
func (nz *normalizer) closureEdits(root ast.Node, inlined map[types.Object]int) []textEdit {
	var out []textEdit
	for obj, lit := range nz.closure {
		if !(root.Pos() <= lit.Pos() && lit.End() <= root.End()) {
			continue
		}
		st := nz.closureStmt[obj]
		if !nz.keepClosures && st != nil && nz.closureCalls[obj] > 0 && inlined[obj] == nz.closureCalls[obj] {
			b := nz.fileBytes(nz.fset.Position(st.Pos()).Filename)
			lo, hi := nz.off(st.Pos()), nz.off(st.End())
			if b != nil && lo < hi && hi <= len(b) {
				out = append(out, textEdit{lo, hi, strings.Repeat("\n", bytes.Count(b[lo:hi], []byte("\n"))), 1 << 19})
				nz.Log = append(nz.Log, fmt.Sprintf("removed closure %s at %s (every call was inlined)", obj.Name(), nz.fset.Position(st.Pos())))
				continue
			}
		}
		out = append(out, textEdit{nz.off(lit.End()), nz.off(lit.End()), "; _ = " + obj.Name(), 1 << 19})
	}
	return out
}

// BuildOverlay returns the normalised sources of the files that call new helpers.
func BuildOverlay(pkgs []*packages.Package, pinned map[string]bool) (map[string][]byte, []string) {
	return buildOverlay(pkgs, pinned, false)
}

// buildOverlay: keepClosures is the fall-back in which no closure literal is removed (closureEdits).
func buildOverlay(pkgs []*packages.Package, pinned map[string]bool, keepClosures bool) (map[string][]byte, []string) {
	nz := &normalizer{pkgs: pkgs, pinned: pinned, decl: map[types.Object]*ast.FuncDecl{}, declPkg: map[types.Object]*packages.Package{},
		src: map[string][]byte{}, busy: map[types.Object]bool{}, closure: map[types.Object]*ast.FuncLit{},
		closureStmt: map[types.Object]ast.Stmt{}, closureCalls: map[types.Object]int{}, keepClosures: keepClosures}
	anyNew := false
	for _, pk := range pkgs {
		if !strings.HasPrefix(pk.PkgPath, Mod) {
			continue
		}
		nz.fset = pk.Fset
		for _, f := range pk.Syntax {
			for _, d := range f.Decls {
				fd, ok := d.(*ast.FuncDecl)
				if !ok {
					continue
				}
				nz.findClosures(pk, fd)
				if obj, ok := pk.TypesInfo.Defs[fd.Name].(*types.Func); ok {
					nz.decl[obj] = fd
					nz.declPkg[obj] = pk
					if !pinned[obj.FullName()] && fd.Body != nil {
						anyNew = true
					}
				}
			}
		}
	}
	_ = anyNew
	overlay := map[string][]byte{}
	for _, pk := range pkgs {
		if !strings.HasPrefix(pk.PkgPath, Mod) {
			continue
		}
		for _, f := range pk.Syntax {
			var edits []textEdit
			for _, d := range f.Decls {
				// [std] function literals in package-level var initialisers (`var f = func(..) {..}`) have
				// statement lists as well; stmtEdits walks the literals below any node
				if gd, isGen := d.(*ast.GenDecl); isGen && gd.Tok == token.VAR {
					for _, sp := range gd.Specs {
						if vs, isVS := sp.(*ast.ValueSpec); isVS {
							for _, v := range vs.Values {
								edits = append(edits, nz.stmtEdits(pk, f, v)...)
							}
						}
					}
					continue
				}
				fd, ok := d.(*ast.FuncDecl)
				if !ok || fd.Body == nil {
					continue
				}
				// a recursive new helper is not expanded into its own body
				self, _ := pk.TypesInfo.Defs[fd.Name].(*types.Func)
				if self != nil {
					nz.busy[self] = true
				}
				edits = append(edits, nz.stmtEdits(pk, f, fd.Body)...)
				if self != nil {
					delete(nz.busy, self)
				}
			}
			// (the variable of a closure whose literal stays is kept "used" by stmtEdits: closureEdits)
			// flat views: a copy `<name>__flat` of a designated function with its private helpers inlined as well,
			// placed on the line of the original's closing brace (all other positions stay as they are)
			for _, d := range f.Decls {
				fd, ok := d.(*ast.FuncDecl)
				if !ok || fd.Body == nil {
					continue
				}
				obj, _ := pk.TypesInfo.Defs[fd.Name].(*types.Func)
				if obj == nil {
					continue
				}
				callees, want := FlatViews[obj.FullName()]
				if !want {
					continue
				}
				nz.extra = map[string]bool{}
				for _, c := range callees {
					nz.extra[c] = true
				}
				fe := nz.stmtEdits(pk, f, fd.Body)
				nz.extra = nil
				b := nz.fileBytes(nz.fset.Position(f.Pos()).Filename)
				body := applyEdits(b, nz.off(fd.Body.Lbrace)+1, nz.off(fd.Body.Rbrace), fe)
				flat, okF := flatten(body)
				head, okH := flatten(string(b[nz.off(fd.Pos()):nz.off(fd.Name.Pos())]) + fd.Name.Name + "__flat" + string(b[nz.off(fd.Name.End()):nz.off(fd.Body.Lbrace)]))
				if !okF || !okH {
					continue
				}
				head = strings.TrimSuffix(strings.TrimSpace(head), ";")
				edits = append(edits, textEdit{nz.off(fd.Body.Rbrace) + 1, nz.off(fd.Body.Rbrace) + 1, "; " + head + "{ " + flat + " }", 1 << 20})
				nz.Log = append(nz.Log, "flat view "+obj.FullName()+"__flat generated")
			}
			if len(edits) == 0 {
				continue
			}
			name := nz.fset.Position(f.Pos()).Filename
			b := nz.fileBytes(name)
			overlay[name] = []byte(applyEdits(b, 0, len(b), edits))
			// [std] an import that lost its last use to an expansion becomes a blank import
			if ie := nz.importEdits(pk, f, overlay[name]); len(ie) > 0 {
				overlay[name] = []byte(applyEdits(b, 0, len(b), append(edits, ie...)))
			}
		}
	}
	return overlay, nz.Log
}

// FlatViews: functions of which the normaliser also emits a copy `<name>__flat` in which the listed private
// helpers (pinned or not) are inlined. Rules that must not depend on how a computation is split into helpers
// analyse the flat view.
var FlatViews = map[string][]string{
	"(*" + PkgG + ".Genome).duplicate": {
		"(*" + PkgG + ".Genome).duplicateNodes",
		"(*" + PkgG + ".Genome).duplicateGenes",
		"(*" + PkgG + ".Genome).duplicateControlGenes",
	},
}

// findClosures records the local closures of fd that can be inlined at their call sites: a variable
// defined once as a function literal (`f := func(..) {..}` / `var f = func(..) {..}`), never assigned
// again, never used as a value (only called), and not calling itself.
func (nz *normalizer) findClosures(pk *packages.Package, fd *ast.FuncDecl) {
	if fd.Body == nil {
		return
	}
	info := pk.TypesInfo
	cands := map[types.Object]*ast.FuncLit{}
	idents := map[types.Object]*ast.Ident{}
	stmtOf := map[types.Object]ast.Stmt{} // the declaring statement (`f := func..` or a `var f = func..` of its own)
	inList := map[ast.Stmt]bool{}         // statements that are plain members of a statement list
	ast.Inspect(fd.Body, func(n ast.Node) bool {
		switch x := n.(type) {
		case *ast.BlockStmt:
			for _, s := range x.List {
				inList[s] = true
			}
		case *ast.CaseClause:
			for _, s := range x.Body {
				inList[s] = true
			}
		case *ast.CommClause:
			for _, s := range x.Body {
				inList[s] = true
			}
		case *ast.DeclStmt:
			if gd, ok := x.Decl.(*ast.GenDecl); ok && gd.Tok == token.VAR && len(gd.Specs) == 1 {
				if vs, ok := gd.Specs[0].(*ast.ValueSpec); ok && len(vs.Names) == 1 && len(vs.Values) == 1 {
					if obj := info.Defs[vs.Names[0]]; obj != nil {
						stmtOf[obj] = x
					}
				}
			}
		case *ast.AssignStmt:
			if x.Tok == token.DEFINE && len(x.Lhs) == 1 && len(x.Rhs) == 1 {
				if id, ok := x.Lhs[0].(*ast.Ident); ok {
					if lit, ok := x.Rhs[0].(*ast.FuncLit); ok {
						if obj := info.Defs[id]; obj != nil {
							cands[obj] = lit
							idents[obj] = id
							stmtOf[obj] = x
						}
					}
				}
			}
		case *ast.ValueSpec:
			if len(x.Names) == 1 && len(x.Values) == 1 {
				if lit, ok := x.Values[0].(*ast.FuncLit); ok {
					if obj := info.Defs[x.Names[0]]; obj != nil {
						cands[obj] = lit
						idents[obj] = x.Names[0]
					}
				}
			}
		}
		return true
	})
	if len(cands) == 0 {
		return
	}
	// every use must be the callee position of a plain call statement-level or expression call, outside the literal itself
	callFun := map[*ast.Ident]bool{}
	ast.Inspect(fd.Body, func(n ast.Node) bool {
		switch x := n.(type) {
		case *ast.CallExpr:
			if id, ok := x.Fun.(*ast.Ident); ok {
				callFun[id] = true
			}
		case *ast.GoStmt:
			if id, ok := x.Call.Fun.(*ast.Ident); ok {
				delete(callFun, id)
				callFun[id] = false
			}
		case *ast.DeferStmt:
			if id, ok := x.Call.Fun.(*ast.Ident); ok {
				callFun[id] = false
			}
		}
		return true
	})
	ok := map[types.Object]bool{}
	for o := range cands {
		ok[o] = true
	}
	calls := map[types.Object]int{}
	ast.Inspect(fd.Body, func(n ast.Node) bool {
		id, isId := n.(*ast.Ident)
		if !isId {
			return true
		}
		obj := info.Uses[id]
		lit, isCand := cands[obj]
		if !isCand {
			return true
		}
		calls[obj]++
		if !callFun[id] {
			ok[obj] = false // used as a value, reassigned, deferred or started as a goroutine
		}
		if lit.Pos() <= id.Pos() && id.Pos() < lit.End() {
			ok[obj] = false // recursive
		}
		return true
	})
	for o, lit := range cands {
		if !ok[o] {
			continue
		}
		nz.closure[o] = lit
		nz.decl[o] = &ast.FuncDecl{Name: idents[o], Type: lit.Type, Body: lit.Body}
		nz.declPkg[o] = pk
		if st := stmtOf[o]; st != nil && inList[st] {
			nz.closureStmt[o] = st
		}
		nz.closureCalls[o] = calls[o] // every use is a call (checked above)
	}
}

// stableMethodValue: e is a method value `x.m` (pointer receiver method on a pointer x, no promotion through
// embedded fields, x an identifier of a local variable / parameter / receiver or a chain of field selections from
// one). Calling `t.m(..)` on a copy t of x taken where the method value was formed is then the same call.
func (nz *normalizer) stableMethodValue(info *types.Info, e ast.Expr) (recvText, method string, ok bool) {
	sel, isSel := ast.Unparen(e).(*ast.SelectorExpr)
	if !isSel {
		return "", "", false
	}
	si, has := info.Selections[sel]
	if !has || si.Kind() != types.MethodVal || len(si.Index()) != 1 {
		return "", "", false
	}
	fn, isFn := si.Obj().(*types.Func)
	if !isFn {
		return "", "", false
	}
	rsig := fn.Type().(*types.Signature)
	if rsig.Recv() == nil {
		return "", "", false
	}
	if _, wantPtr := rsig.Recv().Type().(*types.Pointer); !wantPtr {
		return "", "", false
	}
	if _, havePtr := info.TypeOf(sel.X).Underlying().(*types.Pointer); !havePtr {
		return "", "", false
	}
	x := ast.Unparen(sel.X)
	for {
		switch y := x.(type) {
		case *ast.Ident:
			v, isVar := info.Uses[y].(*types.Var)
			if !isVar || v.Parent() == nil || v.Parent() == v.Pkg().Scope() {
				return "", "", false // package-level variables can change under the callee's feet
			}
			return nz.text(sel.X), sel.Sel.Name, true
		case *ast.SelectorExpr:
			if fs, has := info.Selections[y]; !has || fs.Kind() != types.FieldVal {
				return "", "", false
			}
			x = ast.Unparen(y.X)
		default:
			return "", "", false
		}
	}
}

// onlyCalled: every use of parameter p in the body of callee is the function position of a call; p is never
// assigned, never has its address taken and is not used as a value.
func (nz *normalizer) onlyCalled(callee types.Object, p *types.Var) bool {
	d := nz.decl[callee]
	pk := nz.declPkg[callee]
	if d == nil || pk == nil || d.Body == nil {
		return false
	}
	callPos := map[*ast.Ident]bool{}
	ast.Inspect(d.Body, func(n ast.Node) bool {
		if c, ok := n.(*ast.CallExpr); ok {
			if id, ok := c.Fun.(*ast.Ident); ok {
				callPos[id] = true
			}
		}
		return true
	})
	ok, uses := true, 0
	ast.Inspect(d.Body, func(n ast.Node) bool {
		if id, isId := n.(*ast.Ident); isId && pk.TypesInfo.Uses[id] == types.Object(p) {
			uses++
			if !callPos[id] {
				ok = false
			}
		}
		return true
	})
	return ok && uses > 0
}

// boundLit: a function literal passed for a parameter that is only ever called (argLitBindable).
type boundLit struct{ mark, name, text string }

// argLitBindable: the literal lit, written as the argument for parameter p at a call of the declared helper callee,
// may stand for p inside the inlined body: p is only ever called there (never assigned, compared, stored, passed on,
// started as a goroutine: onlyCalled), so every `p(..)` IS a call of lit; helper and call are in one package (the
// literal's text and the helper's text spell types and package-level names alike). The literal's own body must
// satisfy the preconditions of any inlined body (no defer, recover, label, goto).
//
// Only a literal that is a CLOSURE - it uses a variable of the function it is written in - is expanded. Such a
// literal is what hides the computation from the rules: go/ssa keeps every captured variable in a heap cell, the
// accumulator the callback updates is no longer a value of the caller, and the callback's body is reached only
// through a function value made at run time. A literal without free variables is an ordinary function with a
// static callee; it stays a call, like a call of any declared function the pinned tree has.
func (nz *normalizer) argLitBindable(pk *packages.Package, callee types.Object, p *types.Var, lit *ast.FuncLit) bool {
	if _, isFn := callee.(*types.Func); !isFn || nz.declPkg[callee] != pk || nz.closure[p] != nil || lit.Body == nil {
		return false
	}
	if !capturesLocal(pk.TypesInfo, lit) {
		return false
	}
	if ok, _ := bodyInlinable(lit.Body); !ok {
		return false
	}
	if ls, ok := lit.Type.Params, true; ok && ls != nil {
		for _, f := range ls.List {
			if _, isEll := f.Type.(*ast.Ellipsis); isEll {
				return false
			}
		}
	}
	return nz.onlyCalled(callee, p)
}

// capturesLocal: the literal uses a variable (local, parameter, receiver, named result) of an enclosing function.
func capturesLocal(info *types.Info, lit *ast.FuncLit) bool {
	found := false
	ast.Inspect(lit.Body, func(n ast.Node) bool {
		id, ok := n.(*ast.Ident)
		if !ok || found {
			return !found
		}
		v, isVar := info.Uses[id].(*types.Var)
		if !isVar || v.IsField() || v.Pkg() == nil || v.Parent() == nil || v.Parent() == v.Pkg().Scope() {
			return true
		}
		if v.Pos() < lit.Pos() || v.Pos() >= lit.End() {
			found = true
		}
		return !found
	})
	return found
}

// identOccurs: the identifier name is a token of the Go text src.
func identOccurs(src, name string) bool {
	fs := token.NewFileSet()
	f := fs.AddFile("", fs.Base(), len(src))
	var sc scanner.Scanner
	sc.Init(f, []byte(src), func(token.Position, string) {}, 0)
	for {
		_, tok, lit := sc.Scan()
		if tok == token.EOF {
			return false
		}
		if tok == token.IDENT && lit == name {
			return true
		}
	}
}

// genericInstance judges one call of a helper with type parameters. A call f(args) of a generic function f[P1, ...]
// is a call of the instance f[A1, ...] the type checker recorded for it (types.Info.Instances: explicit or inferred
// type arguments), and that instance is f's body with every Pi standing for Ai. The expansion therefore
//   - declares its temporaries with the types of the INSTANCE's signature (returned as tsig), and
//   - starts the inlined body with `type Pi = Ai` for every type parameter the body (or the type of a named result) mentions
//     (returned as decls), so that the body text means what it means inside the instance.
//
// For a function without type parameters tsig is its own signature and decls is empty. tsig == nil (with a reason)
// when the instance is not recorded, a type argument mentions a type parameter itself (a call inside another generic
// body: `type T = T` would be a cycle) or cannot be written in the caller's package; the call then stays a call.
func (nz *normalizer) genericInstance(pk *packages.Package, callee types.Object, call *ast.CallExpr, q types.Qualifier) (tsig *types.Signature, decls string, why string) {
	sig, ok := callee.Type().(*types.Signature)
	if !ok {
		return nil, "", "not a function"
	}
	tps := sig.TypeParams()
	if tps.Len() == 0 {
		return sig, "", ""
	}
	fun := ast.Unparen(call.Fun)
	switch x := fun.(type) {
	case *ast.IndexExpr:
		fun = ast.Unparen(x.X)
	case *ast.IndexListExpr:
		fun = ast.Unparen(x.X)
	}
	var id *ast.Ident
	switch x := fun.(type) {
	case *ast.Ident:
		id = x
	case *ast.SelectorExpr:
		id = x.Sel
	}
	if id == nil {
		return nil, "", "the callee is not named at the call"
	}
	inst, has := pk.TypesInfo.Instances[id]
	if !has || inst.TypeArgs == nil || inst.TypeArgs.Len() != tps.Len() {
		return nil, "", "no instance recorded for the call"
	}
	isig, ok := inst.Type.(*types.Signature)
	if !ok || isig.Params().Len() != sig.Params().Len() || isig.Results().Len() != sig.Results().Len() {
		return nil, "", "no instance recorded for the call"
	}
	for i := 0; i < inst.TypeArgs.Len(); i++ {
		ta := inst.TypeArgs.At(i)
		if mentionsTypeParam(ta, map[types.Type]bool{}) {
			return nil, "", "a type argument depends on a type parameter of the caller"
		}
		if !spellable(ta, pk.Types, map[types.Type]bool{}) {
			return nil, "", "a type argument cannot be written in the caller's package"
		}
	}
	if mentionsTypeParam(isig.Params(), map[types.Type]bool{}) || mentionsTypeParam(isig.Results(), map[types.Type]bool{}) {
		return nil, "", "the instance's signature depends on a type parameter"
	}
	// the type parameters the inlined text names
	d := nz.decl[callee]
	cpk := nz.declPkg[callee]
	if d == nil || cpk == nil || d.Body == nil {
		return nil, "", "no body"
	}
	index := map[*types.TypeParam]int{}
	for i := 0; i < tps.Len(); i++ {
		index[tps.At(i)] = i
	}
	used := map[int]bool{}
	scan := func(n ast.Node) {
		if n == nil {
			return
		}
		ast.Inspect(n, func(m ast.Node) bool {
			if x, ok := m.(*ast.Ident); ok {
				if tn, ok := cpk.TypesInfo.Uses[x].(*types.TypeName); ok {
					if tp, ok := tn.Type().(*types.TypeParam); ok {
						if k, mine := index[tp]; mine {
							used[k] = true
						}
					}
				}
			}
			return true
		})
	}
	scan(d.Body)
	if d.Type.Results != nil {
		for _, f := range d.Type.Results.List {
			if len(f.Names) > 0 {
				scan(f.Type) // a named result is declared as a local of the inlined body
			}
		}
	}
	var sb strings.Builder
	for i := 0; i < tps.Len(); i++ {
		if !used[i] {
			continue
		}
		name := tps.At(i).Obj().Name()
		if name == "_" {
			continue
		}
		fmt.Fprintf(&sb, "type %s = %s; ", name, types.TypeString(inst.TypeArgs.At(i), q))
	}
	return isig, sb.String(), ""
}

// mentionsTypeParam: a type parameter occurs in t (a type literal of an interface with methods or embedded types is
// answered yes: it is not looked into).
func mentionsTypeParam(t types.Type, seen map[types.Type]bool) bool {
	if t == nil || seen[t] {
		return false
	}
	seen[t] = true
	switch x := t.(type) {
	case *types.TypeParam:
		return true
	case *types.Named:
		for i := 0; i < x.TypeArgs().Len(); i++ {
			if mentionsTypeParam(x.TypeArgs().At(i), seen) {
				return true
			}
		}
		return false
	case *types.Alias:
		return mentionsTypeParam(types.Unalias(x), seen)
	case *types.Pointer:
		return mentionsTypeParam(x.Elem(), seen)
	case *types.Slice:
		return mentionsTypeParam(x.Elem(), seen)
	case *types.Array:
		return mentionsTypeParam(x.Elem(), seen)
	case *types.Chan:
		return mentionsTypeParam(x.Elem(), seen)
	case *types.Map:
		return mentionsTypeParam(x.Key(), seen) || mentionsTypeParam(x.Elem(), seen)
	case *types.Tuple:
		for i := 0; i < x.Len(); i++ {
			if mentionsTypeParam(x.At(i).Type(), seen) {
				return true
			}
		}
		return false
	case *types.Signature:
		return mentionsTypeParam(x.Params(), seen) || mentionsTypeParam(x.Results(), seen)
	case *types.Struct:
		for i := 0; i < x.NumFields(); i++ {
			if mentionsTypeParam(x.Field(i).Type(), seen) {
				return true
			}
		}
		return false
	case *types.Interface:
		return x.NumMethods() > 0 || x.NumEmbeddeds() > 0
	}
	return false
}
