package nc

import (
	"fmt"
	"go/ast"
	"go/constant"
	"go/token"
	"go/types"
	"math"
	"sort"
)

// Abstract interpretation of the scalar activation closures: interval ×
// monotonicity × may-NaN with respect to the single float input, evaluated
// piecewise over the input domain split at the constants the function tests.

const (
	monoConst = iota
	monoInc
	monoDec
	monoUnknown
)

func monoName(m int) string {
	return [...]string{"constant", "non-decreasing", "non-increasing", "not monotone / unknown"}[m]
}

type aval struct {
	lo, hi float64
	mono   int
	nan    bool
	bad    string // construct outside the table: the obligation is undecided
}

// apiece is an interval of inputs. Values are computed over its closed hull [lo,hi] (a sound over-approximation);
// loOpen / hiOpen record that the bound itself is excluded, which only matters for deciding that a piece is empty:
// the false branch of `x >= k` is [lo,k), and `x < k` is never false on it.
type apiece struct {
	lo, hi         float64
	loOpen, hiOpen bool
}

func (q apiece) empty() bool {
	return q.lo > q.hi || (q.lo == q.hi && (q.loOpen || q.hiOpen))
}

// below is q ∩ (-inf,k) (open) or q ∩ (-inf,k]; above is q ∩ (k,inf) (open) or q ∩ [k,inf).
func (q apiece) below(k float64, open bool) apiece {
	switch {
	case k < q.hi:
		q.hi, q.hiOpen = k, open
	case k == q.hi:
		q.hiOpen = q.hiOpen || open
	}
	return q
}

func (q apiece) above(k float64, open bool) apiece {
	switch {
	case k > q.lo:
		q.lo, q.loOpen = k, open
	case k == q.lo:
		q.loOpen = q.loOpen || open
	}
	return q
}

// abind is what a local of the closure is bound to at one program point: the
// expression assigned to it together with the bindings that were in force at
// the assignment (so that the expression can be re-evaluated on any sub-piece
// of the input domain and normalised symbolically), or a constant supplied
// from outside (a captured parameter of a closure factory).
type abind struct {
	expr  ast.Expr
	env   aenv
	konst *float64
}

type aenv map[types.Object]*abind

func (e aenv) with(obj types.Object, b *abind) aenv {
	out := make(aenv, len(e)+1)
	for k, v := range e {
		out[k] = v
	}
	out[obj] = b
	return out
}

type aresult struct {
	piece apiece
	expr  ast.Expr
	env   aenv
	val   aval
}

// astate is one abstract state of the interpreter: a piece of the input domain and the bindings of the locals.
type astate struct {
	p   apiece
	env aenv
}

type absInterp struct {
	info  *types.Info
	input types.Object
	fset  *token.FileSet
	body  *ast.BlockStmt // the body of the interpreted function (a function literal or a declared function)
	decls helperDecls    // the declared functions of the package, for calls of pure helpers (robust_c18.go)
	depth int
	// exits collects, per label of an enclosing `L: for { ... }` block, the states in which `break L` is executed
	exits map[types.Object]*[]astate
}

func flip(m int) int {
	switch m {
	case monoInc:
		return monoDec
	case monoDec:
		return monoInc
	}
	return m
}

func addMono(a, b int) int {
	switch {
	case a == monoConst:
		return b
	case b == monoConst:
		return a
	case a == b:
		return a
	}
	return monoUnknown
}

func (ai *absInterp) isMathFunc(e ast.Expr, name string) bool {
	sel, ok := e.(*ast.SelectorExpr)
	if !ok {
		return false
	}
	f, ok := ai.info.Uses[sel.Sel].(*types.Func)
	return ok && f.Pkg() != nil && f.Pkg().Path() == "math" && f.Name() == name
}

func mulBounds(a, b aval) (lo, hi float64, nan bool) {
	lo, hi = math.Inf(1), math.Inf(-1)
	for _, x := range []float64{a.lo, a.hi} {
		for _, y := range []float64{b.lo, b.hi} {
			p := x * y
			if math.IsNaN(p) { // 0 * inf
				nan = true
				p = 0
			}
			lo, hi = math.Min(lo, p), math.Max(hi, p)
		}
	}
	return
}

func (ai *absInterp) eval(e ast.Expr, p apiece, env aenv) aval {
	switch x := e.(type) {
	case *ast.ParenExpr:
		return ai.eval(x.X, p, env)
	case *ast.BasicLit:
		tv := ai.info.Types[x]
		if tv.Value != nil {
			f, _ := constant.Float64Val(tv.Value)
			return aval{lo: f, hi: f, mono: monoConst}
		}
	case *ast.Ident:
		obj := ai.info.Uses[x]
		if obj == ai.input {
			return aval{lo: p.lo, hi: p.hi, mono: monoInc}
		}
		if b, ok := env[obj]; ok {
			if b.konst != nil {
				return aval{lo: *b.konst, hi: *b.konst, mono: monoConst}
			}
			ai.depth++
			defer func() { ai.depth-- }()
			if ai.depth > 200 {
				return aval{bad: "bindings nested too deeply"}
			}
			return ai.eval(b.expr, p, b.env)
		}
		if c, ok := obj.(*types.Const); ok {
			f, _ := constant.Float64Val(c.Val())
			return aval{lo: f, hi: f, mono: monoConst}
		}
		return aval{bad: "identifier " + x.Name + " is not the input, a local constant or a constant"}
	case *ast.UnaryExpr:
		v := ai.eval(x.X, p, env)
		if v.bad != "" {
			return v
		}
		switch x.Op {
		case token.SUB:
			return aval{lo: -v.hi, hi: -v.lo, mono: flip(v.mono), nan: v.nan}
		case token.ADD:
			return v
		}
		return aval{bad: "unary " + x.Op.String()}
	case *ast.BinaryExpr:
		// constant-folded by the type checker?
		if tv, ok := ai.info.Types[x]; ok && tv.Value != nil {
			f, _ := constant.Float64Val(tv.Value)
			return aval{lo: f, hi: f, mono: monoConst}
		}
		// the transfer functions below are those of real (floating-point) arithmetic
		if tv, ok := ai.info.Types[x]; ok && tv.Type != nil && !isFloatType(tv.Type) {
			return aval{bad: "non-constant arithmetic of type " + tv.Type.String() + " (" + types.ExprString(x) + ")"}
		}
		a, b := ai.eval(x.X, p, env), ai.eval(x.Y, p, env)
		if a.bad != "" {
			return a
		}
		if b.bad != "" {
			return b
		}
		switch x.Op {
		case token.ADD:
			r := aval{lo: a.lo + b.lo, hi: a.hi + b.hi, mono: addMono(a.mono, b.mono), nan: a.nan || b.nan}
			if math.IsNaN(r.lo) || math.IsNaN(r.hi) {
				r.nan = true
			}
			return r
		case token.SUB:
			nb := aval{lo: -b.hi, hi: -b.lo, mono: flip(b.mono), nan: b.nan}
			r := aval{lo: a.lo + nb.lo, hi: a.hi + nb.hi, mono: addMono(a.mono, nb.mono), nan: a.nan || b.nan}
			if math.IsNaN(r.lo) || math.IsNaN(r.hi) {
				r.nan = true
			}
			return r
		case token.MUL:
			lo, hi, nan := mulBounds(a, b)
			r := aval{lo: lo, hi: hi, nan: a.nan || b.nan || nan}
			// square idiom: e*e with structurally equal operands
			if types.ExprString(x.X) == types.ExprString(x.Y) || ai.sameValue(x.X, env, x.Y, env) {
				sq := aval{lo: 0, hi: math.Max(a.lo*a.lo, a.hi*a.hi), nan: a.nan}
				switch {
				case a.lo >= 0:
					sq.lo, sq.mono = a.lo*a.lo, a.mono
				case a.hi <= 0:
					sq.lo, sq.mono = a.hi*a.hi, flip(a.mono)
				default:
					sq.mono = monoUnknown
					if a.mono == monoConst {
						sq.mono = monoConst
					}
				}
				return sq
			}
			switch {
			case a.mono == monoConst && b.mono == monoConst:
				r.mono = monoConst
			case a.mono == monoConst:
				if a.lo >= 0 {
					r.mono = b.mono
				} else if a.hi <= 0 {
					r.mono = flip(b.mono)
				} else {
					r.mono = monoUnknown
				}
			case b.mono == monoConst:
				if b.lo >= 0 {
					r.mono = a.mono
				} else if b.hi <= 0 {
					r.mono = flip(a.mono)
				} else {
					r.mono = monoUnknown
				}
			case a.mono == b.mono && a.lo >= 0 && b.lo >= 0:
				r.mono = a.mono
			case a.mono == b.mono && a.hi <= 0 && b.hi <= 0:
				r.mono = flip(a.mono)
			default:
				r.mono = monoUnknown
			}
			return r
		case token.QUO:
			// soft-sign idiom e/(c+|e|), c>0: increasing in e, range (-1,1). The denominator, its absolute-value
			// operand and the numerator are taken by value, not by spelling: locals are followed to the expressions
			// they are bound to, and |.|'s argument must denote the same function of the input as the numerator.
			if dx, denv := ai.resolve(x.Y, env); dx != nil {
				if den, ok := dx.(*ast.BinaryExpr); ok && den.Op == token.ADD {
					for _, pr := range [][2]ast.Expr{{den.X, den.Y}, {den.Y, den.X}} {
						cst := ai.eval(pr[0], p, denv)
						cx, cenv := ai.resolve(pr[1], denv)
						if call, ok := cx.(*ast.CallExpr); ok && len(call.Args) == 1 && ai.isMathFunc(call.Fun, "Abs") && cst.bad == "" && cst.mono == monoConst && !cst.nan && cst.lo > 0 &&
							ai.sameValue(call.Args[0], cenv, x.X, env) {
							f := func(v float64) float64 {
								if math.IsInf(v, 0) {
									return math.Copysign(1, v)
								}
								return v / (cst.lo + math.Abs(v))
							}
							return aval{lo: f(a.lo), hi: f(a.hi), mono: a.mono, nan: a.nan}
						}
					}
				}
			}
			if b.lo <= 0 && b.hi >= 0 {
				return aval{bad: "division by an expression whose range [" + fmt.Sprint(b.lo) + "," + fmt.Sprint(b.hi) + "] contains 0"}
			}
			lo, hi := math.Inf(1), math.Inf(-1)
			nan := a.nan || b.nan
			for _, u := range []float64{a.lo, a.hi} {
				for _, v := range []float64{b.lo, b.hi} {
					q := u / v
					if math.IsNaN(q) {
						nan = true
						q = 0
					}
					lo, hi = math.Min(lo, q), math.Max(hi, q)
				}
			}
			r := aval{lo: lo, hi: hi, nan: nan, mono: monoUnknown}
			switch {
			case a.mono == monoConst && b.mono == monoConst:
				r.mono = monoConst
			case a.mono == monoConst:
				// c / g on a sign-definite g
				if a.lo >= 0 {
					r.mono = flip(b.mono)
				} else if a.hi <= 0 {
					r.mono = b.mono
				}
			case b.mono == monoConst:
				if b.lo > 0 {
					r.mono = a.mono
				} else {
					r.mono = flip(a.mono)
				}
			}
			return r
		}
		return aval{bad: "binary operator " + x.Op.String()}
	case *ast.CallExpr:
		if len(x.Args) >= 1 {
			a := ai.eval(x.Args[0], p, env)
			if a.bad != "" {
				return a
			}
			switch {
			case ai.isMathFunc(x.Fun, "Exp"):
				return aval{lo: math.Exp(a.lo), hi: math.Exp(a.hi), mono: a.mono, nan: a.nan}
			case ai.isMathFunc(x.Fun, "Tanh"):
				return aval{lo: math.Tanh(a.lo), hi: math.Tanh(a.hi), mono: a.mono, nan: a.nan}
			case ai.isMathFunc(x.Fun, "Abs"):
				r := aval{nan: a.nan}
				switch {
				case a.lo >= 0:
					r.lo, r.hi, r.mono = a.lo, a.hi, a.mono
				case a.hi <= 0:
					r.lo, r.hi, r.mono = -a.hi, -a.lo, flip(a.mono)
				default:
					r.lo, r.hi, r.mono = 0, math.Max(-a.lo, a.hi), monoUnknown
					if a.mono == monoConst {
						r.mono = monoConst
					}
				}
				return r
			case ai.isMathFunc(x.Fun, "Sin"), ai.isMathFunc(x.Fun, "Cos"):
				if math.IsInf(a.lo, 0) || math.IsInf(a.hi, 0) {
					return aval{lo: -1, hi: 1, mono: monoUnknown, nan: true}
				}
				m := monoUnknown
				if a.mono == monoConst {
					m = monoConst
				}
				return aval{lo: -1, hi: 1, mono: m, nan: a.nan}
			case ai.isMathFunc(x.Fun, "Pow") && len(x.Args) == 2:
				ex := ai.eval(x.Args[1], p, env)
				if ex.bad == "" && ex.mono == monoConst && ex.lo == 2 {
					sq := aval{lo: 0, hi: math.Max(a.lo*a.lo, a.hi*a.hi), nan: a.nan}
					switch {
					case a.lo >= 0:
						sq.lo, sq.mono = a.lo*a.lo, a.mono
					case a.hi <= 0:
						sq.lo, sq.mono = a.hi*a.hi, flip(a.mono)
					default:
						sq.mono = monoUnknown
						if a.mono == monoConst {
							sq.mono = monoConst
						}
					}
					return sq
				}
				return aval{bad: "math.Pow with an exponent other than the constant 2"}
			}
		}
		// conversion float64(x)
		if tv, ok := ai.info.Types[x.Fun]; ok && tv.IsType() && len(x.Args) == 1 {
			return ai.eval(x.Args[0], p, env)
		}
		// call of a pure straight-line helper of the package: its result expression under the parameter bindings
		if rx, renv, ok := pureHelperCall(ai.info, ai.decls, x, env); ok {
			for _, arg := range x.Args {
				if a := ai.eval(arg, p, env); a.bad != "" {
					return a
				}
			}
			ai.depth++
			defer func() { ai.depth-- }()
			if ai.depth > 200 {
				return aval{bad: "helper calls nested too deeply"}
			}
			return ai.eval(rx, p, renv)
		}
		return aval{bad: "call " + types.ExprString(x.Fun) + " is outside the transfer-function table"}
	}
	return aval{bad: fmt.Sprintf("expression %s (%T) is outside the transfer-function table", types.ExprString(e), e)}
}

// resolve follows parentheses and locals to the expression that defines the value of e, and returns it with the
// bindings it has to be read under (nil when a local is bound to a constant supplied from outside or the chain is
// too long). The closure's locals are single-valued at every program point of one state, so the defining
// expression denotes the same value as e.
func (ai *absInterp) resolve(e ast.Expr, env aenv) (ast.Expr, aenv) {
	for n := 0; n < 50; n++ {
		e = unparen(e)
		id, ok := e.(*ast.Ident)
		if !ok {
			return e, env
		}
		obj := ai.info.Uses[id]
		if obj == nil || obj == ai.input {
			return e, env
		}
		b, ok := env[obj]
		if !ok {
			return e, env
		}
		if b.konst != nil {
			return nil, nil
		}
		e, env = b.expr, b.env
	}
	return nil, nil
}

// sameValue reports whether expression a read under envA and expression b read under envB denote the same
// function of the input: both have an algebraic normal form (symnf.go) and the two forms are equal. Only pure
// expressions have a normal form (arithmetic, constants, the input, math.Exp/Tanh/Sin/Abs/Pow), so equal forms
// mean equal values.
func (ai *absInterp) sameValue(a ast.Expr, envA aenv, b ast.Expr, envB aenv) bool {
	na, err := (&nfBuilder{info: ai.info, input: ai.input, env: envA, decls: ai.decls}).build(a)
	if err != nil {
		return false
	}
	nb, err := (&nfBuilder{info: ai.info, input: ai.input, env: envB, decls: ai.decls}).build(b)
	if err != nil {
		return false
	}
	return nfEqual(na, nb)
}

func unparen(e ast.Expr) ast.Expr {
	for {
		p, ok := e.(*ast.ParenExpr)
		if !ok {
			return e
		}
		e = p.X
	}
}

// split refines piece p by condition c into the sub-pieces where c is true / false.
func (ai *absInterp) split(c ast.Expr, p apiece, env aenv) (t, f []apiece, bad string) {
	switch x := unparen(c).(type) {
	case *ast.BinaryExpr:
		switch x.Op {
		case token.LOR:
			t1, f1, b1 := ai.split(x.X, p, env)
			if b1 != "" {
				return nil, nil, b1
			}
			t = append(t, t1...)
			for _, q := range f1 {
				t2, f2, b2 := ai.split(x.Y, q, env)
				if b2 != "" {
					return nil, nil, b2
				}
				t = append(t, t2...)
				f = append(f, f2...)
			}
			return t, f, ""
		case token.LAND:
			t1, f1, b1 := ai.split(x.X, p, env)
			if b1 != "" {
				return nil, nil, b1
			}
			f = append(f, f1...)
			for _, q := range t1 {
				t2, f2, b2 := ai.split(x.Y, q, env)
				if b2 != "" {
					return nil, nil, b2
				}
				t = append(t, t2...)
				f = append(f, f2...)
			}
			return t, f, ""
		case token.LSS, token.LEQ, token.GTR, token.GEQ, token.EQL, token.NEQ:
			lhs, rhs, op := x.X, x.Y, x.Op
			if ai.isInput(rhs, env) && !ai.isInput(lhs, env) {
				lhs, rhs = rhs, lhs
				switch op {
				case token.LSS:
					op = token.GTR
				case token.GTR:
					op = token.LSS
				case token.LEQ:
					op = token.GEQ
				case token.GEQ:
					op = token.LEQ
				}
			}
			if !ai.isInput(lhs, env) {
				return nil, nil, "condition " + types.ExprString(c) + " does not compare the input with a constant"
			}
			cv := ai.eval(rhs, p, env)
			if cv.bad != "" || cv.mono != monoConst {
				return nil, nil, "condition " + types.ExprString(c) + " does not compare the input with a constant"
			}
			k := cv.lo
			keep := func(qs ...apiece) (out []apiece) {
				for _, q := range qs {
					if !q.empty() {
						out = append(out, q)
					}
				}
				return out
			}
			switch op {
			case token.LSS:
				t, f = keep(p.below(k, true)), keep(p.above(k, false))
			case token.LEQ:
				t, f = keep(p.below(k, false)), keep(p.above(k, true))
			case token.GTR:
				t, f = keep(p.above(k, true)), keep(p.below(k, false))
			case token.GEQ:
				t, f = keep(p.above(k, false)), keep(p.below(k, true))
			case token.EQL, token.NEQ:
				eq := keep(p.below(k, false).above(k, false))
				ne := keep(p.below(k, true), p.above(k, true))
				if op == token.EQL {
					t, f = eq, ne
				} else {
					t, f = ne, eq
				}
			}
			return t, f, ""
		}
	case *ast.CallExpr:
		if len(x.Args) == 1 {
			if ai.isInput(x.Args[0], env) {
				switch {
				case ai.isMathFunc(x.Fun, "IsNaN"):
					return nil, []apiece{p}, "" // the domain holds no NaN
				case ai.isMathFunc(x.Fun, "Signbit"):
					// true on the negative inputs and -0, false on +0 and the positive inputs; a bound excluded by an
					// earlier comparison with 0 (which does not tell the two zeros apart) stays excluded
					if p.lo <= 0 {
						q := apiece{lo: p.lo, hi: math.Min(p.hi, math.Copysign(0, -1)), loOpen: p.loOpen, hiOpen: p.hiOpen && p.hi <= 0}
						if !q.empty() {
							t = append(t, q)
						}
					}
					if p.hi >= 0 {
						q := apiece{lo: math.Max(p.lo, 0), hi: p.hi, loOpen: p.loOpen && p.lo >= 0, hiOpen: p.hiOpen}
						if !q.empty() {
							f = append(f, q)
						}
					}
					return t, f, ""
				}
			}
		}
	case *ast.UnaryExpr:
		if x.Op == token.NOT {
			t, f, b := ai.split(x.X, p, env)
			return f, t, b
		}
	}
	return nil, nil, "condition " + types.ExprString(c) + " is outside the condition table"
}

// isInput reports whether e denotes the closure's input value: the parameter
// itself, or a local that is bound to it (an alias such as `v := input`).
func (ai *absInterp) isInput(e ast.Expr, env aenv) bool {
	for n := 0; n < 50; n++ {
		id, ok := unparen(e).(*ast.Ident)
		if !ok {
			return false
		}
		obj := ai.info.Uses[id]
		if obj == ai.input {
			return true
		}
		b, ok := env[obj]
		if !ok || b.konst != nil {
			return false
		}
		e, env = b.expr, b.env
	}
	return false
}

// local reports whether obj is declared inside the function's body (and is not its input): only such variables may be
// assigned, anything else is state that outlives one activation.
func (ai *absInterp) local(obj types.Object) bool {
	return obj != nil && obj != ai.input && ai.body != nil && obj.Pos() >= ai.body.Pos() && obj.Pos() < ai.body.End()
}

// run evaluates the statements from every state in `in`; the states in which control reaches the end of the
// list are returned, every return statement met on the way is recorded in out.
func (ai *absInterp) run(stmts []ast.Stmt, in []astate, out *[]aresult) (fall []astate, bad string) {
	cur := in
	for _, s := range stmts {
		if len(cur) == 0 {
			break // the remaining statements are not reachable
		}
		var next []astate
		for _, st := range cur {
			n, b := ai.step(s, st, out)
			if b != "" {
				return nil, b
			}
			next = append(next, n...)
		}
		cur = next
	}
	return cur, ""
}

// branch splits every state by the disjunction of conds (evaluated left to right, like || and like the
// expression list of a case clause).
func (ai *absInterp) branch(conds []ast.Expr, in []astate) (t, f []astate, bad string) {
	f = in
	for _, c := range conds {
		var rest []astate
		for _, st := range f {
			tp, fp, b := ai.split(c, st.p, st.env)
			if b != "" {
				return nil, nil, b
			}
			for _, q := range tp {
				t = append(t, astate{q, st.env})
			}
			for _, q := range fp {
				rest = append(rest, astate{q, st.env})
			}
		}
		f = rest
	}
	return t, f, ""
}

func (ai *absInterp) assign(lhs ast.Expr, tok token.Token, rhs ast.Expr, st astate, cur aenv) (aenv, string) {
	id, ok := lhs.(*ast.Ident)
	if !ok {
		return nil, "assignment to a non-identifier"
	}
	if id.Name == "_" {
		return cur, ""
	}
	obj := ai.info.Defs[id]
	if obj == nil {
		obj = ai.info.Uses[id]
	}
	if obj == ai.input {
		return nil, "the input parameter is re-assigned"
	}
	if !ai.local(obj) {
		return nil, "assignment to " + id.Name + ", which is not a local of the closure"
	}
	switch tok {
	case token.DEFINE, token.ASSIGN:
	case token.ADD_ASSIGN, token.SUB_ASSIGN, token.MUL_ASSIGN, token.QUO_ASSIGN:
		op := map[token.Token]token.Token{token.ADD_ASSIGN: token.ADD, token.SUB_ASSIGN: token.SUB, token.MUL_ASSIGN: token.MUL, token.QUO_ASSIGN: token.QUO}[tok]
		rhs = &ast.BinaryExpr{X: id, Op: op, Y: &ast.ParenExpr{X: rhs}}
	default:
		return nil, "assignment form outside the table"
	}
	// the right-hand side is evaluated in the bindings before the statement (st.env)
	return cur.with(obj, &abind{expr: rhs, env: st.env}), ""
}

// step evaluates one statement from one state.
func (ai *absInterp) step(s ast.Stmt, st astate, out *[]aresult) (fall []astate, bad string) {
	switch x := s.(type) {
	case *ast.ReturnStmt:
		if len(x.Results) != 1 {
			return nil, "return with other than one result"
		}
		*out = append(*out, aresult{piece: st.p, expr: x.Results[0], env: st.env, val: ai.eval(x.Results[0], st.p, st.env)})
		return nil, ""
	case *ast.EmptyStmt:
		return []astate{st}, ""
	case *ast.BlockStmt:
		return ai.run(x.List, []astate{st}, out)
	case *ast.AssignStmt:
		if len(x.Lhs) != len(x.Rhs) {
			return nil, "assignment form outside the table"
		}
		env := st.env
		for j, l := range x.Lhs {
			var b string
			if env, b = ai.assign(l, x.Tok, x.Rhs[j], st, env); b != "" {
				return nil, b
			}
		}
		return []astate{{st.p, env}}, ""
	case *ast.DeclStmt:
		gd, ok := x.Decl.(*ast.GenDecl)
		if !ok || (gd.Tok != token.VAR && gd.Tok != token.CONST) {
			return nil, "declaration outside the table"
		}
		if gd.Tok == token.CONST {
			return []astate{st}, "" // constants are folded by the type checker
		}
		env := st.env
		for _, sp := range gd.Specs {
			vs, ok := sp.(*ast.ValueSpec)
			if !ok || (len(vs.Values) != 0 && len(vs.Values) != len(vs.Names)) {
				return nil, "declaration outside the table"
			}
			for j, id := range vs.Names {
				if len(vs.Values) == 0 {
					obj := ai.info.Defs[id]
					if obj == nil || !isFloatType(obj.Type()) {
						return nil, "declaration of a non-float local without a value"
					}
					zero := 0.0
					env = env.with(obj, &abind{konst: &zero})
					continue
				}
				var b string
				if env, b = ai.assign(id, token.DEFINE, vs.Values[j], st, env); b != "" {
					return nil, b
				}
			}
		}
		return []astate{{st.p, env}}, ""
	case *ast.IfStmt:
		in := []astate{st}
		if x.Init != nil {
			var b string
			if in, b = ai.step(x.Init, st, out); b != "" {
				return nil, b
			}
		}
		t, f, b := ai.branch([]ast.Expr{x.Cond}, in)
		if b != "" {
			return nil, b
		}
		if fall, b = ai.run(x.Body.List, t, out); b != "" {
			return nil, b
		}
		switch e := x.Else.(type) {
		case nil:
			fall = append(fall, f...)
		case *ast.BlockStmt, *ast.IfStmt:
			fe, b := ai.run([]ast.Stmt{e}, f, out)
			if b != "" {
				return nil, b
			}
			fall = append(fall, fe...)
		default:
			return nil, "else form outside the table"
		}
		return fall, ""
	case *ast.SwitchStmt:
		// tagless switch: the case clauses are tried in source order, the first true one runs, default runs when none is
		if x.Tag != nil {
			return nil, "switch with a tag expression"
		}
		in := []astate{st}
		if x.Init != nil {
			var b string
			if in, b = ai.step(x.Init, st, out); b != "" {
				return nil, b
			}
		}
		var deflt *ast.CaseClause
		for _, c := range x.Body.List {
			cc, ok := c.(*ast.CaseClause)
			if !ok {
				return nil, "switch clause outside the table"
			}
			if cc.List == nil {
				deflt = cc
				continue
			}
			t, f, b := ai.branch(cc.List, in)
			if b != "" {
				return nil, b
			}
			ft, b := ai.run(cc.Body, t, out) // break / fallthrough are statements outside the table
			if b != "" {
				return nil, b
			}
			fall = append(fall, ft...)
			in = f
		}
		if deflt != nil {
			ft, b := ai.run(deflt.Body, in, out)
			if b != "" {
				return nil, b
			}
			fall = append(fall, ft...)
		} else {
			fall = append(fall, in...)
		}
		return fall, ""
	case *ast.LabeledStmt:
		// `L: for { body }` without init, condition and post statement, left only by `break L` (or a return): the
		// block form the source normalisation gives to an inlined helper. The body runs once from the state before
		// it; control continues after the loop in the states that execute `break L`. A state that reaches the end
		// of the body would start another iteration - that is a real loop and outside the table.
		fs, ok := x.Stmt.(*ast.ForStmt)
		lbl := ai.info.Defs[x.Label]
		if !ok || fs.Init != nil || fs.Cond != nil || fs.Post != nil || lbl == nil {
			return nil, "labelled statement other than a `for { ... }` block"
		}
		var exits []astate
		if ai.exits == nil {
			ai.exits = map[types.Object]*[]astate{}
		}
		ai.exits[lbl] = &exits
		again, b := ai.run(fs.Body.List, []astate{st}, out)
		delete(ai.exits, lbl)
		if b != "" {
			return nil, b
		}
		for _, a := range again {
			if !a.p.empty() {
				return nil, "a loop whose body can run more than once"
			}
		}
		return exits, ""
	case *ast.BranchStmt:
		if x.Tok == token.BREAK && x.Label != nil {
			if c := ai.exits[ai.info.Uses[x.Label]]; c != nil {
				*c = append(*c, st)
				return nil, ""
			}
		}
		return nil, "branch statement " + x.Tok.String() + " outside the table"
	}
	return nil, fmt.Sprintf("statement %T is outside the table", s)
}

func isFloatType(t types.Type) bool {
	b, ok := t.Underlying().(*types.Basic)
	return ok && b.Info()&types.IsFloat != 0
}

// analyseScalar interprets a scalar activation function (the type and body of a function literal or of a declared
// function) over [-1e300, 1e300]. bind gives the constants that variables captured from a closure factory are known
// to hold (nil for a plain function). The input is the first parameter; when it is blank or unnamed the body cannot
// mention it, and the function is interpreted as one that ignores its input.
func analyseScalar(info *types.Info, decls helperDecls, ftype *ast.FuncType, body *ast.BlockStmt, bind aenv) (res []aresult, ai *absInterp, bad string) {
	if ftype == nil || body == nil || ftype.Params == nil || len(ftype.Params.List) == 0 {
		return nil, nil, "no input parameter"
	}
	var input types.Object
	if first := ftype.Params.List[0]; len(first.Names) > 0 && first.Names[0].Name != "_" {
		input = info.Defs[first.Names[0]]
		if input == nil {
			return nil, nil, "the input parameter does not resolve"
		}
	} else {
		input = types.NewVar(token.NoPos, nil, "_", types.Typ[types.Float64]) // identical to no identifier of the body
	}
	ai = &absInterp{info: info, input: input, body: body, decls: decls}
	if bind == nil {
		bind = aenv{}
	}
	ft, b := ai.run(body.List, []astate{{apiece{lo: -1e300, hi: 1e300}, bind}}, &res)
	if b != "" {
		return nil, ai, b
	}
	for _, st := range ft {
		if !st.p.empty() {
			return nil, ai, "control can reach the end of the function without a return"
		}
	}
	sort.SliceStable(res, func(i, j int) bool {
		if res[i].piece.lo != res[j].piece.lo {
			return res[i].piece.lo < res[j].piece.lo
		}
		return res[i].piece.hi < res[j].piece.hi
	})
	return res, ai, ""
}

func typesExprString(e ast.Expr) string { return types.ExprString(e) }
