package nc

import (
	"fmt"
	"go/ast"
	"go/constant"
	"go/token"
	"go/types"
	"math"
	"sort"
)

// Abstract interpretation of the scalar activation closures: interval ×
// monotonicity × may-NaN with respect to the single float input, evaluated
// piecewise over the input domain split at the constants the function tests.

const (
	monoConst = iota
	monoInc
	monoDec
	monoUnknown
)

func monoName(m int) string {
	return [...]string{"constant", "non-decreasing", "non-increasing", "not monotone / unknown"}[m]
}

type aval struct {
	lo, hi float64
	mono   int
	nan    bool
	bad    string // construct outside the table: the obligation is undecided
}

type apiece struct{ lo, hi float64 }

type aresult struct {
	piece apiece
	expr  ast.Expr
	env   map[types.Object]aval
	val   aval
}

type absInterp struct {
	info  *types.Info
	input types.Object
	fset  *token.FileSet
}

func flip(m int) int {
	switch m {
	case monoInc:
		return monoDec
	case monoDec:
		return monoInc
	}
	return m
}

func addMono(a, b int) int {
	switch {
	case a == monoConst:
		return b
	case b == monoConst:
		return a
	case a == b:
		return a
	}
	return monoUnknown
}

func (ai *absInterp) isMathFunc(e ast.Expr, name string) bool {
	sel, ok := e.(*ast.SelectorExpr)
	if !ok {
		return false
	}
	f, ok := ai.info.Uses[sel.Sel].(*types.Func)
	return ok && f.Pkg() != nil && f.Pkg().Path() == "math" && f.Name() == name
}

func mulBounds(a, b aval) (lo, hi float64, nan bool) {
	lo, hi = math.Inf(1), math.Inf(-1)
	for _, x := range []float64{a.lo, a.hi} {
		for _, y := range []float64{b.lo, b.hi} {
			p := x * y
			if math.IsNaN(p) { // 0 * inf
				nan = true
				p = 0
			}
			lo, hi = math.Min(lo, p), math.Max(hi, p)
		}
	}
	return
}

func (ai *absInterp) eval(e ast.Expr, p apiece, env map[types.Object]aval) aval {
	switch x := e.(type) {
	case *ast.ParenExpr:
		return ai.eval(x.X, p, env)
	case *ast.BasicLit:
		tv := ai.info.Types[x]
		if tv.Value != nil {
			f, _ := constant.Float64Val(tv.Value)
			return aval{lo: f, hi: f, mono: monoConst}
		}
	case *ast.Ident:
		obj := ai.info.Uses[x]
		if obj == ai.input {
			return aval{lo: p.lo, hi: p.hi, mono: monoInc}
		}
		if v, ok := env[obj]; ok {
			return v
		}
		if c, ok := obj.(*types.Const); ok {
			f, _ := constant.Float64Val(c.Val())
			return aval{lo: f, hi: f, mono: monoConst}
		}
		return aval{bad: "identifier " + x.Name + " is not the input, a local constant or a constant"}
	case *ast.UnaryExpr:
		v := ai.eval(x.X, p, env)
		if v.bad != "" {
			return v
		}
		switch x.Op {
		case token.SUB:
			return aval{lo: -v.hi, hi: -v.lo, mono: flip(v.mono), nan: v.nan}
		case token.ADD:
			return v
		}
		return aval{bad: "unary " + x.Op.String()}
	case *ast.BinaryExpr:
		// constant-folded by the type checker?
		if tv, ok := ai.info.Types[x]; ok && tv.Value != nil {
			f, _ := constant.Float64Val(tv.Value)
			return aval{lo: f, hi: f, mono: monoConst}
		}
		a, b := ai.eval(x.X, p, env), ai.eval(x.Y, p, env)
		if a.bad != "" {
			return a
		}
		if b.bad != "" {
			return b
		}
		switch x.Op {
		case token.ADD:
			r := aval{lo: a.lo + b.lo, hi: a.hi + b.hi, mono: addMono(a.mono, b.mono), nan: a.nan || b.nan}
			if math.IsNaN(r.lo) || math.IsNaN(r.hi) {
				r.nan = true
			}
			return r
		case token.SUB:
			nb := aval{lo: -b.hi, hi: -b.lo, mono: flip(b.mono), nan: b.nan}
			r := aval{lo: a.lo + nb.lo, hi: a.hi + nb.hi, mono: addMono(a.mono, nb.mono), nan: a.nan || b.nan}
			if math.IsNaN(r.lo) || math.IsNaN(r.hi) {
				r.nan = true
			}
			return r
		case token.MUL:
			lo, hi, nan := mulBounds(a, b)
			r := aval{lo: lo, hi: hi, nan: a.nan || b.nan || nan}
			// square idiom: e*e with structurally equal operands
			if types.ExprString(x.X) == types.ExprString(x.Y) {
				sq := aval{lo: 0, hi: math.Max(a.lo*a.lo, a.hi*a.hi), nan: a.nan}
				switch {
				case a.lo >= 0:
					sq.lo, sq.mono = a.lo*a.lo, a.mono
				case a.hi <= 0:
					sq.lo, sq.mono = a.hi*a.hi, flip(a.mono)
				default:
					sq.mono = monoUnknown
					if a.mono == monoConst {
						sq.mono = monoConst
					}
				}
				return sq
			}
			switch {
			case a.mono == monoConst && b.mono == monoConst:
				r.mono = monoConst
			case a.mono == monoConst:
				if a.lo >= 0 {
					r.mono = b.mono
				} else if a.hi <= 0 {
					r.mono = flip(b.mono)
				} else {
					r.mono = monoUnknown
				}
			case b.mono == monoConst:
				if b.lo >= 0 {
					r.mono = a.mono
				} else if b.hi <= 0 {
					r.mono = flip(a.mono)
				} else {
					r.mono = monoUnknown
				}
			case a.mono == b.mono && a.lo >= 0 && b.lo >= 0:
				r.mono = a.mono
			case a.mono == b.mono && a.hi <= 0 && b.hi <= 0:
				r.mono = flip(a.mono)
			default:
				r.mono = monoUnknown
			}
			return r
		case token.QUO:
			// soft-sign idiom e/(c+|e|), c>0: increasing in e, range (-1,1)
			if den, ok := unparen(x.Y).(*ast.BinaryExpr); ok && den.Op == token.ADD {
				for _, pr := range [][2]ast.Expr{{den.X, den.Y}, {den.Y, den.X}} {
					cst := ai.eval(pr[0], p, env)
					if call, ok := unparen(pr[1]).(*ast.CallExpr); ok && ai.isMathFunc(call.Fun, "Abs") && cst.bad == "" && cst.mono == monoConst && cst.lo > 0 &&
						types.ExprString(call.Args[0]) == types.ExprString(x.X) {
						f := func(v float64) float64 {
							if math.IsInf(v, 0) {
								return math.Copysign(1, v)
							}
							return v / (cst.lo + math.Abs(v))
						}
						return aval{lo: f(a.lo), hi: f(a.hi), mono: a.mono, nan: a.nan}
					}
				}
			}
			if b.lo <= 0 && b.hi >= 0 {
				return aval{bad: "division by an expression whose range [" + fmt.Sprint(b.lo) + "," + fmt.Sprint(b.hi) + "] contains 0"}
			}
			lo, hi := math.Inf(1), math.Inf(-1)
			nan := a.nan || b.nan
			for _, u := range []float64{a.lo, a.hi} {
				for _, v := range []float64{b.lo, b.hi} {
					q := u / v
					if math.IsNaN(q) {
						nan = true
						q = 0
					}
					lo, hi = math.Min(lo, q), math.Max(hi, q)
				}
			}
			r := aval{lo: lo, hi: hi, nan: nan, mono: monoUnknown}
			switch {
			case a.mono == monoConst && b.mono == monoConst:
				r.mono = monoConst
			case a.mono == monoConst:
				// c / g on a sign-definite g
				if a.lo >= 0 {
					r.mono = flip(b.mono)
				} else if a.hi <= 0 {
					r.mono = b.mono
				}
			case b.mono == monoConst:
				if b.lo > 0 {
					r.mono = a.mono
				} else {
					r.mono = flip(a.mono)
				}
			}
			return r
		}
		return aval{bad: "binary operator " + x.Op.String()}
	case *ast.CallExpr:
		if len(x.Args) >= 1 {
			a := ai.eval(x.Args[0], p, env)
			if a.bad != "" {
				return a
			}
			switch {
			case ai.isMathFunc(x.Fun, "Exp"):
				return aval{lo: math.Exp(a.lo), hi: math.Exp(a.hi), mono: a.mono, nan: a.nan}
			case ai.isMathFunc(x.Fun, "Tanh"):
				return aval{lo: math.Tanh(a.lo), hi: math.Tanh(a.hi), mono: a.mono, nan: a.nan}
			case ai.isMathFunc(x.Fun, "Abs"):
				r := aval{nan: a.nan}
				switch {
				case a.lo >= 0:
					r.lo, r.hi, r.mono = a.lo, a.hi, a.mono
				case a.hi <= 0:
					r.lo, r.hi, r.mono = -a.hi, -a.lo, flip(a.mono)
				default:
					r.lo, r.hi, r.mono = 0, math.Max(-a.lo, a.hi), monoUnknown
					if a.mono == monoConst {
						r.mono = monoConst
					}
				}
				return r
			case ai.isMathFunc(x.Fun, "Sin"), ai.isMathFunc(x.Fun, "Cos"):
				if math.IsInf(a.lo, 0) || math.IsInf(a.hi, 0) {
					return aval{lo: -1, hi: 1, mono: monoUnknown, nan: true}
				}
				m := monoUnknown
				if a.mono == monoConst {
					m = monoConst
				}
				return aval{lo: -1, hi: 1, mono: m, nan: a.nan}
			case ai.isMathFunc(x.Fun, "Pow") && len(x.Args) == 2:
				ex := ai.eval(x.Args[1], p, env)
				if ex.bad == "" && ex.mono == monoConst && ex.lo == 2 {
					sq := aval{lo: 0, hi: math.Max(a.lo*a.lo, a.hi*a.hi), nan: a.nan}
					switch {
					case a.lo >= 0:
						sq.lo, sq.mono = a.lo*a.lo, a.mono
					case a.hi <= 0:
						sq.lo, sq.mono = a.hi*a.hi, flip(a.mono)
					default:
						sq.mono = monoUnknown
						if a.mono == monoConst {
							sq.mono = monoConst
						}
					}
					return sq
				}
				return aval{bad: "math.Pow with an exponent other than the constant 2"}
			}
		}
		// conversion float64(x)
		if tv, ok := ai.info.Types[x.Fun]; ok && tv.IsType() && len(x.Args) == 1 {
			return ai.eval(x.Args[0], p, env)
		}
		return aval{bad: "call " + types.ExprString(x.Fun) + " is outside the transfer-function table"}
	}
	return aval{bad: fmt.Sprintf("expression %s (%T) is outside the transfer-function table", types.ExprString(e), e)}
}

func unparen(e ast.Expr) ast.Expr {
	for {
		p, ok := e.(*ast.ParenExpr)
		if !ok {
			return e
		}
		e = p.X
	}
}

// split refines piece p by condition c into the sub-pieces where c is true / false.
func (ai *absInterp) split(c ast.Expr, p apiece, env map[types.Object]aval) (t, f []apiece, bad string) {
	switch x := unparen(c).(type) {
	case *ast.BinaryExpr:
		switch x.Op {
		case token.LOR:
			t1, f1, b1 := ai.split(x.X, p, env)
			if b1 != "" {
				return nil, nil, b1
			}
			t = append(t, t1...)
			for _, q := range f1 {
				t2, f2, b2 := ai.split(x.Y, q, env)
				if b2 != "" {
					return nil, nil, b2
				}
				t = append(t, t2...)
				f = append(f, f2...)
			}
			return t, f, ""
		case token.LAND:
			t1, f1, b1 := ai.split(x.X, p, env)
			if b1 != "" {
				return nil, nil, b1
			}
			f = append(f, f1...)
			for _, q := range t1 {
				t2, f2, b2 := ai.split(x.Y, q, env)
				if b2 != "" {
					return nil, nil, b2
				}
				t = append(t, t2...)
				f = append(f, f2...)
			}
			return t, f, ""
		case token.LSS, token.LEQ, token.GTR, token.GEQ, token.EQL, token.NEQ:
			lhs, rhs, op := x.X, x.Y, x.Op
			if id, ok := unparen(rhs).(*ast.Ident); ok && ai.info.Uses[id] == ai.input {
				lhs, rhs = rhs, lhs
				switch op {
				case token.LSS:
					op = token.GTR
				case token.GTR:
					op = token.LSS
				case token.LEQ:
					op = token.GEQ
				case token.GEQ:
					op = token.LEQ
				}
			}
			id, ok := unparen(lhs).(*ast.Ident)
			if !ok || ai.info.Uses[id] != ai.input {
				return nil, nil, "condition " + types.ExprString(c) + " does not compare the input with a constant"
			}
			cv := ai.eval(rhs, p, env)
			if cv.bad != "" || cv.mono != monoConst {
				return nil, nil, "condition " + types.ExprString(c) + " does not compare the input with a constant"
			}
			k := cv.lo
			below := apiece{p.lo, math.Min(p.hi, k)}
			above := apiece{math.Max(p.lo, k), p.hi}
			pt := apiece{k, k}
			nonEmpty := func(q apiece) bool { return q.lo <= q.hi }
			switch op {
			case token.LSS, token.LEQ:
				if nonEmpty(below) && !(op == token.LSS && below.lo == k && below.hi == k) {
					t = append(t, below)
				}
				if nonEmpty(above) {
					f = append(f, above)
				}
			case token.GTR, token.GEQ:
				if nonEmpty(above) && !(op == token.GTR && above.lo == k && above.hi == k) {
					t = append(t, above)
				}
				if nonEmpty(below) {
					f = append(f, below)
				}
			case token.EQL, token.NEQ:
				var eq, ne []apiece
				if k >= p.lo && k <= p.hi {
					eq = append(eq, pt)
				}
				if p.lo < k {
					ne = append(ne, apiece{p.lo, math.Min(p.hi, k)})
				}
				if p.hi > k {
					ne = append(ne, apiece{math.Max(p.lo, k), p.hi})
				}
				if op == token.EQL {
					t, f = eq, ne
				} else {
					t, f = ne, eq
				}
			}
			return t, f, ""
		}
	case *ast.CallExpr:
		if len(x.Args) == 1 {
			if id, ok := unparen(x.Args[0]).(*ast.Ident); ok && ai.info.Uses[id] == ai.input {
				switch {
				case ai.isMathFunc(x.Fun, "IsNaN"):
					return nil, []apiece{p}, "" // the domain holds no NaN
				case ai.isMathFunc(x.Fun, "Signbit"):
					if p.lo <= 0 {
						t = append(t, apiece{p.lo, math.Min(p.hi, math.Copysign(0, -1))})
					}
					if p.hi >= 0 {
						f = append(f, apiece{math.Max(p.lo, 0), p.hi})
					}
					return t, f, ""
				}
			}
		}
	case *ast.UnaryExpr:
		if x.Op == token.NOT {
			t, f, b := ai.split(x.X, p, env)
			return f, t, b
		}
	}
	return nil, nil, "condition " + types.ExprString(c) + " is outside the condition table"
}

// run evaluates the statements on piece p; falls through are reported.
func (ai *absInterp) run(stmts []ast.Stmt, p apiece, env map[types.Object]aval, out *[]aresult) (fallsThrough bool, bad string) {
	for i, s := range stmts {
		switch x := s.(type) {
		case *ast.ReturnStmt:
			if len(x.Results) != 1 {
				return false, "return with other than one result"
			}
			*out = append(*out, aresult{piece: p, expr: x.Results[0], env: env, val: ai.eval(x.Results[0], p, env)})
			return false, ""
		case *ast.AssignStmt:
			if x.Tok != token.DEFINE && x.Tok != token.ASSIGN || len(x.Lhs) != len(x.Rhs) {
				return false, "assignment form outside the table"
			}
			env2 := map[types.Object]aval{}
			for k, v := range env {
				env2[k] = v
			}
			for j, l := range x.Lhs {
				id, ok := l.(*ast.Ident)
				if !ok {
					return false, "assignment to a non-identifier"
				}
				obj := ai.info.Defs[id]
				if obj == nil {
					obj = ai.info.Uses[id]
				}
				env2[obj] = ai.eval(x.Rhs[j], p, env)
			}
			env = env2
		case *ast.IfStmt:
			if x.Init != nil {
				return false, "if with an init statement"
			}
			tp, fp, b := ai.split(x.Cond, p, env)
			if b != "" {
				return false, b
			}
			rest := stmts[i+1:]
			for _, q := range tp {
				ft, b := ai.run(x.Body.List, q, env, out)
				if b != "" {
					return false, b
				}
				if ft {
					if ft2, b := ai.run(rest, q, env, out); b != "" || ft2 {
						return ft2, b
					}
				}
			}
			for _, q := range fp {
				var ft bool
				var b string
				switch e := x.Else.(type) {
				case nil:
					ft = true
				case *ast.BlockStmt:
					ft, b = ai.run(e.List, q, env, out)
				case *ast.IfStmt:
					ft, b = ai.run([]ast.Stmt{e}, q, env, out)
				}
				if b != "" {
					return false, b
				}
				if ft {
					if ft2, b := ai.run(rest, q, env, out); b != "" || ft2 {
						return ft2, b
					}
				}
			}
			return false, ""
		default:
			return false, fmt.Sprintf("statement %T is outside the table", s)
		}
	}
	return true, ""
}

// analyseScalar interprets a scalar activation closure over [-1e300, 1e300].
func analyseScalar(info *types.Info, lit *ast.FuncLit) (res []aresult, ai *absInterp, bad string) {
	if lit.Type.Params == nil || len(lit.Type.Params.List) == 0 || len(lit.Type.Params.List[0].Names) == 0 {
		return nil, nil, "no input parameter"
	}
	ai = &absInterp{info: info, input: info.Defs[lit.Type.Params.List[0].Names[0]]}
	ft, b := ai.run(lit.Body.List, apiece{-1e300, 1e300}, map[types.Object]aval{}, &res)
	if b != "" {
		return nil, ai, b
	}
	if ft {
		return nil, ai, "control can reach the end of the function without a return"
	}
	sort.SliceStable(res, func(i, j int) bool {
		if res[i].piece.lo != res[j].piece.lo {
			return res[i].piece.lo < res[j].piece.lo
		}
		return res[i].piece.hi < res[j].piece.hi
	})
	return res, ai, ""
}

func typesExprString(e ast.Expr) string { return types.ExprString(e) }
