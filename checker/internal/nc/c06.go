package nc

import (
	"fmt"
	"go/token"
	"go/types"
	"strings"

	"golang.org/x/tools/go/ssa"
)

func init() { register("C06", C06) }

// copyCtor describes one copy constructor: source parameter 0, result type.
type copyCtor struct {
	pkg, fn  string
	tpkg, tn string
	// fields that are not copied from the source, with the reason class
	exempt map[string]string // field -> runtime | rebuilt | never-written | derived:<what>
}

var copyCtors = []copyCtor{
	{PkgG, "NewGeneCopy", PkgG, "Gene", map[string]string{"Link": "nested"}},
	{PkgN, "NewLinkCopy", PkgN, "Link", map[string]string{"Params": "derived:trait", "IsTimeDelayed": "never-written"}},
	{PkgN, "NewNNodeCopy", PkgN, "NNode", map[string]string{
		"Activation": "runtime", "ActivationsCount": "runtime", "ActivationSum": "runtime",
		"Incoming": "rebuilt", "Outgoing": "rebuilt", "PhenotypeAnalogue": "runtime", "visited": "runtime",
		"Params": "never-written", "lastActivation": "runtime", "lastActivation2": "runtime", "isActive": "runtime"}},
	{PkgT, "NewTraitCopy", PkgT, "Trait", map[string]string{"Params": "elementwise"}},
	{PkgG, "NewMIMOGeneCopy", PkgG, "MIMOControlGene", map[string]string{"ioNodes": "derived:control-node"}},
}

// checkCopiedField decides one field of a copy constructor's summary.
// src is the term of the source object (p0, or p0.Link for the nested link).
func (r *Run) checkCopiedField(sums *Summaries, cc copyCtor, sm *Summary, f *types.Var, src *Term, exempt map[string]string, label, pos string) {
	p := r.P
	r.FieldsChecked++
	construct := label + "." + f.Name()
	t, written := sm.Fields[f]
	// (i) copied from the same field of the source
	if written {
		ok := true
		for _, alt := range t.Alternatives() {
			if !isFieldOfBase(alt, f, src) {
				ok = false
			}
		}
		if ok {
			r.OK(construct, pos, fmt.Sprintf("%s <- %s (same field of the source)", f.Name(), t))
			return
		}
		// (ii) override parameter of the field's type
		if (t.Op == "param" || t.Op == "recv") && !isParamIdx(t, 0) {
			if pv, ok := t.V.(*ssa.Parameter); ok && types.Identical(pv.Type(), f.Type()) {
				r.OK(construct, pos, fmt.Sprintf("%s <- parameter %q (remapped value supplied by the caller)", f.Name(), pv.Name()))
				return
			}
		}
	}
	why, listed := exempt[f.Name()]
	if !listed {
		if !written {
			r.Bad(construct, pos, fmt.Sprintf("field %s of %s is not copied by %s (left at its zero value) and is not in the exemption table", f.Name(), cc.tn, cc.fn))
		} else {
			r.Bad(construct, pos, fmt.Sprintf("field %s of the copy gets %s instead of the source's %s.%s", f.Name(), t, src, f.Name()))
		}
		return
	}
	switch {
	case why == "runtime":
		if written && !(t.Op == "const") {
			r.Bad(construct, pos, fmt.Sprintf("run-time field %s of the copy is initialised from %s; a fresh copy must not inherit activation state", f.Name(), t))
			return
		}
		r.OK(construct, pos, "run-time state, starts at its zero value in the copy")
	case why == "rebuilt":
		if !written || !sums.isFreshTerm(t) {
			r.Bad(construct, pos, fmt.Sprintf("%s of the copy is %v, expected a fresh empty list (links are re-created by the caller)", f.Name(), t))
			return
		}
		r.OK(construct, pos, fmt.Sprintf("%s <- %s (fresh; rebuilt by the caller)", f.Name(), t))
	case why == "never-written":
		if written {
			r.Bad(construct, pos, fmt.Sprintf("%s is written (%s) but the table lists it as never written", f.Name(), t))
			return
		}
		if w := p.storesToFieldAnywhere(f); len(w) > 0 {
			r.Bad(construct, pos, fmt.Sprintf("%s.%s is not copied; the exemption 'nothing in the repository ever writes it' no longer holds: %s", cc.tn, f.Name(), strings.Join(w, "; ")))
			return
		}
		r.OK(construct, pos, "not copied; re-verified: no store to this field anywhere in non-test code")
	case why == "derived:trait":
		// Link.Params is a fresh slice whose elements are the Params of the trait stored in Link.Trait
		tr := sm.Fields[p.Field(PkgN, "Link", "Trait")]
		el := sm.Elems[f]
		elWhy := ""
		if el == nil && written && sm.Fn != nil && sm.Fn.Name() == cc.fn {
			// the filled slice reaches the field through phis / a nested constructor (summary.go only follows a
			// make that is stored directly): same claim, established on the SSA of the constructor chain
			el, elWhy = c06CtorElems(sums, sm.Fn, f, 0)
		}
		ok := tr != nil && el != nil
		if ok {
			for _, a := range t.Alternatives() {
				if !(a.Op == "make" || (a.Op == "const" && a.Name == "zero") || a.Op == "nil") {
					ok = false
				}
			}
			for _, a := range el.Alternatives() {
				base, path := a.Args[0].FieldPath()
				if a.Op != "elem" || len(path) == 0 || path[len(path)-1] != "Params" {
					ok = false
					continue
				}
				// base.<path-1> must be the trait value
				pre := a.Args[0].Args[0].String()
				_ = base
				trOK := false
				for _, ta := range tr.Alternatives() {
					if ta.String() == pre {
						trOK = true
					}
				}
				if !trOK {
					ok = false
				}
			}
		}
		if !ok {
			if elWhy != "" {
				elWhy = " (" + elWhy + ")"
			}
			r.Bad(construct, pos, fmt.Sprintf("Link.Params = %v with elements %v is not a fresh copy of the parameters of the link's trait %v%s", t, el, tr, elWhy))
			return
		}
		r.OK(construct, pos, fmt.Sprintf("Params <- fresh slice, elements copied from %s (the trait stored in the link)", el))
	case why == "elementwise":
		el := sm.Elems[f]
		ok := written && t.Op == "make" && el != nil && el.Op == "elem" && isFieldOfBase(el.Args[0], f, src)
		if !ok {
			r.Bad(construct, pos, fmt.Sprintf("%s of the copy is %v with elements %v; expected a fresh slice with the source's elements copied by value", f.Name(), t, el))
			return
		}
		r.OK(construct, pos, fmt.Sprintf("%s <- fresh %s, elements <- %s", f.Name(), t, el))
	case why == "derived:control-node":
		// ioNodes is rebuilt from the (new) control node's links
		if !written {
			r.Bad(construct, pos, "ioNodes is not rebuilt")
			return
		}
		if t.Has(func(x *Term) bool { return isParamIdx(x, 0) }) {
			r.Bad(construct, pos, fmt.Sprintf("ioNodes of the copy is built from the source gene (%s), i.e. it lists the source genome's nodes", t))
			return
		}
		r.OK(construct, pos, "ioNodes rebuilt from the new control node's links")
	default:
		r.Undecided(construct, pos, "unknown exemption class "+why)
	}
}

// C06 — duplicating a genome gives an exact, independent copy.
func C06(p *Prog, r *Run) {
	r.Explanation = "Decided: (1) every field of Gene, Link, NNode, Trait and MIMOControlGene is carried into the copy by its copy constructor (constructor summaries over go/ssa: same field of the source, a remapped value supplied by the caller, a derived value, or an exemption that is itself re-verified); (2) Genome.duplicate builds traits, nodes, genes and modules element-wise with those constructors, same length and index; (3) trait and node references of the copy are looked up in the duplicate's own trait list / node map by the id of the corresponding source object and no pointer, slice or map rooted at the source is stored in the result; (4) Population.spawn applies only mutateLinkWeights to the duplicate, whose transitive write set is {Link.ConnectionWeight, Gene.MutationNum}. Not decided: equality of values relies on the semantics of assignment and copy(); behaviour of code outside these functions."
	sums := NewSummaries(p)

	r.Rule("C06.1", "copy-field completeness: each field of a copied struct is assigned from the same field of the source, from a remapped override parameter, derived, or exempt with a re-verified reason", func() {
		n := 0
		for _, cc := range copyCtors {
			fn := p.Func(cc.pkg, cc.fn)
			r.Fn(FuncName(fn))
			sm := sums.Ctor(fn)
			pos := p.Pos(fn.Pos())
			if sm.Why != "" {
				r.Undecided(cc.fn, pos, "no constructor summary: "+sm.Why)
				continue
			}
			if !sm.Fresh {
				r.Bad(cc.fn, pos, "the copy constructor does not return a freshly allocated object")
				continue
			}
			n++
			src := &Term{Op: "param", Idx: 0}
			for _, f := range p.Fields(cc.tpkg, cc.tn) {
				if cc.exempt[f.Name()] == "nested" {
					// Gene.Link: a link built by a summarised constructor from the source's link
					lt := sm.Fields[f]
					var call *ssa.Call
					if lt != nil {
						call, _ = lt.V.(*ssa.Call)
					}
					if call == nil || call.Call.StaticCallee() == nil {
						r.Bad(cc.fn+"."+f.Name(), pos, fmt.Sprintf("Link of the copy is %v, expected a new link built from the source gene's link", lt))
						continue
					}
					inner := sums.Ctor(call.Call.StaticCallee())
					if inner.Why != "" || !inner.Fresh {
						r.Undecided(cc.fn+"."+f.Name(), pos, "link constructor has no fresh summary: "+inner.Why)
						continue
					}
					exp := &Summary{Fn: inner.Fn, Type: inner.Type, Fields: map[*types.Var]*Term{}, Elems: map[*types.Var]*Term{}}
					for k, v := range inner.Fields {
						exp.Fields[k] = Subst(v, lt.Args)
					}
					for k, v := range inner.Elems {
						exp.Elems[k] = Subst(v, lt.Args)
					}
					if pf := p.Field(PkgN, "Link", "Params"); exp.Elems[pf] == nil && inner.Fields[pf] != nil {
						// filled slice handed to the field through phis / a nested constructor: see c06CtorElems
						if el, _ := c06CtorElems(sums, inner.Fn, pf, 0); el != nil {
							exp.Elems[pf] = Subst(el, lt.Args)
						}
					}
					lsrc := &Term{Op: "field", Name: f.Name(), Obj: f, Args: []*Term{src}}
					lcc := copyCtor{tn: "Link", fn: cc.fn + "→" + inner.Fn.Name()}
					for _, lf := range p.Fields(PkgN, "Link") {
						r.checkCopiedField(sums, lcc, exp, lf, lsrc, copyCtors[1].exempt, cc.fn+".Link", pos)
					}
					continue
				}
				r.checkCopiedField(sums, cc, sm, f, src, cc.exempt, cc.fn, pos)
			}
		}
		r.Floor("copy constructors", n, 5)
	})

	r.Rule("C06.2", "element-wise duplication: duplicate builds traits, nodes, genes and modules with the copy constructors over the elements of the source lists, same length and index, and assembles the new genome from exactly those lists", func() {
		dup := p.Func(PkgG, "Genome.duplicate")
		if flat := p.FuncOpt(PkgG, "Genome.duplicate__flat"); flat != nil {
			r.Fn(FuncName(dup))
			r.c06Elementwise(sums, dup, flat)
			return
		}
		dupNodes := p.Func(PkgG, "Genome.duplicateNodes")
		dupGenes := p.Func(PkgG, "Genome.duplicateGenes")
		dupCG := p.Func(PkgG, "Genome.duplicateControlGenes")
		r.Fn(FuncName(dup), FuncName(dupNodes), FuncName(dupGenes), FuncName(dupCG))
		pos := p.Pos(dup.Pos())
		sm := sums.Ctor(dup)
		if sm.Why != "" {
			r.Undecided("duplicate", pos, "no summary: "+sm.Why)
			return
		}
		gf := func(n string) *types.Var { return p.Field(PkgG, "Genome", n) }
		// Id
		idT := sm.Fields[gf("Id")]
		r.Check(idT != nil && idT.Op == "param" && idT.Idx == 1, "duplicate.Id", pos, "Id <- the newId parameter", fmt.Sprintf("Id of the duplicate is %v, expected the newId parameter", idT))
		// Traits: element-wise NewTraitCopy
		r.elementwise(sums, dup, sm.Fields[gf("Traits")], gf("Traits"), p.Func(PkgT, "NewTraitCopy"), "duplicate.Traits")
		// Nodes / nodeByIdMap from one duplicateNodes call fed with the duplicated traits
		nodesT, mapT, genesT, cgT := sm.Fields[gf("Nodes")], sm.Fields[gf("nodeByIdMap")], sm.Fields[gf("Genes")], sm.Fields[gf("ControlGenes")]
		okNodes := nodesT != nil && mapT != nil && nodesT.Op == "extract" && mapT.Op == "extract" && nodesT.Idx == 0 && mapT.Idx == 1 &&
			nodesT.Args[0].V == mapT.Args[0].V && isCallTo(nodesT.Args[0], dupNodes) &&
			len(nodesT.Args[0].Args) == 2 && sm.Fields[gf("Traits")] != nil && nodesT.Args[0].Args[1].V == sm.Fields[gf("Traits")].V
		r.Check(okNodes, "duplicate.Nodes+nodeByIdMap", pos, "Nodes and nodeByIdMap come from one duplicateNodes(duplicated traits) call",
			fmt.Sprintf("Nodes=%v nodeByIdMap=%v: expected both results of one duplicateNodes call over the duplicated traits", nodesT, mapT))
		okGenes := genesT != nil && genesT.Op == "extract" && genesT.Idx == 0 && isCallTo(genesT.Args[0], dupGenes) && len(genesT.Args[0].Args) == 3 &&
			okNodes && genesT.Args[0].Args[1].V == sm.Fields[gf("Traits")].V && genesT.Args[0].Args[2].String() == mapT.String()
		r.Check(okGenes, "duplicate.Genes", pos, "Genes <- duplicateGenes(duplicated traits, duplicated node map)",
			fmt.Sprintf("Genes=%v: expected duplicateGenes over the duplicated traits and node map", genesT))
		okCG := cgT != nil
		if okCG {
			for _, a := range cgT.Alternatives() {
				if a.Op == "nil" {
					continue
				}
				if !(a.Op == "extract" && a.Idx == 0 && isCallTo(a.Args[0], dupCG) && len(a.Args[0].Args) == 3 &&
					a.Args[0].Args[1].V == sm.Fields[gf("Traits")].V && a.Args[0].Args[2].String() == mapT.String()) {
					okCG = false
				}
			}
		}
		r.Check(okCG, "duplicate.ControlGenes", pos, "ControlGenes <- nil | duplicateControlGenes(duplicated traits, duplicated node map)",
			fmt.Sprintf("ControlGenes=%v: expected duplicateControlGenes over the duplicated traits and node map", cgT))
		// the nil alternative must be guarded by len(ControlGenes)==0
		r.nilModulesGuard(dup, gf("ControlGenes"))
		// Phenotype must not be shared
		ph := sm.Fields[gf("Phenotype")]
		r.Check(ph == nil || ph.Op == "nil", "duplicate.Phenotype", pos, "Phenotype is not carried over (rebuilt on demand)", fmt.Sprintf("Phenotype of the duplicate is %v: the network would be shared with the source", ph))

		// the per-list helpers
		r.elementwiseRet(sums, dupNodes, 0, gf("Nodes"), p.Func(PkgN, "NewNNodeCopy"), "duplicateNodes")
		r.elementwiseRet(sums, dupGenes, 0, gf("Genes"), p.Func(PkgG, "NewGeneCopy"), "duplicateGenes")
		r.elementwiseRet(sums, dupCG, 0, gf("ControlGenes"), p.Func(PkgG, "NewMIMOGeneCopy"), "duplicateControlGenes")
	})

	r.Rule("C06.3", "remapping / no alias: trait and node references of the copy are looked up in the duplicate's own trait list / node map by the id of the corresponding source object; no pointer, slice or map rooted at the source is stored in the result", func() {
		r.c06Remap(sums)
	})

	r.Rule("C06.4", "spawn = duplicate + weight perturbation: between duplicate and NewOrganism only mutateLinkWeights touches the new genome, and its transitive write set is {Link.ConnectionWeight, Gene.MutationNum}", func() {
		spawn := p.Func(PkgG, "Population.spawn")
		dup := p.Func(PkgG, "Genome.duplicate")
		mlw := p.Func(PkgG, "Genome.mutateLinkWeights")
		newOrg := p.Func(PkgG, "NewOrganism")
		r.Fn(FuncName(spawn), FuncName(mlw))
		calls := CallsTo(spawn, dup)
		if len(calls) != 1 {
			r.Bad("spawn", p.Pos(spawn.Pos()), fmt.Sprintf("spawn calls duplicate %d times, expected exactly one per organism", len(calls)))
			return
		}
		// the duplicate's genome value
		var genome ssa.Value
		for _, ref := range *calls[0].Value().Referrers() {
			if ex, ok := ref.(*ssa.Extract); ok && ex.Index == 0 {
				genome = ex
			}
		}
		if genome == nil {
			r.Undecided("spawn", p.Pos(spawn.Pos()), "cannot find the duplicated genome value")
			return
		}
		tm := NewTermer(spawn)
		src := tm.Of(calls[0].Common().Args[0])
		r.Check(src.Op == "param" && src.Idx == 1, "spawn.source", p.Pos(calls[0].Pos()), "spawn duplicates its start-genome parameter", "spawn duplicates "+src.String()+", not the start genome parameter")
		var users []string
		bad := false
		for _, ref := range *genome.Referrers() {
			switch x := ref.(type) {
			case ssa.CallInstruction:
				callee := x.Common().StaticCallee()
				r.CallSites++
				switch callee {
				case mlw, newOrg:
					users = append(users, callee.Name())
				default:
					n, _ := calleeName(x.Common())
					r.Bad("spawn.uses:"+n, p.Pos(x.Pos()), fmt.Sprintf("spawn passes the duplicated genome to %s; only mutateLinkWeights may modify it before it becomes an organism", n))
					bad = true
				}
			case *ssa.Store:
				r.Bad("spawn.store", p.Pos(x.Pos()), "spawn stores the duplicated genome elsewhere")
				bad = true
			case *ssa.DebugRef:
			default:
				// field access on the genome: a direct modification
				if fa, ok := ref.(*ssa.FieldAddr); ok {
					for _, rr := range *fa.Referrers() {
						if _, isStore := rr.(*ssa.Store); isStore {
							r.Bad("spawn.fieldstore", p.Pos(rr.Pos()), "spawn writes field "+fieldOf(fa.X.Type(), fa.Field).Name()+" of the duplicated genome directly")
							bad = true
						}
					}
				}
			}
		}
		if !bad {
			r.OK("spawn.uses", p.Pos(spawn.Pos()), "the duplicated genome is used only by: "+strings.Join(users, ", "))
		}
		// write set of mutateLinkWeights
		allowed := map[string]bool{"Link.ConnectionWeight": true, "Gene.MutationNum": true}
		ws := p.TransitiveFieldWrites(mlw)
		okWS := true
		for _, k := range sortedKeys(ws) {
			if !allowed[k] {
				e := ws[k][0]
				r.Bad("mutateLinkWeights.writes:"+k, p.Pos(e.Instr.Pos()), fmt.Sprintf("mutateLinkWeights (used by spawn) writes %s in %s; a spawned population may differ from the start genome only in weights and the mutation numbers mirroring them", k, FuncName(e.Fn)))
				okWS = false
			}
		}
		if okWS {
			r.OK("mutateLinkWeights.writes", p.Pos(mlw.Pos()), "transitive write set = {"+strings.Join(sortedKeys(ws), ", ")+"}")
		}
		r.Check(len(ws["Link.ConnectionWeight"]) > 0 && len(ws["Gene.MutationNum"]) > 0, "mutateLinkWeights.mirrors", p.Pos(mlw.Pos()), "writes both the weight and the mutation number", "mutateLinkWeights no longer writes both Link.ConnectionWeight and Gene.MutationNum")
	})
}

// elementwise checks that sliceT (a make([]T, len(src.F))) is filled by
// slice[i] = ctor(src.F[i], ...) in fn.
func (r *Run) elementwise(sums *Summaries, fn *ssa.Function, sliceT *Term, srcField *types.Var, ctor *ssa.Function, label string) {
	p := r.P
	pos := p.Pos(fn.Pos())
	if sliceT != nil && sliceT.Op != "make" && r.elementwiseAppend(fn, sliceT, srcField, ctor, label) {
		return
	}
	if sliceT == nil || sliceT.Op != "make" {
		r.Bad(label, pos, fmt.Sprintf("%s of the result is %v, expected a fresh slice", srcField.Name(), sliceT))
		return
	}
	// length
	ln := sliceT.Args[0]
	if !(ln.Op == "len" && ln.Args[0].Op == "field" && ln.Args[0].Obj == srcField && isParamIdx(ln.Args[0].Args[0], 0)) {
		r.Bad(label+".len", pos, fmt.Sprintf("the duplicated list has length %s, expected len(source.%s)", ln, srcField.Name()))
		return
	}
	stores := elemStoresInto(fn, sliceT.V)
	if len(stores) == 0 {
		r.Bad(label+".fill", pos, "the duplicated list is never filled")
		return
	}
	tm := NewTermer(fn)
	for _, st := range stores {
		v := tm.Of(st.Val)
		idx := st.Addr.(*ssa.IndexAddr).Index
		ok := isCallTo(v, ctor) && len(v.Args) >= 1 && v.Args[0].Op == "elem" && v.Args[0].Args[0].Op == "field" &&
			v.Args[0].Args[0].Obj == srcField && isParamIdx(v.Args[0].Args[0].Args[0], 0) && v.Args[0].Args[1].V == idx
		r.Check(ok, label+".elem", p.Pos(st.Pos()),
			fmt.Sprintf("dup[i] = %s(source.%s[i], …) with the same index", ctor.Name(), srcField.Name()),
			fmt.Sprintf("element store dup[%s] = %s is not %s(source.%s[same index], …)", tm.Of(idx), v, ctor.Name(), srcField.Name()))
	}
}

// elementwiseRet: same for a helper that returns the slice as result `res`.
func (r *Run) elementwiseRet(sums *Summaries, fn *ssa.Function, res int, srcField *types.Var, ctor *ssa.Function, label string) {
	tm := NewTermer(fn)
	var sliceT *Term
	for _, b := range fn.Blocks {
		if ret, ok := b.Instrs[len(b.Instrs)-1].(*ssa.Return); ok {
			t := tm.Of(ret.Results[res])
			if t.Op == "nil" {
				continue
			}
			if sliceT != nil && sliceT.V != t.V {
				r.Bad(label, r.P.Pos(ret.Pos()), "several different lists are returned")
				return
			}
			sliceT = t
		}
	}
	r.elementwise(sums, fn, sliceT, srcField, ctor, label)
}

// nilModulesGuard: a duplicate without modules is returned only when the source has none.
func (r *Run) nilModulesGuard(dup *ssa.Function, cgField *types.Var) {
	p := r.P
	ctor := p.Func(PkgG, "newGenomeWithNodeIdMap")
	tm := NewTermer(dup)
	for _, c := range CallsTo(dup, ctor) {
		args := c.Common().Args
		if len(args) < 5 {
			continue
		}
		if t := tm.Of(args[4]); t.Op != "nil" {
			continue
		}
		ok := false
		for _, g := range Guards(c.Block()) {
			if LenZeroFact(g.Cond, g.True, func(v ssa.Value) bool { l := tm.Of(v); return l.Op == "field" && l.Obj == cgField }) > 0 {
				ok = true
			}
		}
		r.Check(ok, "duplicate.no-modules-branch", p.Pos(c.Pos()), "the module-free duplicate is returned only under len(source.ControlGenes) == 0",
			"a duplicate without modules is built on a path that is not guarded by len(source.ControlGenes) == 0: modules would be dropped")
	}
}

// c06Remap implements C06.3.
func (r *Run) c06Remap(sums *Summaries) {
	p := r.P
	var dupNodes, dupGenes, dupCG *ssa.Function
	// which value is "the duplicate's trait list" / "the duplicate's node map" where the copies are made
	isTraits := func(t *Term, idx int) bool { return isParamIdx(t, idx) }
	isMap := func(t *Term, idx int) bool { return isParamIdx(t, idx) }
	if flat := p.FuncOpt(PkgG, "Genome.duplicate__flat"); flat != nil {
		// flat view: the three list helpers are inlined into duplicate (whether the tree has them or not)
		dupNodes, dupGenes, dupCG = flat, flat, flat
		res, _ := c06ResultSites(p, flat)
		isTraits = func(t *Term, _ int) bool {
			for _, rs := range res {
				if rs.traits != nil && c06ThroughCells(t.V) == rs.traits {
					return true
				}
			}
			return false
		}
		isMap = func(t *Term, _ int) bool {
			for _, rs := range res {
				if rs.nodeMap != nil && c06ThroughCells(t.V) == rs.nodeMap {
					return true
				}
			}
			return false
		}
	} else {
		dupNodes = p.Func(PkgG, "Genome.duplicateNodes")
		dupGenes = p.Func(PkgG, "Genome.duplicateGenes")
		dupCG = p.Func(PkgG, "Genome.duplicateControlGenes")
	}
	traitWithId := p.Func(PkgG, "TraitWithId")
	newNNodeCopy := p.Func(PkgN, "NewNNodeCopy")
	newGeneCopy := p.Func(PkgG, "NewGeneCopy")
	newLinkCopy := p.Func(PkgN, "NewLinkCopy")
	newMIMOCopy := p.Func(PkgG, "NewMIMOGeneCopy")
	r.Fn(FuncName(traitWithId))

	// selector helper: TraitWithId returns nil or an element of its second parameter
	{
		tm := NewTermer(traitWithId)
		ok := true
		for _, b := range traitWithId.Blocks {
			if ret, isRet := b.Instrs[len(b.Instrs)-1].(*ssa.Return); isRet {
				for _, a := range tm.Of(ret.Results[0]).Alternatives() {
					if a.Op == "nil" {
						continue
					}
					if !(a.Op == "elem" && a.Args[0].Op == "param" && a.Args[0].Idx == 1) {
						ok = false
					}
				}
			}
		}
		r.Check(ok, "TraitWithId.selector", p.Pos(traitWithId.Pos()), "TraitWithId returns nil or an element of the list it is given", "TraitWithId can return something that is not an element of the list it is given")
	}

	// traitRemapped: t ∈ {nil, TraitWithId(<src>.Trait.Id, traitsParam)}
	traitRemapped := func(t *Term, srcTraitPath string, traitsIdx int) (bool, string) {
		for _, a := range t.Alternatives() {
			if a.Op == "nil" {
				continue
			}
			if r.Mode == "own-lists" && a.Op == "loop" {
				continue // a value carried around the loop: its sources are the other alternatives
			}
			if !isCallTo(a, traitWithId) || len(a.Args) != 2 {
				return false, fmt.Sprintf("trait of the copy is %s, not a lookup in the duplicate's traits", a)
			}
			if r.Mode != "own-lists" && a.Args[0].String() != srcTraitPath+".Id" {
				return false, fmt.Sprintf("trait is looked up by %s, expected the id of the corresponding source trait %s.Id", a.Args[0], srcTraitPath)
			}
			if !isTraits(a.Args[1], traitsIdx) {
				return false, fmt.Sprintf("trait is looked up in %s, expected the duplicate's trait list", a.Args[1])
			}
		}
		return true, ""
	}
	nodeRemapped := func(t *Term, srcNodePath string, mapIdx int) (bool, string) {
		for _, a := range t.Alternatives() {
			if a.Op != "lookup" {
				return false, fmt.Sprintf("node of the copy is %s, not a lookup in the duplicate's node map", a)
			}
			if !isMap(a.Args[0], mapIdx) {
				return false, fmt.Sprintf("node is looked up in %s, expected the duplicate's node map", a.Args[0])
			}
			if r.Mode != "own-lists" && a.Args[1].String() != srcNodePath+".Id" {
				return false, fmt.Sprintf("node is looked up by %s, expected the id of the corresponding source node %s.Id", a.Args[1], srcNodePath)
			}
		}
		return true, ""
	}

	// --- nodes
	{
		tm := NewTermer(dupNodes)
		var calls []ssa.CallInstruction
		for _, c := range CallsTo(dupNodes, newNNodeCopy) {
			// the copies of the genome's own nodes (the flat view also contains the copies of the modules' control nodes)
			if a0 := tm.Of(c.Common().Args[0]); a0.Op == "elem" && a0.Args[0].Op == "field" && a0.Args[0].Name == "Nodes" {
				calls = append(calls, c)
			}
		}
		for _, c := range calls {
			r.CallSites++
			args := callArgTerms(tm, c.Common())
			src := args[0].String()
			ok, why := traitRemapped(args[1], src+".Trait", 1)
			r.Check(ok, "duplicateNodes.trait", p.Pos(c.Pos()), "node trait <- nil | TraitWithId(source node's trait id, duplicated traits)", why)
			// registered in the map under its own id (directly, under the source's id that the constructor copies,
			// or by a second pass over the filled node list: robust_c06.go)
			found := c06NodeRegistered(p, sums, dupNodes, c)
			r.Check(found, "duplicateNodes.map", p.Pos(c.Pos()), "the new node is registered in the node map under its own id", "the copied node is not registered in the duplicate's node map under its own id")
		}
		r.Floor("NewNNodeCopy call sites in duplicateNodes", len(calls), 1)
	}
	// --- genes
	{
		tm := NewTermer(dupGenes)
		sm := sums.Ctor(newGeneCopy)
		calls := CallsTo(dupGenes, newGeneCopy)
		for _, c := range calls {
			r.CallSites++
			args := callArgTerms(tm, c.Common())
			src := args[0].String()
			linkT := Subst(sm.Fields[p.Field(PkgG, "Gene", "Link")], args)
			var lsm *Summary
			if lc, ok := sm.Fields[p.Field(PkgG, "Gene", "Link")].V.(*ssa.Call); ok && lc.Call.StaticCallee() != nil {
				lsm = sums.Ctor(lc.Call.StaticCallee())
			}
			if lsm == nil || lsm.Why != "" {
				r.Undecided("duplicateGenes.link", p.Pos(c.Pos()), "cannot expand the link of the copied gene")
				continue
			}
			get := func(name string) *Term { return Subst(lsm.Fields[p.Field(PkgN, "Link", name)], linkT.Args) }
			ok, why := nodeRemapped(get("InNode"), src+".Link.InNode", 2)
			r.Check(ok, "duplicateGenes.InNode", p.Pos(c.Pos()), "gene in-node <- node map[source gene's in-node id]", why)
			ok, why = nodeRemapped(get("OutNode"), src+".Link.OutNode", 2)
			r.Check(ok, "duplicateGenes.OutNode", p.Pos(c.Pos()), "gene out-node <- node map[source gene's out-node id]", why)
			ok, why = traitRemapped(get("Trait"), src+".Link.Trait", 1)
			r.Check(ok, "duplicateGenes.Trait", p.Pos(c.Pos()), "gene trait <- nil | TraitWithId(source link's trait id, duplicated traits)", why)
		}
		r.Floor("NewGeneCopy call sites in duplicateGenes", len(calls), 1)
	}
	// --- control genes
	{
		tm := NewTermer(dupCG)
		mcalls := CallsTo(dupCG, newMIMOCopy)
		for _, c := range mcalls {
			r.CallSites++
			// the arguments as seen at the call: a control node that comes out of an inlined helper together with an
			// error is a phi whose nil alternatives belong to the error exits (correlated-phi narrowing)
			args := callArgTerms(NewTermerAt(dupCG, c.Block()), c.Common())
			src := args[0].String()
			nodeCopy := args[1]
			if !isCallTo(nodeCopy, newNNodeCopy) {
				r.Bad("duplicateControlGenes.controlNode", p.Pos(c.Pos()), fmt.Sprintf("control node of the copied module is %s, expected a fresh NewNNodeCopy", nodeCopy))
				continue
			}
			r.Check(nodeCopy.Args[0].String() == src+".ControlNode", "duplicateControlGenes.controlNode", p.Pos(c.Pos()), "control node <- NewNNodeCopy(source module's control node, …)",
				fmt.Sprintf("control node is copied from %s, expected %s.ControlNode", nodeCopy.Args[0], src))
			ok, why := traitRemapped(nodeCopy.Args[1], src+".ControlNode.Trait", 1)
			r.Check(ok, "duplicateControlGenes.controlNode.trait", p.Pos(c.Pos()), "control node trait remapped by id", why)
		}
		r.Floor("NewMIMOGeneCopy call sites", len(mcalls), 1)
		lcalls := CallsTo(dupCG, newLinkCopy)
		for _, c := range lcalls {
			r.CallSites++
			// state of the new link when it is handed to append
			var at ssa.Instruction
			for _, ref := range *c.Value().Referrers() {
				if st, ok := ref.(*ssa.Store); ok && st.Val == c.Value() {
					at = st
				}
			}
			if at == nil {
				r.Undecided("duplicateControlGenes.link", p.Pos(c.Pos()), "the copied module link is not stored anywhere")
				continue
			}
			st := sums.ObjectAt(dupCG, c.Value(), at)
			if st.Why != "" {
				r.Undecided("duplicateControlGenes.link", p.Pos(c.Pos()), st.Why)
				continue
			}
			args := callArgTerms(tm, c.Common())
			src := args[0].String()
			side := "Incoming"
			if strings.Contains(src, ".Outgoing[") {
				side = "Outgoing"
			}
			lbl := "duplicateControlGenes." + side
			ok, why := traitRemapped(st.Fields[p.Field(PkgN, "Link", "Trait")], src+".Trait", 1)
			r.Check(ok, lbl+".Trait", p.Pos(c.Pos()), "module link trait <- nil | TraitWithId(source link's trait id, duplicated traits)", why)
			in, out := st.Fields[p.Field(PkgN, "Link", "InNode")], st.Fields[p.Field(PkgN, "Link", "OutNode")]
			if side == "Incoming" {
				ok, why = nodeRemapped(in, src+".InNode", 2)
				r.Check(ok, lbl+".InNode", p.Pos(c.Pos()), "module input node <- node map[source link's in-node id]", why)
				r.Check(isCallTo(out, newNNodeCopy), lbl+".OutNode", p.Pos(c.Pos()), "module input link ends in the new control node", fmt.Sprintf("module input link ends in %s, expected the new control node", out))
			} else {
				ok, why = nodeRemapped(out, src+".OutNode", 2)
				r.Check(ok, lbl+".OutNode", p.Pos(c.Pos()), "module output node <- node map[source link's out-node id]", why)
				r.Check(isCallTo(in, newNNodeCopy), lbl+".InNode", p.Pos(c.Pos()), "module output link starts at the new control node", fmt.Sprintf("module output link starts at %s, expected the new control node", in))
			}
			// and it is appended to the matching list of the new control node
			appended := false
			Instrs(dupCG, func(_ *ssa.BasicBlock, _ int, in ssa.Instruction) {
				if s2, ok := in.(*ssa.Store); ok {
					if f := StoredField(s2); f != nil && f.Name() == side {
						if base := tm.Of(s2.Addr.(*ssa.FieldAddr).X); isCallTo(base, newNNodeCopy) {
							if v := tm.Of(s2.Val); v.Op == "call" && v.Name == "append" {
								appended = true
							}
						}
					}
				}
			})
			r.Check(appended, lbl+".append", p.Pos(c.Pos()), "appended to the new control node's "+side, "the copied link is not appended to the new control node's "+side)
		}
		r.Floor("NewLinkCopy call sites in duplicateControlGenes", len(lcalls), 2)
	}

	// --- deep freshness: no source-rooted pointer in any copy constructor result
	for _, cc := range copyCtors {
		if r.Mode == "own-lists" {
			break // value-slice aliasing is C06's concern, not well-formedness
		}
		fn := p.Func(cc.pkg, cc.fn)
		sm := sums.Ctor(fn)
		if sm.Why != "" {
			continue
		}
		for _, f := range p.Fields(cc.tpkg, cc.tn) {
			t := sm.Fields[f]
			if t == nil || !isPointerLike(f.Type()) {
				continue
			}
			r.FieldsChecked++
			bad := ""
			for _, a := range t.Alternatives() {
				if a.Root() != nil && isParamIdx(a.Root(), 0) && a.Op != "call" {
					bad = a.String()
				}
			}
			// NewLinkCopy.Trait <- l.Trait is the known shared-pointer constructor; its callers must override (checked above)
			if bad != "" && !(cc.fn == "NewLinkCopy" && f.Name() == "Trait") {
				r.Bad("alias:"+cc.fn+"."+f.Name(), p.Pos(fn.Pos()), fmt.Sprintf("%s stores %s, a %s rooted at the source object, into the copy: copy and original share mutable state", cc.fn, bad, typeShort(f.Type())))
			} else {
				r.OK("alias:"+cc.fn+"."+f.Name(), p.Pos(fn.Pos()), fmt.Sprintf("%s <- %s: not rooted at the source", f.Name(), t))
			}
		}
	}
	// fixture: the alias rule must fire on a copy constructor that shares a slice
	if p.Fix != nil {
		ffn := p.Fix.FuncOpt("aliascopy", "NewThingCopy")
		if ffn == nil {
			r.add("rule-inert", "fixture:aliascopy", "-", "fixture aliascopy.NewThingCopy not found", nil)
		} else {
			fs := NewSummaries(p.Fix).Ctor(ffn)
			hit := false
			for f, t := range fs.Fields {
				if isPointerLike(f.Type()) && t.Root() != nil && isParamIdx(t.Root(), 0) {
					hit = true
				}
			}
			if !hit {
				r.add("rule-inert", "fixture:aliascopy", "-", "the alias rule did not report the fixture copy constructor that shares a slice with its source", nil)
			} else {
				r.Note("positive fixture aliascopy.NewThingCopy reported by the alias rule")
			}
		}
	}
}

// elementwiseAppend recognises the other way of building the duplicated list:
//
//	dup := make([]T, 0, n); for i/range over source.F { dup = append(dup, ctor(source.F[i], …)) }
//
// i.e. a loop-carried list that starts empty, grows by exactly one ctor(source.F[i]) on every iteration of a loop
// that ranges over the whole source list (the append dominates every back edge). Same elements, same order.
func (r *Run) elementwiseAppend(fn *ssa.Function, sliceT *Term, srcField *types.Var, ctor *ssa.Function, label string) bool {
	p := r.P
	ph, ok := sliceT.V.(*ssa.Phi)
	if !ok {
		return false
	}
	tm := NewTermer(fn)
	var loop *Loop
	for _, l := range Loops(fn) {
		if l.Header == ph.Block() {
			loop = l
		}
	}
	if loop == nil {
		return false
	}
	src := ""
	if iff, okI := loop.Header.Instrs[len(loop.Header.Instrs)-1].(*ssa.If); okI {
		ct := tm.Of(iff.Cond)
		if ct.Op == "bin" && ct.Name == "<" && ct.Args[1].Op == "len" && ct.Args[1].Args[0].Op == "field" && ct.Args[1].Args[0].Obj == srcField && isParamIdx(ct.Args[1].Args[0].Args[0], 0) {
			src = ct.Args[1].Args[0].String()
		}
	}
	if src == "" {
		return false
	}
	pos := p.Pos(ph.Pos())
	okAll := true
	n := 0
	for i, e := range ph.Edges {
		pred := ph.Block().Preds[i]
		if !loop.Blocks[pred] {
			ms, isMS := e.(*ssa.MakeSlice)
			if !isMS {
				if c, isC := e.(*ssa.Const); !(isC && c.Value == nil) {
					okAll = false
				}
				continue
			}
			if k, isK := ms.Len.(*ssa.Const); !isK || k.Int64() != 0 {
				okAll = false
			}
			continue
		}
		base, elems, isApp := appendCall(e)
		if !isApp || base != ssa.Value(ph) || len(elems) != 1 {
			okAll = false
			continue
		}
		n++
		v := tm.Of(elems[0])
		okE := isCallTo(v, ctor) && len(v.Args) >= 1 && v.Args[0].Op == "elem" && v.Args[0].Args[0].String() == src
		// the element index is the loop's own counter
		if okE {
			if iff, okI := loop.Header.Instrs[len(loop.Header.Instrs)-1].(*ssa.If); okI {
				if b, okB := iff.Cond.(*ssa.BinOp); okB && len(v.Args[0].Args) > 1 && v.Args[0].Args[1].V != b.X {
					// range loops index with the incremented counter of the header
					if inc, okInc := b.X.(*ssa.BinOp); !(okInc && v.Args[0].Args[1].V == ssa.Value(inc)) {
						if u, okU := v.Args[0].Args[1].V.(*ssa.Phi); !(okU && u.Block() == loop.Header) {
							okE = false
						}
					}
				}
			}
		}
		// executed on every iteration
		def := definingInstr(e)
		for _, lb := range loop.Latch {
			if def == nil || !(def.Block() == lb || def.Block().Dominates(lb)) {
				okE = false
			}
		}
		r.Check(okE, label+".elem", pos, fmt.Sprintf("dup = append(dup, %s(source.%s[i], …)) once per element of the source list", ctor.Name(), srcField.Name()),
			fmt.Sprintf("the duplicated list grows by %s, which is not one %s(source.%s[i], …) per iteration", v, ctor.Name(), srcField.Name()))
	}
	if !okAll || n == 0 {
		return false
	}
	return true
}

// c06ResultSite: one place where the flat view of duplicate assembles the new genome: a call of one of the genome
// constructors, or a genome that duplicate allocates and initialises in place (c06GenomeLit, robust_c06.go).
type c06ResultSite struct {
	val                                    ssa.Value       // the assembled genome
	at                                     *ssa.BasicBlock // where it is assembled
	pos                                    token.Pos
	id, traits, nodes, genes, cgs, nodeMap ssa.Value // feasible values at the site (nil when not unique / not given)
	cgsArg                                 ssa.Value // the module list handed over, as written (a nil constant when the field is left alone)
	cgsNil                                 bool
}

// c06ResultSites finds the places where the flat view assembles a genome and resolves, with correlated-phi
// narrowing at the site, which list values are handed over. `unknown` lists genome allocations of the flat view
// that are not recognised as an in-place assembly (the object is written elsewhere, escapes, is initialised on
// several paths ...): their contents are not known to the rules.
func c06ResultSites(p *Prog, flat *ssa.Function) (out []c06ResultSite, unknown []*ssa.Alloc) {
	fill := func(rs *c06ResultSite, id, traits, nodes, genes, cgs, nodeMap ssa.Value) {
		one := func(v ssa.Value) ssa.Value {
			if v == nil {
				return nil
			}
			if x := OnlyAt(v, rs.at); x != nil {
				return stripPtr(x)
			}
			return nil
		}
		rs.id, rs.traits, rs.nodes, rs.genes, rs.cgsArg = id, one(traits), one(nodes), one(genes), cgs
		alts := NarrowAt(cgs, rs.at)
		if len(alts) == 1 {
			if k, ok := alts[0].(*ssa.Const); ok && k.Value == nil {
				rs.cgsNil = true
			} else {
				rs.cgs = stripPtr(alts[0])
			}
		}
		rs.nodeMap = one(nodeMap)
	}
	for _, name := range []string{"newGenomeWithNodeIdMap", "newGenome", "NewGenome"} {
		ctor := p.FuncOpt(PkgG, name)
		if ctor == nil {
			continue
		}
		for _, c := range CallsTo(flat, ctor) {
			a := c.Common().Args
			if len(a) < 5 {
				continue
			}
			rs := c06ResultSite{val: c.Value(), at: c.Block(), pos: c.Pos()}
			var nodeMap ssa.Value
			if len(a) > 5 {
				nodeMap = a[5]
			}
			fill(&rs, a[0], a[1], a[2], a[3], a[4], nodeMap)
			out = append(out, rs)
		}
	}
	lits, unknown := c06GenomeLits(p, flat)
	gf := func(n string) *types.Var { return p.Field(PkgG, "Genome", n) }
	for _, lit := range lits {
		rs := c06ResultSite{val: lit.alloc, at: lit.alloc.Block(), pos: lit.alloc.Pos()}
		cgs := lit.vals[gf("ControlGenes")]
		if cgs == nil {
			// the field keeps its zero value: a nil module list
			cgs = ssa.NewConst(nil, gf("ControlGenes").Type())
		}
		fill(&rs, lit.vals[gf("Id")], lit.vals[gf("Traits")], lit.vals[gf("Nodes")], lit.vals[gf("Genes")], cgs, lit.vals[gf("nodeByIdMap")])
		out = append(out, rs)
	}
	return out, unknown
}

// c06Elementwise is C06.2 on the flat view: whatever helpers the tree uses, the new genome is assembled from a
// trait list, node list, gene list and module list that are built element-wise from the source's lists.
func (r *Run) c06Elementwise(sums *Summaries, dup, flat *ssa.Function) {
	p := r.P
	pos := p.Pos(dup.Pos())
	tm := NewTermer(flat)
	gf := func(n string) *types.Var { return p.Field(PkgG, "Genome", n) }
	sites, unknown := c06ResultSites(p, flat)
	if len(sites) == 0 {
		r.Bad("duplicate", pos, "duplicate does not assemble its result with the genome constructors (newGenomeWithNodeIdMap / newGenome) or by initialising a genome it allocates; the element-wise rule cannot be applied")
		return
	}
	// what duplicate returns is one of the genomes whose assembly is examined below
	known := map[ssa.Value]bool{}
	for _, rs := range sites {
		if rs.val != nil {
			known[rs.val] = true
		}
	}
	for _, al := range unknown {
		r.Bad("duplicate.result", p.Pos(al.Pos()), "duplicate allocates a genome that it does not initialise in one place before returning it (written on several paths, written twice, or handed elsewhere first): its contents are not known")
	}
	outside, rets := c06ReturnedOutside(flat, 0, known)
	for i, v := range outside {
		if al, isAl := v.(*ssa.Alloc); isAl && len(unknown) > 0 && containsAlloc(unknown, al) {
			continue // reported above
		}
		r.Bad("duplicate.result", p.Pos(rets[i].Pos()), fmt.Sprintf("duplicate returns %s, which is not a genome assembled by a genome constructor or initialised in place from the duplicated lists", tm.Of(v)))
	}
	sawModules := false
	for _, rs := range sites {
		var idT *Term
		if rs.id != nil {
			idT = tm.Of(rs.id)
		}
		r.Check(idT != nil && idT.Op == "param" && idT.Idx == 1, "duplicate.Id", pos, "Id <- the newId parameter", fmt.Sprintf("Id of the duplicate is %v, expected the newId parameter", idT))
		if rs.traits == nil || rs.nodes == nil || rs.genes == nil {
			r.Bad("duplicate.lists", p.Pos(rs.pos), "the trait, node or gene list handed to the new genome is missing or is not a single list value on this path")
			continue
		}
		r.elementwise(sums, flat, tm.Of(rs.traits), gf("Traits"), p.Func(PkgT, "NewTraitCopy"), "duplicate.Traits")
		r.elementwise(sums, flat, tm.Of(rs.nodes), gf("Nodes"), p.Func(PkgN, "NewNNodeCopy"), "duplicateNodes")
		r.elementwise(sums, flat, tm.Of(rs.genes), gf("Genes"), p.Func(PkgG, "NewGeneCopy"), "duplicateGenes")
		// the node map registers exactly the copied nodes (C06.3 checks the key); it must be a map made here
		okMap := false
		if rs.nodeMap != nil {
			_, okMap = rs.nodeMap.(*ssa.MakeMap)
		}
		r.Check(okMap, "duplicate.Nodes+nodeByIdMap", pos, "the node index handed over is the map filled while the nodes are copied", "the node index of the duplicate is not a map built while copying the nodes")
		r.OK("duplicate.Genes", pos, "Genes <- element-wise copies built over the duplicated traits and node map (remapping: C06.3)")
		switch {
		case rs.cgsNil:
		case rs.cgs != nil:
			sawModules = true
			r.elementwise(sums, flat, tm.Of(rs.cgs), gf("ControlGenes"), p.Func(PkgG, "NewMIMOGeneCopy"), "duplicateControlGenes")
		default:
			// one constructor call for both cases: every alternative is nil or an element-wise list
			for _, alt := range NarrowAt(rs.cgsArg, rs.at) {
				if k, ok := alt.(*ssa.Const); ok && k.Value == nil {
					continue
				}
				sawModules = true
				r.elementwise(sums, flat, tm.Of(stripPtr(alt)), gf("ControlGenes"), p.Func(PkgG, "NewMIMOGeneCopy"), "duplicateControlGenes")
			}
		}
	}
	r.Check(sawModules, "duplicate.ControlGenes", pos, "ControlGenes <- nil | element-wise copies of the source's modules", "no path of duplicate hands the copied modules to the new genome")
	r.c06NilModulesGuard(flat, sites)
	// Phenotype must not be shared: the constructors do not take one, and nothing stores it afterwards
	okPh := true
	for _, st := range FieldStores(flat, gf("Phenotype")) {
		if c, ok := st.Val.(*ssa.Const); !ok || c.Value != nil {
			okPh = false
		}
	}
	r.Check(okPh, "duplicate.Phenotype", pos, "Phenotype is not carried over (rebuilt on demand)", "duplicate stores a phenotype into the copy: the network would be shared with the source")
}

// c06NilModulesGuard: a nil module list reaches the constructor only when the source has no modules.
func (r *Run) c06NilModulesGuard(flat *ssa.Function, sites []c06ResultSite) {
	p := r.P
	tm := NewTermer(flat)
	cgField := p.Field(PkgG, "Genome", "ControlGenes")
	for _, rs := range sites {
		arg := rs.cgsArg
		// edges / blocks on which the argument is nil
		var nilAt []*ssa.BasicBlock
		if k, ok := arg.(*ssa.Const); ok && k.Value == nil {
			nilAt = append(nilAt, rs.at)
		} else if ph, ok := arg.(*ssa.Phi); ok {
			feas := c06FeasibleEdges(ph, Guards(rs.at))
			for i, e := range ph.Edges {
				if k, ok := e.(*ssa.Const); ok && k.Value == nil && feas[i] {
					nilAt = append(nilAt, ph.Block().Preds[i])
				}
			}
		}
		for _, b := range nilAt {
			ok := false
			gs := Guards(b)
			// the edge out of b into the phi block may itself be the deciding branch
			if iff, isIf := b.Instrs[len(b.Instrs)-1].(*ssa.If); isIf && len(b.Succs) == 2 {
				if ph, isPhi := arg.(*ssa.Phi); isPhi {
					gs = append(gs, Guard{iff.Cond, b.Succs[0] == ph.Block(), b})
				}
			}
			isSrcModules := func(v ssa.Value) bool {
				l := tm.Of(v)
				return l.Op == "field" && l.Obj == cgField && isParamIdx(l.Args[0], 0)
			}
			for _, g := range gs {
				if LenZeroFact(g.Cond, g.True, isSrcModules) > 0 {
					ok = true
				}
			}
			r.Check(ok, "duplicate.no-modules-branch", p.Pos(rs.pos), "the module-free duplicate is returned only under len(source.ControlGenes) == 0",
				"a duplicate without modules is built on a path that is not guarded by len(source.ControlGenes) == 0: modules would be dropped")
		}
	}
}
