package nc

import (
	"fmt"
	"go/types"

	"golang.org/x/tools/go/ssa"
)

// YAML record readers restored in place.
//
// The pinned tree restores every element of a YAML section through a helper (readTrait, readNNode, readGene,
// readMIMOControlGene): `rec, err := readX(elem.(map[string]interface{}), lists..)`, then hands rec to the genome. A
// helper with one call site can be written out at that call site and deleted; the record is then built by the loop of
// yamlGenomeReader.Read itself. What the rules of C15.2 / C15.4 need of a record reader is not its name but
//
//	(doc)  which value is the element document (the map the keys are looked up in),
//	(obj)  which object is the restored record, and what its fields hold when it is handed to the genome,
//	(list) against which trait / node list the ids of the record are resolved.
//
// c15YamlRegion describes one section loop of the genome reader that establishes these three facts without a helper:
//
//   - the loop counts 0..len(S)-1 with S = <doc>[key] read as a list (type assertion or a cast parser);
//   - exactly one value is handed over to a list field of the genome inside the loop (obj.F = append(obj.F, x),
//     addNode(x), or a local collection handed over as a whole), and the hand-over dominates every latch: every
//     iteration that goes on hands its record over;
//   - that value is an object created inside the loop (an allocation or a constructor call; where the branches of an
//     iteration build it by different calls, each of them, joined field-wise), so every iteration restores a fresh record; its field state is taken AT the hand-over (Summaries.ObjectAt), and nothing writes to the
//     object between the hand-over and the next iteration's object (a record changed after it was put into the genome
//     would not be what the slot map describes);
//   - the element document is S[i].(map..) with i the loop's own counter (the element of THIS iteration).
//
// The helper form keeps its old treatment; a region is consulted only when the pinned helper does not exist.
type c15YamlRegion struct {
	fn       *ssa.Function
	loop     *Loop
	key      string // the section key the loop iterates
	list     *Term  // S
	idx      ssa.Value
	objs     []ssa.Value     // the record object: an Alloc or constructor Call inside the loop (several when branches of the iteration build it by different calls; exactly one of them reaches the hand-over in one iteration)
	recType  *types.Named    // its struct type
	handover ssa.Instruction // where the genome receives it
	field    string          // the genome list that receives it
	sm       *Summary        // field state of obj at the hand-over
	why      string          // set when the loop has the outline of a region but one of the conditions fails
}

// isDoc: t is the element document of this iteration.
func (g *c15YamlRegion) isDoc(t *Term) bool {
	if t == nil || t.Op != "assert" || len(t.Args) != 1 || t.V == nil {
		return false
	}
	if _, isMap := t.V.Type().Underlying().(*types.Map); !isMap {
		return false
	}
	e := t.Args[0]
	return e.Op == "elem" && len(e.Args) == 2 && e.Args[1].V == g.idx && e.Args[0].String() == g.list.String()
}

// c15YamlReader: where the records of one kind are restored.
type c15YamlReader struct {
	name   string
	fn     *ssa.Function  // the helper, or the function that holds the region
	region *c15YamlRegion // nil for a helper
	why    string
}

// the record type each pinned helper restores (resolved types, not names of locals)
var c15YamlRecordType = map[string][2]string{
	"readTrait": {PkgT, "Trait"}, "readNNode": {PkgN, "NNode"}, "readGene": {PkgG, "Gene"}, "readMIMOControlGene": {PkgG, "MIMOControlGene"},
}

// yamlReader resolves the reader of one record kind: the pinned helper when it exists, otherwise the one loop of
// yamlGenomeReader.Read that restores records of the helper's result type in place.
func (c *c15) yamlReader(name string) *c15YamlReader {
	if rd, ok := c.yamlRd[name]; ok {
		return rd
	}
	if c.yamlRd == nil {
		c.yamlRd = map[string]*c15YamlReader{}
	}
	rd := &c15YamlReader{name: name}
	c.yamlRd[name] = rd
	if fn := c.p.FuncOpt(PkgG, name); fn != nil {
		rd.fn = fn
		return rd
	}
	host := c.p.Func(PkgG, "yamlGenomeReader.Read")
	rd.fn = host
	tn := c15YamlRecordType[name]
	var found []*c15YamlRegion
	for _, g := range c.yamlRegions(host) {
		if g.recType != nil && g.recType.Obj().Name() == tn[1] && g.recType.Obj().Pkg() != nil && g.recType.Obj().Pkg().Path() == tn[0] {
			found = append(found, g)
		}
	}
	switch {
	case len(found) == 0:
		rd.why = fmt.Sprintf("the record reader %s does not exist and no section loop of %s restores a %s in place", name, host.Name(), tn[1])
	case len(found) > 1:
		rd.why = fmt.Sprintf("the record reader %s does not exist and %d loops of %s build a %s: which of them restores the section is not decided", name, len(found), host.Name(), tn[1])
	case found[0].why != "":
		rd.why = fmt.Sprintf("the record reader %s does not exist; the loop over %q that builds a %s in place is not a record reader the rule can read: %s", name, found[0].key, tn[1], found[0].why)
	default:
		rd.region = found[0]
		c.r.Note("%s: no helper; the %s records are restored in place by the loop over %q of %s (object state taken at the hand-over to %s)", name, tn[1], found[0].key, host.Name(), found[0].field)
	}
	return rd
}

// appendedFieldAt: appendedField with the instruction at which the genome receives elem.
func appendedFieldAt(tm *Termer, blocks []*ssa.BasicBlock, elem ssa.Value) (string, ssa.Instruction) {
	for _, b := range blocks {
		for _, in := range b.Instrs {
			switch x := in.(type) {
			case *ssa.Store:
				f := StoredField(x)
				if f == nil {
					continue
				}
				if base, elems, ok := appendCall(x.Val); ok {
					bt := tm.Of(base)
					if bt.Op == "field" && bt.Obj == f {
						for _, e := range elems {
							if e == elem {
								return f.Name(), x
							}
						}
					}
				}
			case ssa.CallInstruction:
				if c := x.Common().StaticCallee(); c != nil && c.Name() == "addNode" && len(x.Common().Args) == 2 && x.Common().Args[1] == elem {
					return "Nodes", x
				}
			}
		}
	}
	for _, b := range blocks {
		for _, in := range b.Instrs {
			if cl, ok := in.(*ssa.Call); ok {
				if _, elems, ok := appendCall(cl); ok && len(elems) == 1 && elems[0] == elem {
					if lc := collectedList(cl); lc != nil && lc.field != "" {
						return lc.field, cl
					}
				}
			}
		}
	}
	return "", nil
}

// yamlRegions: the section loops of fn that restore their records in place (see c15YamlRegion).
func (c *c15) yamlRegions(fn *ssa.Function) []*c15YamlRegion {
	if gs, ok := c.yamlRg[fn]; ok {
		return gs
	}
	if c.yamlRg == nil {
		c.yamlRg = map[*ssa.Function][]*c15YamlRegion{}
	}
	tm := NewTermer(fn)
	loops := Loops(fn)
	var out []*c15YamlRegion
	for _, l := range loops {
		idx, bound, ok := countsUp(l)
		if !ok {
			continue
		}
		bt := tm.Of(bound)
		if bt.Op != "len" || len(bt.Args) != 1 {
			continue
		}
		// S = <document>[key] read as a list
		sf := &slotFinder{docParam: func(*Term) bool { return true }}
		sr, ok := sf.direct(bt.Args[0])
		if !ok || sr.Elem {
			continue
		}
		var blocks []*ssa.BasicBlock
		for _, b := range fn.Blocks { // function order: deterministic
			if l.Blocks[b] {
				blocks = append(blocks, b)
			}
		}
		// what is handed to the genome inside the loop
		type cand struct {
			v     ssa.Value
			field string
			at    ssa.Instruction
		}
		var cands []cand
		seen := map[ssa.Value]bool{}
		try := func(v ssa.Value) {
			if v == nil || seen[v] {
				return
			}
			seen[v] = true
			if f, at := appendedFieldAt(tm, blocks, v); f != "" {
				cands = append(cands, cand{v, f, at})
			}
		}
		for _, b := range blocks {
			for _, in := range b.Instrs {
				switch x := in.(type) {
				case *ssa.Call:
					if _, elems, ok := appendCall(x); ok {
						for _, e := range elems {
							try(e)
						}
						continue
					}
					if cal := x.Call.StaticCallee(); cal != nil && cal.Name() == "addNode" && len(x.Call.Args) == 2 {
						try(x.Call.Args[1])
					}
				}
			}
		}
		if len(cands) != 1 {
			continue // no record handed over here (or not exactly one: the named-helper rules see those)
		}
		cd := cands[0]
		objs := []ssa.Value{stripPtr(cd.v)}
		if _, isPhi := objs[0].(*ssa.Phi); isPhi {
			// `rec, err := <helper body written out or expanded by the normaliser>`: a phi whose alternatives are selected
			// together with the error; at the hand-over (err == nil) the alternatives of the error exits are gone. What
			// is left are the objects the branches of one iteration build (`if t != nil { g = A(..) } else { g = B(..) }`).
			ph := objs[0]
			objs = nil
			for _, a := range NarrowAt(ph, cd.at.Block()) {
				objs = append(objs, stripPtr(a))
			}
		}
		var named *types.Named
		okObjs := len(objs) > 0
		for _, obj := range objs {
			switch o := obj.(type) {
			case *ssa.Alloc:
			case *ssa.Call:
				if o.Call.StaticCallee() == nil {
					okObjs = false
				}
			default:
				okObjs = false // the result of a helper (an Extract), a parameter, nil, ..: not built in place
			}
			n, _ := deref(obj.Type()).(*types.Named)
			if n == nil || (named != nil && n != named) {
				okObjs = false
			}
			named = n
		}
		if !okObjs {
			continue
		}
		if _, isStruct := named.Underlying().(*types.Struct); !isStruct {
			continue
		}
		g := &c15YamlRegion{fn: fn, loop: l, key: sr.Slot, list: bt.Args[0], idx: idx, objs: objs, recType: named, handover: cd.at, field: cd.field}
		out = append(out, g)
		isObj := map[ssa.Value]bool{}
		isCreation := map[ssa.Instruction]bool{}
		for _, obj := range objs {
			isObj[obj] = true
			oi := obj.(ssa.Instruction)
			isCreation[oi] = true
			if !l.Blocks[oi.Block()] {
				g.why = "the object handed to the genome is created outside the loop: all iterations share one record"
			}
		}
		if g.why != "" {
			continue
		}
		hb := cd.at.Block()
		for _, lt := range l.Latch {
			if !(hb == lt || hb.Dominates(lt)) {
				g.why = "an iteration can go on without handing its record to the genome"
			}
		}
		if g.why != "" {
			continue
		}
		// nothing touches the record between its hand-over and the creation of the next one
		touches := func(in ssa.Instruction) bool {
			if in == cd.at {
				return false
			}
			switch x := in.(type) {
			case *ssa.Store:
				if fa, ok := x.Addr.(*ssa.FieldAddr); ok && isObj[stripPtr(fa.X)] {
					return true
				}
				if ia, ok := x.Addr.(*ssa.IndexAddr); ok {
					for _, obj := range objs {
						if fieldLoadedFrom(ia.X, obj) != nil || fieldHolding(fn, ia.X, obj) != nil {
							return true
						}
					}
				}
			case ssa.CallInstruction:
				cm := x.Common()
				if cal := cm.StaticCallee(); cal != nil && InRepo(cal) {
					for _, a := range cm.Args {
						if isObj[stripPtr(a)] {
							return true
						}
					}
				}
			}
			return false
		}
		if path := FindPath(c.p, PathQuery{Fn: fn, StartAfter: cd.at, FlagBlind: true, Target: touches,
			Avoid: func(in ssa.Instruction) bool { return isCreation[in] }}); path != nil {
			g.why = "the record is written to (or handed to a repository function) after it was put into the genome"
			continue
		}
		// the field state at the hand-over, joined over the objects (as a constructor with several return sites)
		g.sm = &Summary{Fn: fn, Type: named, Fields: map[*types.Var]*Term{}, Elems: map[*types.Var]*Term{}, Fresh: true}
		seenF := map[*types.Var]int{}
		for _, obj := range objs {
			one := c.sums.ObjectAt(fn, obj, cd.at)
			if one.Why != "" {
				g.why = one.Why
				break
			}
			g.sm.Fresh = g.sm.Fresh && one.Fresh
			for f, t := range one.Fields {
				seenF[f]++
				if prev, ok := g.sm.Fields[f]; ok {
					if prev.String() != t.String() {
						g.sm.Fields[f] = &Term{Op: "phi", Args: []*Term{prev, t}}
					}
				} else {
					g.sm.Fields[f] = t
				}
			}
			for f, t := range one.Elems {
				if prev, ok := g.sm.Elems[f]; ok {
					g.sm.Elems[f] = &Term{Op: "phi", Args: []*Term{prev, t}}
				} else {
					g.sm.Elems[f] = t
				}
			}
		}
		for f, n := range seenF {
			if n < len(objs) {
				g.sm.Fields[f] = &Term{Op: "phi", Args: []*Term{g.sm.Fields[f], {Op: "const", Name: "zero"}}}
			}
		}
	}
	c.yamlRg[fn] = out
	return out
}

// c15RecordLookupLists: the lists against which a record built in place resolves the ids it carries - the list
// argument of every selector call (TraitWithId / NodeWithId), and the list of every search written out, among the
// alternatives of the record's by-id fields.
func c15RecordLookupLists(tab *wireTable, robj *readerObject) []ssa.Value {
	var out []ssa.Value
	seen := map[ssa.Value]bool{}
	add := func(v ssa.Value) {
		if v != nil && !seen[v] {
			seen[v] = true
			out = append(out, v)
		}
	}
	var visit func(t *Term, d int)
	visit = func(t *Term, d int) {
		if t == nil || d > 6 {
			return
		}
		switch t.Op {
		case "phi":
			for _, a := range t.Args {
				visit(a, d+1)
			}
		case "call":
			if cl, ok := t.V.(*ssa.Call); ok && len(cl.Call.Args) == 2 && (t.Name == "TraitWithId" || t.Name == "NodeWithId") {
				add(cl.Call.Args[1])
			}
		case "elem", "next":
			if len(t.Args) > 0 {
				add(t.Args[0].V)
			}
		}
	}
	for _, e := range tab.entries {
		if e.form != "traitById" && e.form != "nodeById" {
			continue
		}
		for _, t := range robj.raw[e.path] {
			visit(t, 0)
		}
	}
	return out
}
