package nc

// Registry maps property ids to their checks.
var Registry = map[string]func(p *Prog, r *Run){}

func register(id string, f func(p *Prog, r *Run)) { Registry[id] = f }

// ThoroughDeps lists, per property, the properties whose obligations it relies
// on. The thorough tier re-evaluates them in the same run (their obligation
// ids appear under the property being checked), on top of loading the full
// syntax of all dependencies so that library bodies are part of the call graph.
var ThoroughDeps = map[string][]string{
	"C01": {"C03", "C04", "C05", "C06", "C11"},
	"C02": {"C09", "C08", "C10"},
	"C03": {"C05"},
	"C04": {"C06"},
	"C05": {"C03"},
	"C09": {"C02"},
	"C10": {"C06", "C08", "C09"},
	"C11": {"C06"},
	"C12": {"C11", "C18"},
	"C13": {"C12"},
	"C15": {"C18", "C06"},
	"C16": {"C01", "C02", "C03"},
	"C17": {"C16"},
	"C20": {"C19"},
}
