package nc

// Registry maps property ids to their checks.
var Registry = map[string]func(p *Prog, r *Run){}

func register(id string, f func(p *Prog, r *Run)) { Registry[id] = f }
