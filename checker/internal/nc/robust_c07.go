package nc

import (
	"go/token"
	"go/types"

	"golang.org/x/tools/go/ssa"
)

// Helpers that let the C07 rules recognise the same facts in other code shapes
// (inlined helpers that return the unit through a phi, constant expressions the
// SSA builder leaves unfolded after inlining, remainder accounting placed after
// the loop instead of in front of the break).

// c07Int is constInt extended to integer constant expressions: after a helper
// call `f(state, 2, opts)` is inlined, `3 - side` becomes the instruction
// `3:int - 2:int`, which is the constant 1 although it is not an *ssa.Const.
func c07Int(v ssa.Value) (int64, bool) {
	if k, ok := constInt(v); ok {
		return k, true
	}
	b, ok := v.(*ssa.BinOp)
	if !ok {
		return 0, false
	}
	if bt, isBasic := b.Type().Underlying().(*types.Basic); !isBasic || bt.Info()&types.IsInteger == 0 {
		return 0, false
	}
	x, okx := c07Int(b.X)
	y, oky := c07Int(b.Y)
	if !okx || !oky {
		return 0, false
	}
	switch b.Op {
	case token.ADD:
		return x + y, true
	case token.SUB:
		return x - y, true
	case token.MUL:
		return x * y, true
	}
	return 0, false
}

// c07AllFeeders: v is, on every way it can be computed, a value satisfying pred
// (v itself, or a phi web whose non-phi inputs all satisfy pred; constants do not).
func c07AllFeeders(v ssa.Value, pred func(ssa.Value) bool) bool {
	w := phiWeb(v)
	if len(w.Consts) > 0 || w.HasNil || len(w.Feeders) == 0 {
		return false
	}
	for _, f := range w.Feeders {
		if !pred(f) {
			return false
		}
	}
	return true
}

// c07FullPaths extends a path that leaves the loop (or returns from inside it)
// by every acyclic continuation up to a return instruction. ok=false when the
// code behind the exit is not a finite set of acyclic paths to a return.
func c07FullPaths(fn *ssa.Function, ip *IterPath) ([]*IterPath, bool) {
	if len(ip.Blocks) == 0 {
		return nil, false
	}
	last := ip.Blocks[len(ip.Blocks)-1]
	if _, isRet := last.Instrs[len(last.Instrs)-1].(*ssa.Return); isRet {
		return []*IterPath{{Blocks: ip.Blocks, End: "partial", Conds: ip.Conds}}, true
	}
	if ip.ExitTo == nil || ip.ExitTo != last {
		return nil, false
	}
	conts, complete := EnumRegionPaths(fn, ip.ExitTo, func(*ssa.BasicBlock) bool { return false }, 200)
	if !complete || len(conts) == 0 {
		return nil, false
	}
	var out []*IterPath
	for _, c := range conts {
		if c.End != "return" || len(c.Blocks) == 0 || c.Blocks[0] != ip.ExitTo {
			return nil, false
		}
		blocks := append(append([]*ssa.BasicBlock{}, ip.Blocks...), c.Blocks[1:]...)
		conds := append(append([]Guard{}, ip.Conds...), c.Conds...)
		out = append(out, &IterPath{Blocks: blocks, End: "partial", Conds: conds})
	}
	return out, true
}

// c07RemainderTerm: is v (as computed on the path fp) the product
// float64(cursor + 1) * DisjointCoeff for a cursor of list 1 or list 2?
// Returns 1 or 2 for the list whose cursor it counts from, 0 when v has another shape.
func c07RemainderTerm(fp *IterPath, v ssa.Value, fam1, fam2 map[ssa.Value]bool, isDisjoint func(ssa.Value) bool) int {
	mul, ok := fp.ResolveAt(v).(*ssa.BinOp)
	if !ok || mul.Op != token.MUL {
		return 0
	}
	for _, pr := range [][2]ssa.Value{{mul.X, mul.Y}, {mul.Y, mul.X}} {
		if !isDisjoint(fp.ResolveAt(pr[1])) {
			continue
		}
		cv, ok := fp.ResolveAt(pr[0]).(*ssa.Convert)
		if !ok {
			continue
		}
		add, ok := fp.ResolveAt(cv.X).(*ssa.BinOp)
		if !ok || add.Op != token.ADD {
			continue
		}
		for _, qr := range [][2]ssa.Value{{add.X, add.Y}, {add.Y, add.X}} {
			if k, isK := c07Int(qr[1]); !isK || k != 1 {
				continue
			}
			cur := fp.ResolveAt(qr[0])
			switch {
			case fam1[cur] && !fam2[cur]:
				return 1
			case fam2[cur] && !fam1[cur]:
				return 2
			}
		}
	}
	return 0
}

// c07RemainderOnAllPaths decides the exit obligation of the backward walk for
// one way out of the loop: on every feasible continuation from that exit to the
// function result, either both lists are exhausted, or exactly one is and the
// value returned is the cost accumulator of the loop plus (among the other
// terms of the formula) exactly one term float64(cursor+1)*DisjointCoeff taken
// over the cursor of the list that is NOT exhausted. Where the addition is
// written (before the break, in the exit block, behind an if/else after the
// loop) does not matter; which path executes it does.
func c07RemainderOnAllPaths(fn *ssa.Function, tm *Termer, ip *IterPath, costAcc *ssa.Phi, fam1, fam2 map[ssa.Value]bool, isDisjoint func(ssa.Value) bool) (bool, string) {
	fulls, ok := c07FullPaths(fn, ip)
	if !ok {
		return false, " (the code behind this exit is not a finite set of acyclic paths to a return)"
	}
	feasible := 0
	for _, fp := range fulls {
		if relInfeasible(tm, fp.Conds) {
			continue
		}
		feasible++
		ex1, ex2 := false, false
		for _, g := range fp.Conds {
			if exhaustedBy(tm, g, fam1, "recv.Genes") {
				ex1 = true
			}
			if exhaustedBy(tm, g, fam2, "p1.Genes") {
				ex2 = true
			}
		}
		if ex1 && ex2 {
			continue
		}
		if !ex1 && !ex2 {
			return false, " (on a way from this exit to the result neither list is known to be exhausted)"
		}
		lastB := fp.Blocks[len(fp.Blocks)-1]
		ret, isRet := lastB.Instrs[len(lastB.Instrs)-1].(*ssa.Return)
		if !isRet || len(ret.Results) != 1 {
			return false, " (no single result at the end of the path)"
		}
		adds, subs, okD := fp.Delta(ret.Results[0], costAcc)
		if !okD || len(subs) > 0 {
			return false, " (the value returned behind this exit is not the accumulated cost plus further terms)"
		}
		n, right := 0, 0
		for _, a := range adds {
			switch c07RemainderTerm(fp, a, fam1, fam2, isDisjoint) {
			case 1:
				n++
				if ex2 {
					right++
				}
			case 2:
				n++
				if ex1 {
					right++
				}
			}
		}
		if n != 1 || right != 1 {
			return false, ""
		}
	}
	if feasible == 0 {
		return false, " (no feasible continuation behind this exit)"
	}
	return true, ""
}

// c07PathInt: the integer constant v evaluates to on the path (a step `i += d`
// whose d comes out of an inlined helper is a phi of constants; the path picks one).
func c07PathInt(ip *IterPath, v ssa.Value) (int64, bool) {
	return c07Int(c07OnPath(ip).Resolve(v))
}

// c07OnPath: the path as a plain block sequence (without the closing header
// revisit of a back path), for resolving phis to the operand chosen on it.
func c07OnPath(ip *IterPath) *IterPath {
	bl := ip.Blocks
	if ip.End == "back" && len(bl) > 0 {
		bl = bl[:len(bl)-1]
	}
	return &IterPath{Blocks: bl, End: "partial"}
}

// Order relations between two integers as a bit set.
const (
	c07RelLT = 1
	c07RelEQ = 2
	c07RelGT = 4
)

func c07RelSet(op token.Token, outcome bool) (int, bool) {
	var set int
	switch op {
	case token.LSS:
		set = c07RelLT
	case token.LEQ:
		set = c07RelLT | c07RelEQ
	case token.GTR:
		set = c07RelGT
	case token.GEQ:
		set = c07RelGT | c07RelEQ
	case token.EQL:
		set = c07RelEQ
	case token.NEQ:
		set = c07RelLT | c07RelGT
	default:
		return 0, false
	}
	if !outcome {
		set = (c07RelLT | c07RelEQ | c07RelGT) &^ set
	}
	return set, true
}

func c07Mirror(set int) int {
	m := set & c07RelEQ
	if set&c07RelLT != 0 {
		m |= c07RelGT
	}
	if set&c07RelGT != 0 {
		m |= c07RelLT
	}
	return m
}

// c07InnovRel: which relations between A = innovation number of the current
// gene of list 1 and B = that of list 2 the branch outcomes of the path leave
// possible (A<B, A==B, A>B as a bit set). `==` taken gives {EQ}; so do `<`
// refused together with `>` refused - the integers are totally ordered.
func c07InnovRel(tm *Termer, conds []Guard) int {
	const A, B = "recv.Genes[*].InnovationNum", "p1.Genes[*].InnovationNum"
	mask := c07RelLT | c07RelEQ | c07RelGT
	for _, g := range conds {
		b, ok := g.Cond.(*ssa.BinOp)
		if !ok {
			continue
		}
		set, ok := c07RelSet(b.Op, g.True)
		if !ok {
			continue
		}
		x, y := tm.Of(b.X).String(), tm.Of(b.Y).String()
		switch {
		case x == A && y == B:
		case x == B && y == A:
			set = c07Mirror(set)
		default:
			continue
		}
		mask &= set
	}
	return mask
}

// c07AbsByHand: the value added on this path is |m1 - m2| of the two current
// genes computed without math.Abs: the difference d itself on a path whose
// branch outcomes say d is not negative, or -d on a path where they say d is
// not positive (`if d < 0 { d = -d }`). For NaN both forms yield NaN, as math.Abs does.
func c07AbsByHand(tm *Termer, ip *IterPath, a ssa.Value) bool {
	const M1, M2 = "recv.Genes[*].MutationNum", "p1.Genes[*].MutationNum"
	isDiff := func(v ssa.Value) bool {
		b, ok := v.(*ssa.BinOp)
		if !ok || b.Op != token.SUB {
			return false
		}
		x, y := tm.Of(b.X).String(), tm.Of(b.Y).String()
		return (x == M1 && y == M2) || (x == M2 && y == M1)
	}
	signOf := func(d ssa.Value) int { // relations of d to 0 left possible by the path
		mask := c07RelLT | c07RelEQ | c07RelGT
		for _, g := range ip.Conds {
			b, ok := g.Cond.(*ssa.BinOp)
			if !ok {
				continue
			}
			set, ok := c07RelSet(b.Op, g.True)
			if !ok {
				continue
			}
			kx, zx := constInt(b.X)
			ky, zy := constInt(b.Y)
			switch {
			case b.X == d && zy && ky == 0:
			case b.Y == d && zx && kx == 0:
				set = c07Mirror(set)
			default:
				continue
			}
			mask &= set
		}
		return mask
	}
	v := c07OnPath(ip).Resolve(a)
	if isDiff(v) && signOf(v)&c07RelLT == 0 {
		return true
	}
	if u, ok := v.(*ssa.UnOp); ok && u.Op == token.SUB && isDiff(u.X) && signOf(u.X)&c07RelGT == 0 {
		return true
	}
	return false
}

// c07NonZeroBy: does the branch outcome (cmp, outcome) say that den is positive?
// Accepts den > 0, 0 < den, den >= 1, 1 <= den and the refused complements
// (!(den <= 0), !(den < 1), ...); den may be compared through a numeric conversion.
func c07NonZeroBy(cmp *ssa.BinOp, outcome bool, den ssa.Value) bool {
	set, ok := c07RelSet(cmp.Op, outcome)
	if !ok {
		return false
	}
	strip := func(v ssa.Value) ssa.Value {
		if cv, ok := v.(*ssa.Convert); ok {
			return cv.X
		}
		return v
	}
	x, y := strip(cmp.X), strip(cmp.Y)
	var k int64
	switch {
	case x == den:
		c, isK := constInt(y)
		if !isK {
			return false
		}
		k = c
	case y == den:
		c, isK := constInt(x)
		if !isK {
			return false
		}
		k = c
		set = c07Mirror(set)
	default:
		return false
	}
	switch k {
	case 0:
		return set == c07RelGT // den > 0
	case 1:
		return set&c07RelLT == 0 // den >= 1
	}
	return false
}

// c07ReadsField: does the computation of v (followed backwards through
// arithmetic, conversions, phis, call arguments and tuple extraction) load a
// struct field satisfying pred?
func c07ReadsField(v ssa.Value, pred func(*types.Var) bool) bool {
	seen := map[ssa.Value]bool{}
	var visit func(x ssa.Value, depth int) bool
	visit = func(x ssa.Value, depth int) bool {
		if x == nil || seen[x] || depth > 40 {
			return false
		}
		seen[x] = true
		switch y := x.(type) {
		case *ssa.UnOp:
			if y.Op == token.MUL {
				if fa, ok := y.X.(*ssa.FieldAddr); ok {
					if pred(fieldOf(fa.X.Type(), fa.Field)) {
						return true
					}
				}
				return false
			}
			return visit(y.X, depth+1)
		case *ssa.Field:
			if pred(fieldOf(y.X.Type(), y.Field)) {
				return true
			}
			return visit(y.X, depth+1)
		case *ssa.BinOp:
			return visit(y.X, depth+1) || visit(y.Y, depth+1)
		case *ssa.Convert:
			return visit(y.X, depth+1)
		case *ssa.ChangeType:
			return visit(y.X, depth+1)
		case *ssa.Extract:
			return visit(y.Tuple, depth+1)
		case *ssa.Phi:
			for _, e := range y.Edges {
				if visit(e, depth+1) {
					return true
				}
			}
		case *ssa.Call:
			for _, a := range y.Call.Args {
				if visit(a, depth+1) {
					return true
				}
			}
		}
		return false
	}
	return visit(v, 0)
}

// c07ParamRoot: the parameter (or receiver) v is, looking through type changes.
func c07ParamRoot(v ssa.Value) *ssa.Parameter {
	for {
		if ct, ok := v.(*ssa.ChangeType); ok {
			v = ct.X
			continue
		}
		break
	}
	prm, _ := v.(*ssa.Parameter)
	return prm
}

// c07ReachesParam: v is computed from a parameter of its function (through
// arithmetic, conversions, phis and call arguments) - a value the caller supplied.
func c07ReachesParam(v ssa.Value) bool {
	seen := map[ssa.Value]bool{}
	var visit func(x ssa.Value, depth int) bool
	visit = func(x ssa.Value, depth int) bool {
		if x == nil || seen[x] || depth > 40 {
			return false
		}
		seen[x] = true
		switch y := x.(type) {
		case *ssa.Parameter:
			return true
		case *ssa.UnOp:
			if y.Op == token.MUL {
				return false
			}
			return visit(y.X, depth+1)
		case *ssa.BinOp:
			return visit(y.X, depth+1) || visit(y.Y, depth+1)
		case *ssa.Convert:
			return visit(y.X, depth+1)
		case *ssa.ChangeType:
			return visit(y.X, depth+1)
		case *ssa.Extract:
			return visit(y.Tuple, depth+1)
		case *ssa.Phi:
			for _, e := range y.Edges {
				if visit(e, depth+1) {
					return true
				}
			}
		case *ssa.Call:
			for _, a := range y.Call.Args {
				if visit(a, depth+1) {
					return true
				}
			}
		}
		return false
	}
	return visit(v, 0)
}

// c07CallersPassFresh: every static call of fn in the library passes, for the
// parameter prm, an object allocated in the calling function (or the caller is
// itself such a pass-through for one of its own parameters). fn must not be
// used as a function value. No call site at all counts as true.
func c07CallersPassFresh(p *Prog, fn *ssa.Function, prm *ssa.Parameter, depth int) bool {
	if depth > 3 {
		return false
	}
	idx := -1
	for i, q := range fn.Params {
		if q == prm {
			idx = i
		}
	}
	if idx < 0 {
		return false
	}
	ok := true
	for _, caller := range p.SrcFuncs() {
		Instrs(caller, func(_ *ssa.BasicBlock, _ int, in ssa.Instruction) {
			// fn used as a value (method value, stored in a variable): callers unknown
			if _, isCall := in.(ssa.CallInstruction); !isCall {
				for _, op := range in.Operands(nil) {
					if op != nil && *op == ssa.Value(fn) {
						ok = false
					}
				}
			}
		})
		for _, c := range CallsTo(caller, fn) {
			args := c.Common().Args
			if idx >= len(args) {
				ok = false
				continue
			}
			a := args[idx]
			for {
				if ct, isCT := a.(*ssa.ChangeType); isCT {
					a = ct.X
					continue
				}
				break
			}
			switch x := a.(type) {
			case *ssa.Alloc:
			case *ssa.Parameter:
				if !c07CallersPassFresh(p, caller, x, depth+1) {
					ok = false
				}
			default:
				ok = false
			}
		}
	}
	return ok
}
