package nc

import (
	"fmt"
	"go/constant"
	"go/token"
	"go/types"
	"reflect"
	"strings"

	"golang.org/x/tools/go/ssa"
)

// Helpers that let the C07 rules recognise the same facts in other code shapes
// (inlined helpers that return the unit through a phi, constant expressions the
// SSA builder leaves unfolded after inlining, remainder accounting placed after
// the loop instead of in front of the break).

// c07Int is constInt extended to integer constant expressions: after a helper
// call `f(state, 2, opts)` is inlined, `3 - side` becomes the instruction
// `3:int - 2:int`, which is the constant 1 although it is not an *ssa.Const.
func c07Int(v ssa.Value) (int64, bool) {
	if k, ok := constInt(v); ok {
		return k, true
	}
	b, ok := v.(*ssa.BinOp)
	if !ok {
		return 0, false
	}
	if bt, isBasic := b.Type().Underlying().(*types.Basic); !isBasic || bt.Info()&types.IsInteger == 0 {
		return 0, false
	}
	x, okx := c07Int(b.X)
	y, oky := c07Int(b.Y)
	if !okx || !oky {
		return 0, false
	}
	switch b.Op {
	case token.ADD:
		return x + y, true
	case token.SUB:
		return x - y, true
	case token.MUL:
		return x * y, true
	}
	return 0, false
}

// c07AllFeeders: v is, on every way it can be computed, a value satisfying pred
// (v itself, or a phi web whose non-phi inputs all satisfy pred; constants do not).
func c07AllFeeders(v ssa.Value, pred func(ssa.Value) bool) bool {
	w := phiWeb(v)
	if len(w.Consts) > 0 || w.HasNil || len(w.Feeders) == 0 {
		return false
	}
	for _, f := range w.Feeders {
		if !pred(f) {
			return false
		}
	}
	return true
}

// c07FullPaths extends a path that leaves the loop (or returns from inside it)
// by every acyclic continuation up to a return instruction. ok=false when the
// code behind the exit is not a finite set of acyclic paths to a return.
func c07FullPaths(fn *ssa.Function, ip *IterPath) ([]*IterPath, bool) {
	if len(ip.Blocks) == 0 {
		return nil, false
	}
	last := ip.Blocks[len(ip.Blocks)-1]
	if _, isRet := last.Instrs[len(last.Instrs)-1].(*ssa.Return); isRet {
		return []*IterPath{{Blocks: ip.Blocks, End: "partial", Conds: ip.Conds}}, true
	}
	if ip.ExitTo == nil || ip.ExitTo != last {
		return nil, false
	}
	conts, complete := EnumRegionPaths(fn, ip.ExitTo, func(*ssa.BasicBlock) bool { return false }, 200)
	if !complete || len(conts) == 0 {
		return nil, false
	}
	var out []*IterPath
	for _, c := range conts {
		if c.End != "return" || len(c.Blocks) == 0 || c.Blocks[0] != ip.ExitTo {
			return nil, false
		}
		blocks := append(append([]*ssa.BasicBlock{}, ip.Blocks...), c.Blocks[1:]...)
		conds := append(append([]Guard{}, ip.Conds...), c.Conds...)
		out = append(out, &IterPath{Blocks: blocks, End: "partial", Conds: conds})
	}
	return out, true
}

// c07RemainderTerm: is v (as computed on the path fp) the product
// float64(number of genes list k still holds) * DisjointCoeff, the number being index+1 for the index the cursor of
// list k stands for: `cursor + 1` for an index cursor, the cursor itself for a cursor that counts the genes left,
// in general cursor + m with m = off(cursor) + 1 (c07Cur.Off)?
// Returns 1 or 2 for the list whose cursor it counts from, 0 when v has another shape.
func c07RemainderTerm(tm *Termer, fp *IterPath, v ssa.Value, fam1, fam2 map[ssa.Value]bool, isDisjoint func(ssa.Value) bool) int {
	mul, ok := fp.ResolveAt(v).(*ssa.BinOp)
	if !ok || mul.Op != token.MUL {
		return 0
	}
	// left(cur, m): cur + m is the number of genes left in list 1 / 2
	left := func(cur ssa.Value, m int64) int {
		k, listTerm := 0, ""
		switch {
		case fam1[cur] && !fam2[cur]:
			k, listTerm = 1, "recv.Genes"
		case fam2[cur] && !fam1[cur]:
			k, listTerm = 2, "p1.Genes"
		default:
			return 0
		}
		if off, okOff := tm.c07CurOf(listTerm).Off(cur); okOff && m == off+1 {
			return k
		}
		return 0
	}
	for _, pr := range [][2]ssa.Value{{mul.X, mul.Y}, {mul.Y, mul.X}} {
		if !isDisjoint(fp.ResolveAt(pr[1])) {
			continue
		}
		cv, ok := fp.ResolveAt(pr[0]).(*ssa.Convert)
		if !ok {
			continue
		}
		n := fp.ResolveAt(cv.X)
		if k := left(n, 0); k != 0 {
			return k
		}
		add, ok := n.(*ssa.BinOp)
		if !ok || (add.Op != token.ADD && add.Op != token.SUB) {
			continue
		}
		for _, qr := range [][2]ssa.Value{{add.X, add.Y}, {add.Y, add.X}} {
			m, isK := c07Int(qr[1])
			if !isK {
				continue
			}
			if add.Op == token.SUB {
				if qr[1] != add.Y {
					continue
				}
				m = -m
			}
			if k := left(fp.ResolveAt(qr[0]), m); k != 0 {
				return k
			}
		}
	}
	return 0
}

// c07RemainderOnAllPaths decides the exit obligation of the backward walk for
// one way out of the loop: on every feasible continuation from that exit to the
// function result, either both lists are exhausted, or exactly one is and the
// value returned is the cost accumulator of the loop plus (among the other
// terms of the formula) exactly one term float64(cursor+1)*DisjointCoeff taken
// over the cursor of the list that is NOT exhausted. Where the addition is
// written (before the break, in the exit block, behind an if/else after the
// loop) does not matter; which path executes it does.
func c07RemainderOnAllPaths(fn *ssa.Function, tm *Termer, ip *IterPath, costAcc *ssa.Phi, fam1, fam2 map[ssa.Value]bool, isDisjoint func(ssa.Value) bool) (bool, string) {
	fulls, ok := c07FullPaths(fn, ip)
	if !ok {
		return false, " (the code behind this exit is not a finite set of acyclic paths to a return)"
	}
	feasible := 0
	for _, fp := range fulls {
		if relInfeasible(tm, fp.Conds) {
			continue
		}
		feasible++
		ex1, ex2 := false, false
		for _, g := range fp.Conds {
			if exhaustedBy(tm, g, fam1, "recv.Genes") {
				ex1 = true
			}
			if exhaustedBy(tm, g, fam2, "p1.Genes") {
				ex2 = true
			}
		}
		if ex1 && ex2 {
			continue
		}
		if !ex1 && !ex2 {
			return false, " (on a way from this exit to the result neither list is known to be exhausted)"
		}
		lastB := fp.Blocks[len(fp.Blocks)-1]
		ret, isRet := lastB.Instrs[len(lastB.Instrs)-1].(*ssa.Return)
		if !isRet || len(ret.Results) != 1 {
			return false, " (no single result at the end of the path)"
		}
		adds, subs, okD := fp.Delta(ret.Results[0], costAcc)
		if !okD || len(subs) > 0 {
			return false, " (the value returned behind this exit is not the accumulated cost plus further terms)"
		}
		n, right := 0, 0
		for _, a := range adds {
			switch c07RemainderTerm(tm, fp, a, fam1, fam2, isDisjoint) {
			case 1:
				n++
				if ex2 {
					right++
				}
			case 2:
				n++
				if ex1 {
					right++
				}
			}
		}
		if n != 1 || right != 1 {
			return false, ""
		}
	}
	if feasible == 0 {
		return false, " (no feasible continuation behind this exit)"
	}
	return true, ""
}

// c07PathInt: the integer constant v evaluates to on the path (a step `i += d`
// whose d comes out of an inlined helper is a phi of constants; the path picks one).
func c07PathInt(ip *IterPath, v ssa.Value) (int64, bool) {
	return c07Int(c07OnPath(ip).Resolve(v))
}

// c07OnPath: the path as a plain block sequence (without the closing header
// revisit of a back path), for resolving phis to the operand chosen on it.
func c07OnPath(ip *IterPath) *IterPath {
	bl := ip.Blocks
	if ip.End == "back" && len(bl) > 0 {
		bl = bl[:len(bl)-1]
	}
	return &IterPath{Blocks: bl, End: "partial"}
}

// Order relations between two integers as a bit set.
const (
	c07RelLT = 1
	c07RelEQ = 2
	c07RelGT = 4
)

func c07RelSet(op token.Token, outcome bool) (int, bool) {
	var set int
	switch op {
	case token.LSS:
		set = c07RelLT
	case token.LEQ:
		set = c07RelLT | c07RelEQ
	case token.GTR:
		set = c07RelGT
	case token.GEQ:
		set = c07RelGT | c07RelEQ
	case token.EQL:
		set = c07RelEQ
	case token.NEQ:
		set = c07RelLT | c07RelGT
	default:
		return 0, false
	}
	if !outcome {
		set = (c07RelLT | c07RelEQ | c07RelGT) &^ set
	}
	return set, true
}

// c07Fact states a branch outcome the way canon.go's CmpFact does - as a comparison `x rel y` that HOLDS, with
// `!` removed (a refused `!c` is c taken) and a constant on the left moved to the right (`3 == s` -> `s == 3`,
// `0 > i` -> `i < 0`) - but gives the relation as the set of orderings the outcome leaves possible between x and y
// (c07Rel* bits) instead of one operator. That keeps a refused ordering test of a floating-point counter readable
// (`numMatching > 0` refused: "not greater"; CmpFact gives up there because of NaN, which a sum of 1.0s never is),
// and lets several outcomes on one pair be intersected. Every reader of path conditions in C07 goes through this
// function, so the spelling of a test (operand order, complement under `!`, if/else exchanged) does not matter.
func c07Fact(cond ssa.Value, outcome bool) (x, y ssa.Value, set int, ok bool) {
	for {
		if u, isU := cond.(*ssa.UnOp); isU && u.Op == token.NOT {
			cond, outcome = u.X, !outcome
			continue
		}
		break
	}
	b, isB := cond.(*ssa.BinOp)
	if !isB {
		return nil, nil, 0, false
	}
	set, ok = c07RelSet(b.Op, outcome)
	if !ok {
		return nil, nil, 0, false
	}
	x, y = b.X, b.Y
	if _, lc := c07Int(x); lc {
		if _, rc := c07Int(y); !rc {
			x, y, set = y, x, c07Mirror(set)
		}
	}
	return x, y, set, true
}

// c07FactAbout: the outcome as a relation `v rel other` for the operand v picked by is (either side of the test).
func c07FactAbout(cond ssa.Value, outcome bool, is func(ssa.Value) bool) (other ssa.Value, set int, ok bool) {
	x, y, set, ok := c07Fact(cond, outcome)
	if !ok {
		return nil, 0, false
	}
	switch {
	case is(x):
		return y, set, true
	case is(y):
		return x, c07Mirror(set), true
	}
	return nil, 0, false
}

// c07StateOnPath: the value of the excess/disjoint switch on this path, decided from every test of the switch
// against a constant the path takes or refuses, whatever its spelling (`s == 3`, `3 == s`, `!(s != 3)`, `s >= 3`,
// ...): of the four states 0..3 (start state 0 and every next state are proved to be one of them) exactly one
// must remain possible. -1 when the outcomes leave more than one state (or none).
func c07StateOnPath(conds []Guard, sw ssa.Value) int64 {
	possible := map[int64]bool{0: true, 1: true, 2: true, 3: true}
	for _, g := range conds {
		o, set, ok := c07FactAbout(g.Cond, g.True, func(v ssa.Value) bool { return v == sw })
		if !ok {
			continue
		}
		k, isK := c07Int(o)
		if !isK {
			continue
		}
		for s := range possible {
			rel := c07RelEQ
			if s < k {
				rel = c07RelLT
			} else if s > k {
				rel = c07RelGT
			}
			if set&rel == 0 {
				delete(possible, s)
			}
		}
	}
	if len(possible) != 1 {
		return -1
	}
	for s := range possible {
		return s
	}
	return -1
}

func c07Mirror(set int) int {
	m := set & c07RelEQ
	if set&c07RelLT != 0 {
		m |= c07RelGT
	}
	if set&c07RelGT != 0 {
		m |= c07RelLT
	}
	return m
}

// c07InnovRel: which relations between A = innovation number of the current
// gene of list 1 and B = that of list 2 the branch outcomes of the path leave
// possible (A<B, A==B, A>B as a bit set). `==` taken gives {EQ}; so do `<`
// refused together with `>` refused - the integers are totally ordered.
func c07InnovRel(tm *Termer, conds []Guard) int {
	const A, B = "recv.Genes[*].InnovationNum", "p1.Genes[*].InnovationNum"
	mask := c07RelLT | c07RelEQ | c07RelGT
	for _, g := range conds {
		bx, by, set, ok := c07Fact(g.Cond, g.True)
		if !ok {
			continue
		}
		x, y := tm.Of(bx).String(), tm.Of(by).String()
		switch {
		case x == A && y == B:
		case x == B && y == A:
			set = c07Mirror(set)
		default:
			continue
		}
		mask &= set
	}
	return mask
}

// c07AbsByHand: the value added on this path is |m1 - m2| of the two current
// genes computed without math.Abs: the difference d itself on a path whose
// branch outcomes say d is not negative, or -d on a path where they say d is
// not positive (`if d < 0 { d = -d }`). For NaN both forms yield NaN, as math.Abs does.
func c07AbsByHand(tm *Termer, ip *IterPath, a ssa.Value) bool {
	const M1, M2 = "recv.Genes[*].MutationNum", "p1.Genes[*].MutationNum"
	isDiff := func(v ssa.Value) bool {
		b, ok := v.(*ssa.BinOp)
		if !ok || b.Op != token.SUB {
			return false
		}
		x, y := tm.Of(b.X).String(), tm.Of(b.Y).String()
		return (x == M1 && y == M2) || (x == M2 && y == M1)
	}
	signOf := func(d ssa.Value) int { // relations of d to 0 left possible by the path
		mask := c07RelLT | c07RelEQ | c07RelGT
		for _, g := range ip.Conds {
			o, set, ok := c07FactAbout(g.Cond, g.True, func(v ssa.Value) bool { return v == d })
			if !ok {
				continue
			}
			if k, isK := constInt(o); !isK || k != 0 {
				continue
			}
			mask &= set
		}
		return mask
	}
	v := c07OnPath(ip).Resolve(a)
	if isDiff(v) && signOf(v)&c07RelLT == 0 {
		return true
	}
	if u, ok := v.(*ssa.UnOp); ok && u.Op == token.SUB && isDiff(u.X) && signOf(u.X)&c07RelGT == 0 {
		return true
	}
	return false
}

// c07NonZeroBy: does the branch outcome (cmp, outcome) say that den is positive?
// Accepts den > 0, 0 < den, den >= 1, 1 <= den and the refused complements
// (!(den <= 0), !(den < 1), ...); den may be compared through a numeric conversion.
func c07NonZeroBy(cmp ssa.Value, outcome bool, den ssa.Value) bool {
	strip := func(v ssa.Value) ssa.Value {
		if cv, ok := v.(*ssa.Convert); ok {
			return cv.X
		}
		return v
	}
	o, set, ok := c07FactAbout(cmp, outcome, func(v ssa.Value) bool { return v == den || strip(v) == den })
	if !ok {
		return false
	}
	k, isK := constInt(o)
	if !isK {
		return false
	}
	switch k {
	case 0:
		return set == c07RelGT || set == c07RelLT|c07RelGT // den > 0, den != 0
	case 1:
		return set&c07RelLT == 0 // den >= 1
	}
	return false
}

// c07ReadsField: does the computation of v (followed backwards through
// arithmetic, conversions, phis, call arguments and tuple extraction) load a
// struct field satisfying pred?
func c07ReadsField(v ssa.Value, pred func(*types.Var) bool) bool {
	seen := map[ssa.Value]bool{}
	var visit func(x ssa.Value, depth int) bool
	visit = func(x ssa.Value, depth int) bool {
		if x == nil || seen[x] || depth > 40 {
			return false
		}
		seen[x] = true
		switch y := x.(type) {
		case *ssa.UnOp:
			if y.Op == token.MUL {
				if fa, ok := y.X.(*ssa.FieldAddr); ok {
					if pred(fieldOf(fa.X.Type(), fa.Field)) {
						return true
					}
				}
				return false
			}
			return visit(y.X, depth+1)
		case *ssa.Field:
			if pred(fieldOf(y.X.Type(), y.Field)) {
				return true
			}
			return visit(y.X, depth+1)
		case *ssa.BinOp:
			return visit(y.X, depth+1) || visit(y.Y, depth+1)
		case *ssa.Convert:
			return visit(y.X, depth+1)
		case *ssa.ChangeType:
			return visit(y.X, depth+1)
		case *ssa.Extract:
			return visit(y.Tuple, depth+1)
		case *ssa.Phi:
			for _, e := range y.Edges {
				if visit(e, depth+1) {
					return true
				}
			}
		case *ssa.Call:
			for _, a := range y.Call.Args {
				if visit(a, depth+1) {
					return true
				}
			}
		}
		return false
	}
	return visit(v, 0)
}

// c07ParamRoot: the parameter (or receiver) v is, looking through type changes.
func c07ParamRoot(v ssa.Value) *ssa.Parameter {
	for {
		if ct, ok := v.(*ssa.ChangeType); ok {
			v = ct.X
			continue
		}
		break
	}
	prm, _ := v.(*ssa.Parameter)
	return prm
}

// c07ReachesParam: v is computed from a parameter of its function (through
// arithmetic, conversions, phis and call arguments) - a value the caller supplied.
func c07ReachesParam(v ssa.Value) bool {
	seen := map[ssa.Value]bool{}
	var visit func(x ssa.Value, depth int) bool
	visit = func(x ssa.Value, depth int) bool {
		if x == nil || seen[x] || depth > 40 {
			return false
		}
		seen[x] = true
		switch y := x.(type) {
		case *ssa.Parameter:
			return true
		case *ssa.UnOp:
			if y.Op == token.MUL {
				return false
			}
			return visit(y.X, depth+1)
		case *ssa.BinOp:
			return visit(y.X, depth+1) || visit(y.Y, depth+1)
		case *ssa.Convert:
			return visit(y.X, depth+1)
		case *ssa.ChangeType:
			return visit(y.X, depth+1)
		case *ssa.Extract:
			return visit(y.Tuple, depth+1)
		case *ssa.Phi:
			for _, e := range y.Edges {
				if visit(e, depth+1) {
					return true
				}
			}
		case *ssa.Call:
			for _, a := range y.Call.Args {
				if visit(a, depth+1) {
					return true
				}
			}
		}
		return false
	}
	return visit(v, 0)
}

// c07CallersPassFresh: every static call of fn in the library passes, for the
// parameter prm, an object allocated in the calling function (or the caller is
// itself such a pass-through for one of its own parameters). fn must not be
// used as a function value. No call site at all counts as true.
func c07CallersPassFresh(p *Prog, fn *ssa.Function, prm *ssa.Parameter, depth int) bool {
	if depth > 3 {
		return false
	}
	idx := -1
	for i, q := range fn.Params {
		if q == prm {
			idx = i
		}
	}
	if idx < 0 {
		return false
	}
	ok := true
	for _, caller := range p.SrcFuncs() {
		Instrs(caller, func(_ *ssa.BasicBlock, _ int, in ssa.Instruction) {
			// fn used as a value (method value, stored in a variable): callers unknown
			if _, isCall := in.(ssa.CallInstruction); !isCall {
				for _, op := range in.Operands(nil) {
					if op != nil && *op == ssa.Value(fn) {
						ok = false
					}
				}
			}
		})
		for _, c := range CallsTo(caller, fn) {
			args := c.Common().Args
			if idx >= len(args) {
				ok = false
				continue
			}
			a := args[idx]
			for {
				if ct, isCT := a.(*ssa.ChangeType); isCT {
					a = ct.X
					continue
				}
				break
			}
			switch x := a.(type) {
			case *ssa.Alloc:
			case *ssa.Parameter:
				if !c07CallersPassFresh(p, caller, x, depth+1) {
					ok = false
				}
			default:
				ok = false
			}
		}
	}
	return ok
}

// ---------------------------------------------------------------------------
// Loop fission by phase: the merge walk written as one loop over both lists
// followed by tail loops that each walk the rest of one list.

// c07SplitLoops picks the merge loop (the one loop that carries a cursor of
// each list) and the tail loops (every other loop: behind the merge loop,
// sharing no block with it or with each other, ordered by dominance).
// A single loop is the merge loop, as before.
func c07SplitLoops(loops []*Loop, fam1, fam2 map[ssa.Value]bool) (*Loop, []*Loop, string) {
	if len(loops) == 1 {
		return loops[0], nil, ""
	}
	var main *Loop
	for _, l := range loops {
		has1, has2 := false, false
		for _, ph := range HeaderPhis(l) {
			if fam1[ph] && !fam2[ph] {
				has1 = true
			}
			if fam2[ph] && !fam1[ph] {
				has2 = true
			}
		}
		if has1 && has2 {
			if main != nil {
				return nil, nil, fmt.Sprintf("expected one merge loop, found %d loops of which more than one carries both cursors", len(loops))
			}
			main = l
		}
	}
	if main == nil {
		return nil, nil, fmt.Sprintf("expected one merge loop, found %d", len(loops))
	}
	var rest []*Loop
	for _, l := range loops {
		if l == main {
			continue
		}
		if main.Blocks[l.Header] || !main.Header.Dominates(l.Header) {
			return nil, nil, fmt.Sprintf("expected one merge loop, found %d; a further loop is nested in the merge loop or not behind it", len(loops))
		}
		for b := range l.Blocks {
			if main.Blocks[b] {
				return nil, nil, fmt.Sprintf("expected one merge loop, found %d; a further loop shares blocks with the merge loop", len(loops))
			}
		}
		rest = append(rest, l)
	}
	// dominance chain: the loop whose header dominates all remaining headers comes first
	var tails []*Loop
	for len(rest) > 0 {
		pick := -1
		for i, a := range rest {
			first := true
			for j, b := range rest {
				if i != j && !a.Header.Dominates(b.Header) {
					first = false
				}
			}
			if first {
				pick = i
				break
			}
		}
		if pick < 0 {
			return nil, nil, fmt.Sprintf("expected one merge loop, found %d; the loops behind the merge loop are not executed one after the other", len(loops))
		}
		a := rest[pick]
		rest = append(rest[:pick:pick], rest[pick+1:]...)
		for _, b := range rest {
			if a.Blocks[b.Header] {
				return nil, nil, fmt.Sprintf("expected one merge loop, found %d; the loops behind the merge loop are nested", len(loops))
			}
		}
		tails = append(tails, a)
	}
	return main, tails, ""
}

// c07Tails: what the tail loops behind the merge loop were proved to do.
type c07Tails struct {
	OK     bool          // every tail loop is sound and the last accumulated value is the one the formula uses
	ByList map[int]*Loop // list number -> a sound tail loop that counts the rest of that list
	Last   *ssa.Phi      // the unit accumulator of the last tail loop (the value the formula must use)
}

// c07Unavoidable: every way from `from` to a return passes through block `through`.
func c07Unavoidable(from, through *ssa.BasicBlock) bool {
	if from == nil || through == nil {
		return false
	}
	if from == through {
		return true
	}
	seen := map[*ssa.BasicBlock]bool{through: true}
	stack := []*ssa.BasicBlock{from}
	for len(stack) > 0 {
		b := stack[len(stack)-1]
		stack = stack[:len(stack)-1]
		if seen[b] {
			continue
		}
		seen[b] = true
		if len(b.Succs) == 0 {
			return false // a return (or panic) reached without passing `through`
		}
		stack = append(stack, b.Succs...)
	}
	return true
}

// c07SignedStep: by how much does the loop-carried integer ph change on the path (constant steps only)?
func c07SignedStep(ip *IterPath, ph *ssa.Phi) (int, bool) {
	next := ip.NextValue(ph)
	if next == nil {
		return 0, false
	}
	adds, subs, ok := ip.Delta(next, ph)
	if !ok {
		return 0, false
	}
	n := 0
	for _, a := range adds {
		k, isK := c07PathInt(ip, a)
		if !isK {
			return 0, false
		}
		n += int(k)
	}
	for _, s := range subs {
		k, isK := c07PathInt(ip, s)
		if !isK {
			return 0, false
		}
		n -= int(k)
	}
	return n, true
}

// c07CheckTails judges the tail loops behind the merge loop, in execution order.
// A tail loop over list k is sound when
//   - it carries the cursor of list k and the unit accumulator (excess counter of the linear walk, cost of the
//     backward walk) and nothing else; on entry both continue the values the walk had reached so far (the cursor
//     and accumulator of the merge loop or of the previous tail loop - no reset, no skipped contribution);
//   - every iteration runs under the test that the cursor is still inside its list, moves the cursor by one step
//     in the direction of the merge walk and adds exactly one unit (1 excess gene / one DisjointCoeff);
//   - it is left only under the test that the cursor ran off its list (so every remaining gene is counted);
//   - it can iterate only when the OTHER list is exhausted: on every edge entering the loop the branch outcomes
//     say that the other list's current cursor is exhausted (a value fixed during the loop), or that this loop's
//     own cursor is (then the body is not entered at all from that edge). Only then is a gene counted here
//     really an excess gene (linear) / a gene without partner (backward walk);
//
// and the accumulator of the last tail loop is the value that the distance formula multiplies by ExcessCoeff
// (linear) or returns (backward walk).
func (r *Run) c07CheckTails(fn *ssa.Function, tm *Termer, kind string, main *Loop, tails []*Loop, fam1, fam2 map[ssa.Value]bool,
	c1, c2, mainAcc *ssa.Phi, mainPaths []*IterPath, roleOf func(*ssa.Phi) string, isDisjoint, isExcess func(ssa.Value) bool) *c07Tails {
	p := r.P
	info := &c07Tails{OK: true, ByList: map[int]*Loop{}}
	// direction of the merge walk per cursor
	dir := map[int]int{}
	for _, ip := range mainPaths {
		if ip.End != "back" {
			continue
		}
		for k, c := range map[int]*ssa.Phi{1: c1, 2: c2} {
			if n, ok := c07SignedStep(ip, c); ok && n != 0 && dir[k] == 0 {
				dir[k] = n
			}
		}
	}
	cur := map[int]ssa.Value{1: c1, 2: c2}
	var curAcc ssa.Value
	if mainAcc != nil {
		curAcc = mainAcc
	}
	wantRole := "excess"
	if kind == "fast" {
		wantRole = "cost"
	}
	isHeaderPhi := func(v ssa.Value) bool {
		ph, ok := v.(*ssa.Phi)
		if !ok {
			return false
		}
		for _, l := range append([]*Loop{main}, tails...) {
			if ph.Block() == l.Header {
				return true
			}
		}
		return false
	}
	for i, tl := range tails {
		construct := fmt.Sprintf("%s.tail[%d]", fn.Name(), i+1)
		pos := p.Pos(c07BlockPos(tl.Header, fn))
		var cphi, acc *ssa.Phi
		k := 0
		fail := func(msg string) {
			info.OK = false
			r.Bad(construct, pos, msg)
			// later tail loops are judged against the values this one leaves
			cur[k] = cphi
			curAcc = acc
		}
		var others []*ssa.Phi
		nCur := 0
		for _, ph := range HeaderPhis(tl) {
			switch {
			case fam1[ph] && !fam2[ph]:
				cphi, k = ph, 1
				nCur++
			case fam2[ph] && !fam1[ph]:
				cphi, k = ph, 2
				nCur++
			case acc == nil && roleOf(ph) == wantRole:
				acc = ph
			default:
				others = append(others, ph)
			}
		}
		if nCur != 1 || acc == nil {
			info.OK = false
			r.Undecided(construct, pos, fmt.Sprintf("a loop behind the merge loop is not a walk over the rest of one list (cursors carried: %d, unit accumulator found: %v)", nCur, acc != nil))
			continue
		}
		other := 3 - k
		listTerm := map[int]string{1: "recv.Genes", 2: "p1.Genes"}
		// entry edges: continuation of the values reached so far, and exhaustion of one of the lists
		msg := ""
		nEntry := 0
		for pi, pred := range tl.Header.Preds {
			if tl.Blocks[pred] {
				continue
			}
			nEntry++
			if cphi.Edges[pi] != cur[k] {
				msg = fmt.Sprintf("the tail loop over list %d does not continue from the cursor value the walk had reached (%s instead of %s)", k, tm.Of(cphi.Edges[pi]).String(), tm.Of(cur[k]).String())
			}
			if curAcc != nil {
				if acc.Edges[pi] != curAcc {
					msg = "the tail loop does not continue from the accumulated value the walk had reached: earlier contributions are dropped or replaced"
				}
			} else if z, isK := constInt(acc.Edges[pi]); !isK || z != 0 {
				msg = "the unit accumulator of the tail loop starts neither from the value accumulated so far nor from 0"
			}
			known := false
			for _, g := range condsAt(pred, tl.Header) {
				if exhaustedBy(tm, g, map[ssa.Value]bool{cur[other]: true}, listTerm[other]) || exhaustedBy(tm, g, map[ssa.Value]bool{cur[k]: true}, listTerm[k]) {
					known = true
				}
			}
			if !known && msg == "" {
				msg = fmt.Sprintf("the tail loop over list %d can be entered while neither list is known to be exhausted: the genes it counts may have a partner in the other list", k)
			}
		}
		if nEntry == 0 && msg == "" {
			msg = "the tail loop has no entry edge"
		}
		if msg != "" {
			fail(msg)
			continue
		}
		paths, complete := EnumIterPaths(fn, tl, 100)
		if !complete {
			info.OK = false
			r.Undecided(construct, pos, "too many paths through one iteration of the tail loop")
			continue
		}
		r.PathsExplored += len(paths)
		self := map[ssa.Value]bool{cphi: true}
		nBack, nExit := 0, 0
		for _, ip := range paths {
			if relInfeasible(tm, ip.Conds) {
				continue
			}
			switch ip.End {
			case "back":
				nBack++
				inRange := false
				for _, g := range ip.Conds {
					if inRangeBy(tm, g, self, listTerm[k]) {
						inRange = true
					}
				}
				step, okS := c07SignedStep(ip, cphi)
				units := 0
				okU := true
				adds, subs, okD := ip.Delta(ip.NextValue(acc), acc)
				if !okD || len(subs) > 0 {
					okU = false
				}
				for _, a := range adds {
					if kind == "fast" {
						if isDisjoint(c07OnPath(ip).Resolve(a)) {
							units++
						} else {
							okU = false
						}
					} else {
						if n, isK := c07PathInt(ip, a); isK && n == 1 {
							units++
						} else {
							okU = false
						}
					}
				}
				for _, o := range others {
					if ip.NextValue(o) != ssa.Value(o) {
						okU = false
					}
				}
				switch {
				case !inRange:
					msg = fmt.Sprintf("an iteration of the tail loop over list %d does not run under the test that its cursor is still inside the list", k)
				case !okS || step == 0 || dir[k] == 0 || step != dir[k]:
					msg = fmt.Sprintf("an iteration of the tail loop over list %d moves its cursor by %d (the merge walk moves it by %d)", k, step, dir[k])
				case !okU || units != 1:
					msg = fmt.Sprintf("an iteration of the tail loop over list %d does not add exactly one unit and nothing else (units=%d)", k, units)
				}
			case "exit":
				nExit++
				ex := false
				for _, g := range ip.Conds {
					if exhaustedBy(tm, g, self, listTerm[k]) {
						ex = true
					}
				}
				if !ex {
					msg = fmt.Sprintf("the tail loop over list %d can be left before its cursor ran off the list: the remaining genes are not counted", k)
				}
			default:
				msg = "the tail loop returns from the function"
			}
		}
		if msg == "" && (nBack == 0 || nExit == 0) {
			msg = "the tail loop has no feasible iteration or no exit"
		}
		if msg != "" {
			fail(msg)
			continue
		}
		unit := "one excess gene"
		if kind == "fast" {
			unit = "one DisjointCoeff"
		}
		r.OK(construct, pos, fmt.Sprintf("tail loop over list %d: runs only when the other list is exhausted, counts %s per remaining gene, ends with the list exhausted", k, unit))
		info.ByList[k] = tl
		cur[k] = cphi
		curAcc = acc
	}
	info.Last, _ = curAcc.(*ssa.Phi)
	// the value the formula uses is the one the last tail loop leaves
	if info.OK && curAcc != nil {
		used := false
		seen := map[ssa.Value]bool{}
		var visit func(v ssa.Value, depth int)
		visit = func(v ssa.Value, depth int) {
			if seen[v] || depth > 8 || v.Referrers() == nil {
				return
			}
			seen[v] = true
			for _, ref := range *v.Referrers() {
				switch y := ref.(type) {
				case *ssa.Phi:
					if !isHeaderPhi(y) {
						visit(y, depth+1)
					}
				case *ssa.Convert:
					visit(y, depth+1)
				case *ssa.Return:
					if kind == "fast" {
						used = true
					}
				case *ssa.BinOp:
					o := y.X
					if o == v {
						o = y.Y
					}
					switch {
					case kind == "linear" && y.Op == token.MUL && isExcess(o):
						used = true
					case kind == "fast" && y.Op == token.ADD:
						visit(y, depth+1)
					}
				}
			}
		}
		visit(curAcc, 0)
		construct := fn.Name() + ".tail.result"
		if !r.Check(used, construct, p.Pos(fn.Pos()), "the value accumulated by the last tail loop is the one the distance formula uses",
			"the value accumulated by the last tail loop is not the one the distance formula uses: the genes counted behind the merge loop do not reach the result") {
			info.OK = false
		}
	}
	return info
}

func c07BlockPos(b *ssa.BasicBlock, fn *ssa.Function) token.Pos {
	for _, in := range b.Instrs {
		if in.Pos().IsValid() {
			return in.Pos()
		}
	}
	for _, s := range b.Succs {
		for _, in := range s.Instrs {
			if in.Pos().IsValid() {
				return in.Pos()
			}
		}
	}
	return fn.Pos()
}

// ---------------------------------------------------------------------------
// Forward walk: the remainder of the list that is not exhausted added in one
// piece behind the loop (`numExcess += float64(size2 - i2)`), possibly behind
// a test (`if i2 < size2 {...}`) or for both lists at once.

// c07ForwardInvariant: cursor c of the forward walk never runs past the end of
// its list: it starts at 0 and every iteration that moves it moves it by +1
// under the test that it is still inside the list. With it, `exhausted` means
// c == len(list), so len(list)-c is the exact number of remaining genes (0 when exhausted).
func c07ForwardInvariant(tm *Termer, l *Loop, paths []*IterPath, c *ssa.Phi, listTerm string) bool {
	for i, pred := range l.Header.Preds {
		if l.Blocks[pred] {
			continue
		}
		if z, isK := constInt(c.Edges[i]); !isK || z != 0 {
			return false
		}
	}
	self := map[ssa.Value]bool{c: true}
	for _, ip := range paths {
		if ip.End != "back" || relInfeasible(tm, ip.Conds) {
			continue
		}
		n, ok := c07SignedStep(ip, c)
		if !ok {
			return false
		}
		if n == 0 {
			continue
		}
		if n != 1 {
			return false
		}
		inRange := false
		for _, g := range ip.Conds {
			if inRangeBy(tm, g, self, listTerm) {
				inRange = true
			}
		}
		if !inRange {
			return false
		}
	}
	return true
}

// c07SumLeaves flattens v, as computed on the path, into the operands of a sum.
func c07SumLeaves(fp *IterPath, v ssa.Value, depth int) ([]ssa.Value, bool) {
	if depth > 30 {
		return nil, false
	}
	v = fp.ResolveAt(v)
	if b, ok := v.(*ssa.BinOp); ok && b.Op == token.ADD {
		x, okx := c07SumLeaves(fp, b.X, depth+1)
		y, oky := c07SumLeaves(fp, b.Y, depth+1)
		return append(x, y...), okx && oky
	}
	return []ssa.Value{v}, true
}

// c07ForwardRemainderOnAllPaths decides the exit obligation of the forward walk
// for one way out of the merge loop when the remaining genes are counted in one
// piece: on every feasible continuation from the exit to the function result,
// at least one list is exhausted, and the value the formula multiplies by
// ExcessCoeff is the excess counter of the loop (0 when the loop does not carry
// one) plus, for each list that is not known to be exhausted, exactly one term
// len(list)-cursor (its remaining genes). A term over a list that IS exhausted
// is accepted when the cursor provably never runs past the end (the term is 0).
func c07ForwardRemainderOnAllPaths(fn *ssa.Function, tm *Termer, ip *IterPath, eCnt, c1, c2 *ssa.Phi, inv map[int]bool, isExcess func(ssa.Value) bool) (bool, string) {
	fulls, ok := c07FullPaths(fn, ip)
	if !ok {
		return false, ""
	}
	// the one product ExcessCoeff * E of the formula
	var final ssa.Value
	var finalAt *ssa.BasicBlock
	nMul := 0
	Instrs(fn, func(b *ssa.BasicBlock, _ int, in ssa.Instruction) {
		m, ok := in.(*ssa.BinOp)
		if !ok || m.Op != token.MUL {
			return
		}
		switch {
		case isExcess(m.X):
			final, finalAt = m.Y, b
			nMul++
		case isExcess(m.Y):
			final, finalAt = m.X, b
			nMul++
		}
	})
	if nMul != 1 {
		return false, ""
	}
	cur := map[int]*ssa.Phi{1: c1, 2: c2}
	lenTerm := map[int]string{1: "len(recv.Genes)", 2: "len(p1.Genes)"}
	listTerm := map[int]string{1: "recv.Genes", 2: "p1.Genes"}
	feasible := 0
	for _, fp := range fulls {
		if relInfeasible(tm, fp.Conds) {
			continue
		}
		feasible++
		onPath := false
		for _, b := range fp.Blocks {
			if b == finalAt {
				onPath = true
			}
		}
		if !onPath {
			return false, " (a way from this exit to the result does not compute the excess term of the formula)"
		}
		ex := map[int]bool{}
		in := map[int]bool{}
		for k := 1; k <= 2; k++ {
			self := map[ssa.Value]bool{cur[k]: true}
			for _, g := range fp.Conds {
				if exhaustedBy(tm, g, self, listTerm[k]) {
					ex[k] = true
				}
				if inRangeBy(tm, g, self, listTerm[k]) {
					in[k] = true
				}
			}
		}
		if !ex[1] && !ex[2] {
			return false, " (on a way from this exit to the result neither list is known to be exhausted)"
		}
		v := fp.ResolveAt(final)
		if cv, isCv := v.(*ssa.Convert); isCv {
			v = cv.X
		}
		leaves, okL := c07SumLeaves(fp, v, 0)
		if !okL {
			return false, ""
		}
		nBase := 0
		n := map[int]int{}
		for len(leaves) > 0 {
			lf := leaves[0]
			leaves = leaves[1:]
			if eCnt != nil && lf == ssa.Value(eCnt) {
				nBase++
				continue
			}
			if z, isK := constInt(lf); isK && z == 0 {
				continue
			}
			if cv, isCv := lf.(*ssa.Convert); isCv {
				// a converted integer sum is the sum of its converted operands (gene counts: no rounding, no overflow)
				inner, okI := c07SumLeaves(fp, cv.X, 0)
				if !okI {
					return false, ""
				}
				if len(inner) > 1 {
					leaves = append(leaves, inner...)
					continue
				}
				lf = inner[0]
			}
			sb, isSub := lf.(*ssa.BinOp)
			if !isSub || sb.Op != token.SUB {
				return false, " (behind this exit something other than the remaining genes of a list is added to the excess count)"
			}
			matched := false
			for k := 1; k <= 2; k++ {
				if tm.Of(sb.X).String() == lenTerm[k] && fp.ResolveAt(sb.Y) == ssa.Value(cur[k]) {
					n[k]++
					matched = true
				}
			}
			if !matched {
				return false, " (behind this exit something other than the remaining genes of a list is added to the excess count)"
			}
		}
		if eCnt != nil && nBase != 1 {
			return false, " (the excess count behind this exit does not continue the one of the loop)"
		}
		for k := 1; k <= 2; k++ {
			switch {
			case ex[k]:
				if n[k] > 1 || (n[k] == 1 && !inv[k]) {
					return false, fmt.Sprintf(" (list %d is exhausted on this way, yet len-cursor is added for it and the cursor is not known to stop at the end of the list)", k)
				}
			default:
				if n[k] != 1 || (!inv[k] && !in[k]) {
					return false, fmt.Sprintf(" (the remaining genes of list %d are added %d times on a way from this exit to the result)", k, n[k])
				}
			}
		}
	}
	if feasible == 0 {
		return false, ""
	}
	return true, ""
}

// ---------------------------------------------------------------------------
// Result formula, start state, early returns.

// c07Walk: the loop-carried values of one walk, as identified by the rule.
type c07Walk struct {
	Fn                       *ssa.Function
	Kind                     string
	Main                     *Loop
	Tails                    []*Loop
	TailAcc                  *ssa.Phi // unit accumulator of the last tail loop, nil without tail loops
	C1, C2                   *ssa.Phi
	D, E, M, MD, Cost, State *ssa.Phi
	Fam1, Fam2               map[ssa.Value]bool
	IsDc, IsEc, IsMc         func(ssa.Value) bool
}

type c07Leaf struct {
	V  ssa.Value
	At *ssa.BasicBlock // block of the addition that contributes the operand (nil: v itself)
}

// c07Leaves flattens v, as computed on the path, into the operands of a sum, remembering where each is added.
func c07Leaves(fp *IterPath, v ssa.Value, at *ssa.BasicBlock, depth int) ([]c07Leaf, bool) {
	if depth > 40 {
		return nil, false
	}
	v = fp.ResolveAt(v)
	if b, ok := v.(*ssa.BinOp); ok && b.Op == token.ADD {
		x, okx := c07Leaves(fp, b.X, b.Block(), depth+1)
		y, oky := c07Leaves(fp, b.Y, b.Block(), depth+1)
		return append(x, y...), okx && oky
	}
	return []c07Leaf{{v, at}}, true
}

func c07StripConv(fp *IterPath, v ssa.Value) ssa.Value {
	for i := 0; i < 6; i++ {
		v = fp.ResolveAt(v)
		cv, ok := v.(*ssa.Convert)
		if !ok {
			return v
		}
		v = cv.X
	}
	return v
}

// c07Factors flattens a product/quotient tree into numerator and denominator factors (as computed on the path).
func c07Factors(fp *IterPath, v ssa.Value, inv bool, num, den *[]ssa.Value, depth int) {
	v = c07StripConv(fp, v)
	if b, ok := v.(*ssa.BinOp); ok && depth < 12 {
		switch b.Op {
		case token.MUL:
			c07Factors(fp, b.X, inv, num, den, depth+1)
			c07Factors(fp, b.Y, inv, num, den, depth+1)
			return
		case token.QUO:
			c07Factors(fp, b.X, inv, num, den, depth+1)
			c07Factors(fp, b.Y, !inv, num, den, depth+1)
			return
		}
	}
	if inv {
		*den = append(*den, v)
	} else {
		*num = append(*num, v)
	}
}

// c07FinalOf: v, as computed on the path, is the loop-carried accumulator acc plus only what the (last,
// partial) iteration of the merge loop added to it - i.e. the value the accumulator has when the walk ends.
func c07FinalOf(fp *IterPath, v ssa.Value, acc *ssa.Phi, main *Loop) bool {
	if acc == nil {
		return false
	}
	leaves, ok := c07Leaves(fp, c07StripConv(fp, v), nil, 0)
	if !ok {
		return false
	}
	n := 0
	for _, lf := range leaves {
		if lf.V == ssa.Value(acc) {
			n++
			continue
		}
		if lf.At == nil || !main.Blocks[lf.At] {
			return false
		}
	}
	return n == 1
}

// c07ResultPaths: every feasible way from the end of the walk (the exits of the merge loop, or of the last
// tail loop) to a return.
func c07ResultPaths(w *c07Walk, tm *Termer, paths []*IterPath) ([]*IterPath, bool) {
	var out []*IterPath
	if len(w.Tails) == 0 {
		for _, ip := range paths {
			if ip.End == "back" || relInfeasible(tm, ip.Conds) {
				continue
			}
			fulls, ok := c07FullPaths(w.Fn, ip)
			if !ok {
				return nil, false
			}
			for _, fp := range fulls {
				if !relInfeasible(tm, fp.Conds) {
					out = append(out, fp)
				}
			}
		}
		return out, len(out) > 0
	}
	last := w.Tails[len(w.Tails)-1]
	seen := map[*ssa.BasicBlock]bool{}
	for b := range last.Blocks {
		for _, x := range b.Succs {
			if last.Blocks[x] || seen[x] {
				continue
			}
			seen[x] = true
			conts, complete := EnumRegionPaths(w.Fn, x, func(*ssa.BasicBlock) bool { return false }, 200)
			if !complete {
				return nil, false
			}
			for _, c := range conts {
				if c.End != "return" {
					return nil, false
				}
				if !relInfeasible(tm, c.Conds) {
					out = append(out, &IterPath{Blocks: c.Blocks, End: "partial", Conds: c.Conds})
				}
			}
		}
	}
	return out, len(out) > 0
}

// c07Sign: what the branch outcomes of the path say about v compared with 0 (bit set of c07Rel*).
func c07Sign(fp *IterPath, v ssa.Value) int {
	mask := c07RelLT | c07RelEQ | c07RelGT
	same := func(x ssa.Value) bool {
		x = c07StripConv(&IterPath{End: "partial"}, x)
		return x == v || fp.ResolveAt(x) == v
	}
	for _, g := range fp.Conds {
		o, set, ok := c07FactAbout(g.Cond, g.True, same)
		if !ok {
			continue
		}
		k, isK := constInt(o)
		switch {
		case !isK:
			continue
		case k == 1: // v < 1, v >= 1 (v is a count: integral)
			if set == c07RelLT {
				set = c07RelLT | c07RelEQ
			} else if set == c07RelGT|c07RelEQ {
				set = c07RelGT
			} else {
				continue
			}
		case k != 0:
			continue
		}
		mask &= set
	}
	return mask
}

// c07CheckResult: on every way from the end of the walk to a return, the value returned is
//
//	linear:   DisjointCoeff*D + ExcessCoeff*E [+ MutdiffCoeff*MD/M]
//	backward: cost [+ remainder terms] [+ MutdiffCoeff*MD/M]
//
// with D, M, MD the final values of the loop's accumulators, E the final excess count (the loop's counter, the
// last tail loop's counter, or the counter plus len-cursor terms - how many of those is the exit obligation's
// business), the mean-difference term present exactly when the way runs under M != 0 (a count: positive) and
// absent only under a test that refuses M > 0. Nothing else is added, nothing is subtracted or rescaled.
func (r *Run) c07CheckResult(w *c07Walk, tm *Termer, paths []*IterPath) {
	p := r.P
	fn := w.Fn
	construct := fn.Name() + ".result"
	pos := p.Pos(fn.Pos())
	fps, ok := c07ResultPaths(w, tm, paths)
	if !ok {
		r.Undecided(construct, pos, "the code behind the walk is not a finite set of acyclic ways to a return")
		return
	}
	eBase, costBase := w.E, w.Cost
	if w.TailAcc != nil {
		if w.Kind == "linear" {
			eBase = w.TailAcc
		} else {
			costBase = w.TailAcc
		}
	}
	isConstZero := func(v ssa.Value) bool { z, isK := constInt(v); return isK && z == 0 }
	isLenTerm := func(v ssa.Value) bool {
		s := tm.Of(v).String()
		return s == "len(recv.Genes)" || s == "len(p1.Genes)"
	}
	for _, fp := range fps {
		lastB := fp.Blocks[len(fp.Blocks)-1]
		ret, isRet := lastB.Instrs[len(lastB.Instrs)-1].(*ssa.Return)
		if !isRet || len(ret.Results) != 1 {
			r.Undecided(construct, pos, "a way behind the walk does not end in a return of one value")
			return
		}
		fail := func(msg string) {
			r.Bad(construct, p.Pos(ret.Pos()), msg, fp.Describe(p)...)
		}
		leaves, okL := c07Leaves(fp, ret.Results[0], nil, 0)
		if !okL {
			r.Undecided(construct, pos, "cannot decompose the value returned")
			return
		}
		nD, nE, nC, nM := 0, 0, 0, 0
		var mDen ssa.Value
		for _, lf := range leaves {
			v := lf.V
			if isConstZero(v) {
				continue
			}
			if w.Kind == "fast" {
				if costBase != nil && v == ssa.Value(costBase) {
					nC++
					continue
				}
				inLoop := lf.At != nil && w.Main.Blocks[lf.At]
				if inLoop && (w.IsDc(v) || w.IsEc(v)) {
					continue // the unit of the last, partial iteration
				}
				if len(w.Tails) == 0 && c07RemainderTerm(tm, fp, v, w.Fam1, w.Fam2, w.IsDc) != 0 {
					continue // counted by the exit obligation
				}
			}
			var num, den []ssa.Value
			c07Factors(fp, v, false, &num, &den, 0)
			zero := false
			for _, f := range num {
				if isConstZero(f) {
					zero = true
				}
			}
			has := func(fs []ssa.Value, pred func(ssa.Value) bool) (ssa.Value, bool) {
				var other ssa.Value
				found := false
				for _, f := range fs {
					if !found && pred(f) {
						found = true
						continue
					}
					other = f
				}
				return other, found
			}
			if zero && len(den) == 0 && len(num) == 2 {
				if _, isM := has(num, w.IsMc); isM {
					continue // MutdiffCoeff * 0: a mean that stays 0 without matching genes (the guard is judged below)
				}
				if _, isE := has(num, w.IsEc); isE && w.Kind == "linear" && eBase == nil {
					nE++ // no excess gene counted on this way: the count is still its initial 0
					continue
				}
			}
			switch {
			case w.Kind == "linear" && len(den) == 0 && len(num) == 2:
				if x, isD := has(num, w.IsDc); isD {
					if !c07FinalOf(fp, x, w.D, w.Main) {
						fail("DisjointCoeff is multiplied by something other than the number of disjoint genes the walk counted")
						return
					}
					nD++
					continue
				}
				if y, isE := has(num, w.IsEc); isE {
					ys, okY := c07Leaves(fp, c07StripConv(fp, y), nil, 0)
					nBase := 0
					for _, yl := range ys {
						yv := yl.V
						switch {
						case eBase != nil && yv == ssa.Value(eBase):
							nBase++
						case isConstZero(yv):
						default:
							// len-cursor (how many such terms and over which list: the exit obligation)
							inner := c07StripConv(fp, yv)
							var parts []ssa.Value
							if il, okI := c07SumLeaves(fp, inner, 0); okI {
								parts = il
							}
							for _, pt := range parts {
								sb, isSub := pt.(*ssa.BinOp)
								if !isSub || sb.Op != token.SUB || !isLenTerm(sb.X) || len(w.Tails) > 0 {
									okY = false
								}
							}
							if len(parts) == 0 {
								okY = false
							}
						}
					}
					if !okY || (eBase != nil && nBase != 1) {
						fail("ExcessCoeff is multiplied by something other than the number of excess genes the walk counted")
						return
					}
					nE++
					continue
				}
			}
			if len(num) == 2 && len(den) == 1 {
				if md, isM := has(num, w.IsMc); isM && c07FinalOf(fp, md, w.MD, w.Main) && c07FinalOf(fp, den[0], w.M, w.Main) {
					nM++
					mDen = den[0]
					continue
				}
			}
			fail("the value returned contains a term that is not part of the formula (" + tm.Of(v).String() + "): the distance is excess_coeff*E + disjoint_coeff*D + mutdiff_coeff*W and nothing else")
			return
		}
		if w.Kind == "linear" && (nD != 1 || nE != 1) {
			fail(fmt.Sprintf("the value returned contains %d disjoint term(s) and %d excess term(s); expected DisjointCoeff*D + ExcessCoeff*E", nD, nE))
			return
		}
		if w.Kind == "fast" && nC != 1 {
			fail(fmt.Sprintf("the value returned contains the accumulated excess/disjoint cost %d times", nC))
			return
		}
		switch nM {
		case 0:
			// the mean difference may be left out only where no genes matched
			refused := false
			for _, g := range fp.Conds {
				bx, by, _, isB := c07Fact(g.Cond, g.True)
				if !isB {
					continue
				}
				for _, o := range []ssa.Value{bx, by} {
					if _, isC := o.(*ssa.Const); isC {
						continue
					}
					if c07FinalOf(fp, o, w.M, w.Main) && c07Sign(fp, c07StripConv(&IterPath{End: "partial"}, o))&c07RelGT == 0 {
						refused = true
					}
				}
			}
			if !refused {
				fail("a way to the result leaves out the mean mutation difference of the matching genes although it is not known that no genes matched")
				return
			}
		case 1:
			if c07Sign(fp, mDen)&c07RelEQ != 0 {
				fail("the mean mutation difference is added on a way that is not known to have matching genes (0/0)")
				return
			}
		default:
			fail("the mean mutation difference is added more than once")
			return
		}
	}
	r.OK(construct, pos, fmt.Sprintf("on %d way(s) from the end of the walk to the result the value returned is the formula over the final counters, with the mean difference exactly when genes matched", len(fps)))
}

// c07CheckStart: the walk starts with all counters (and the excess/disjoint state) at 0 and both cursors on the
// first gene in walking direction (0 forward, len-1 backward).
func (r *Run) c07CheckStart(w *c07Walk, tm *Termer, paths []*IterPath) {
	p := r.P
	construct := w.Fn.Name() + ".start"
	pos := p.Pos(w.Fn.Pos())
	dir := map[*ssa.Phi]int{}
	for _, ip := range paths {
		if ip.End != "back" {
			continue
		}
		for _, c := range []*ssa.Phi{w.C1, w.C2} {
			if n, ok := c07SignedStep(ip, c); ok && n != 0 && dir[c] == 0 {
				dir[c] = n
			}
		}
	}
	lenOf := map[*ssa.Phi]string{w.C1: "len(recv.Genes)", w.C2: "len(p1.Genes)"}
	// index = cursor + bias (0 for an index cursor, -1 for a cursor that counts the genes left)
	biasOf := map[*ssa.Phi]int64{w.C1: tm.c07BiasOf("recv.Genes"), w.C2: tm.c07BiasOf("p1.Genes")}
	msg := ""
	for i, pred := range w.Main.Header.Preds {
		if w.Main.Blocks[pred] {
			continue
		}
		for _, a := range []*ssa.Phi{w.D, w.E, w.M, w.MD, w.Cost, w.State} {
			if a == nil {
				continue
			}
			if z, isK := constInt(a.Edges[i]); !isK || z != 0 {
				msg = "a counter of the walk (" + a.Comment + ") does not start at 0"
			}
		}
		for _, c := range []*ssa.Phi{w.C1, w.C2} {
			e := a07Strip(c.Edges[i])
			switch {
			case dir[c] > 0:
				if z, isK := c07Int(e); !isK || z+biasOf[c] != 0 {
					msg = "a cursor of the forward walk (" + c.Comment + ") does not start at the first gene (index 0)"
				}
			case dir[c] < 0:
				// the index the start value stands for is len-1: start = len + k with k + bias == -1
				base, k := c07Lin(nil, e)
				if tm.Of(base).String() != lenOf[c] || k+biasOf[c] != -1 {
					msg = "a cursor of the backward walk (" + c.Comment + ") does not start at the last gene (index len-1)"
				}
			default:
				msg = "cannot determine the direction of a cursor"
			}
		}
	}
	r.Check(msg == "", construct, pos, "all counters start at 0, both cursors at the first gene in walking direction", msg)
}

func a07Strip(v ssa.Value) ssa.Value {
	for {
		if ph, ok := v.(*ssa.Phi); ok && len(ph.Edges) == 1 {
			v = ph.Edges[0]
			continue
		}
		return v
	}
}

// c07CheckEarlyReturns: a return that is not behind the walk is right only for an empty gene list: with list k
// empty the distance is ExcessCoeff * len(other list) (no disjoint, no matching genes), with both empty it is 0.
// Accepted values: 0 or ExcessCoeff*float64(sum of list lengths), where every list whose length is NOT in the sum
// is known to be empty on that way, and at least one list is known to be empty.
func (r *Run) c07CheckEarlyReturns(w *c07Walk, tm *Termer) {
	p := r.P
	fn := w.Fn
	H := w.Main.Header
	lenTerm := map[int]string{1: "len(recv.Genes)", 2: "len(p1.Genes)"}
	nEarly := 0
	for _, b := range fn.Blocks {
		ret, isRet := b.Instrs[len(b.Instrs)-1].(*ssa.Return)
		if !isRet || H.Dominates(b) || b == fn.Blocks[0] {
			continue
		}
		nEarly++
		construct := fmt.Sprintf("%s.early-return[%d]", fn.Name(), nEarly)
		pos := p.Pos(ret.Pos())
		conts, complete := EnumRegionPaths(fn, fn.Blocks[0], func(x *ssa.BasicBlock) bool { return x == b || x == H }, 400)
		if !complete {
			r.Undecided(construct, pos, "too many ways to this return")
			continue
		}
		msg := ""
		n := 0
		for _, c := range conts {
			if c.End == "cycle" {
				msg = "a loop in front of the walk"
				continue
			}
			if c.End != "stop" || c.Blocks[len(c.Blocks)-1] != b || relInfeasible(tm, c.Conds) {
				continue
			}
			n++
			fp := &IterPath{Blocks: c.Blocks, End: "partial", Conds: c.Conds}
			empty := map[int]bool{}
			for _, g := range fp.Conds {
				for k := 1; k <= 2; k++ {
					k := k
					o, s, okS := c07FactAbout(g.Cond, g.True, func(v ssa.Value) bool { return tm.Of(v).String() == lenTerm[k] })
					if !okS {
						continue
					}
					kc, isK := constInt(o)
					if !isK {
						continue
					}
					// len <= 0 or len < 1: a length is never negative
					if (kc == 0 && s&c07RelGT == 0) || (kc == 1 && s == c07RelLT) {
						empty[k] = true
					}
				}
			}
			inSum := map[int]bool{}
			v := fp.ResolveAt(ret.Results[0])
			if z, isK := constInt(v); !(isK && z == 0) {
				var num, den []ssa.Value
				c07Factors(fp, v, false, &num, &den, 0)
				okV := len(den) == 0 && len(num) == 2
				var sum ssa.Value
				if okV {
					switch {
					case w.IsEc(num[0]):
						sum = num[1]
					case w.IsEc(num[1]):
						sum = num[0]
					default:
						okV = false
					}
				}
				if okV {
					parts, okP := c07SumLeaves(fp, sum, 0)
					okV = okP
					for _, pt := range parts {
						pt = c07StripConv(fp, pt)
						s := tm.Of(pt).String()
						switch s {
						case lenTerm[1]:
							okV = okV && !inSum[1]
							inSum[1] = true
						case lenTerm[2]:
							okV = okV && !inSum[2]
							inSum[2] = true
						default:
							okV = false
						}
					}
				}
				if !okV {
					msg = "returns " + tm.Of(v).String() + " without walking the genes: neither 0 nor ExcessCoeff times the number of genes of the non-empty list(s)"
					continue
				}
			}
			if !empty[1] && !empty[2] {
				msg = "returns without walking the genes on a way where neither gene list is known to be empty"
				continue
			}
			for k := 1; k <= 2; k++ {
				if !inSum[k] && !empty[k] {
					msg = fmt.Sprintf("returns without walking the genes and without counting the genes of list %d as excess, although that list is not known to be empty", k)
				}
			}
		}
		if n == 0 && msg == "" {
			continue // not reachable without passing the walk
		}
		r.Check(msg == "", construct, pos, "a return in front of the walk happens only for an empty gene list and yields ExcessCoeff times the genes of the other list", "compat walk bypassed: "+msg)
	}
}

// ---------------------------------------------------------------------------
// Which genes an iteration looks at.

// c07GeneLoad: v (a *Gene) is the element list_k[idx] loaded from one of the two gene lists.
func c07GeneLoad(tm *Termer, v ssa.Value) (int, *ssa.IndexAddr) {
	u, ok := v.(*ssa.UnOp)
	if !ok || u.Op != token.MUL {
		return 0, nil
	}
	ia, ok := u.X.(*ssa.IndexAddr)
	if !ok {
		return 0, nil
	}
	switch tm.Of(ia.X).String() {
	case "recv.Genes":
		return 1, ia
	case "p1.Genes":
		return 2, ia
	}
	return 0, nil
}

// c07CheckGenes: the per-step rules speak about "the current gene of list k" through origin terms
// (`recv.Genes[*].InnovationNum`), which do not say WHICH element is read. This obligation ties the genes to the
// cursors. On every feasible path of one iteration of the merge loop
//
//   - every read of a gene field (InnovationNum, MutationNum) reads the gene list_k[c_k], c_k being the value the
//     cursor of list k has at the start of the iteration: either the gene is loaded in this iteration at an index
//     that is, on this path, the cursor's start value, or it is a loop-carried gene variable G_k for which
//     G_k == list_k[c_k] holds at the loop head (on entry it is loaded at the cursor's start value, and every way
//     back to the head reloads it at the cursor's next value). Otherwise the walk compares or accumulates a gene
//     other than the one it then counts or steps over (a stale gene, a neighbour, a gene of the other list's index);
//   - a cursor whose gene is read, or which is stepped (its gene counted or matched), is inside its list: the path
//     takes a test that says so about the cursor's start value, or "inside" holds at the loop head (it holds on
//     entry and every way back to the head has tested the cursor's next value). Otherwise a gene that does not exist
//     is counted (one unit too many, or no termination) or read (index out of range).
func (r *Run) c07CheckGenes(w *c07Walk, tm *Termer, paths []*IterPath) {
	p := r.P
	fn := w.Fn
	construct := fn.Name() + ".genes"
	pos := p.Pos(fn.Pos())
	cur := map[int]*ssa.Phi{1: w.C1, 2: w.C2}
	listTerm := map[int]string{1: "recv.Genes", 2: "p1.Genes"}
	geneT := p.Named(PkgG, "Gene")
	var reads []*ssa.FieldAddr
	Instrs(fn, func(b *ssa.BasicBlock, _ int, in ssa.Instruction) {
		if fa, ok := in.(*ssa.FieldAddr); ok && w.Main.Blocks[b] && ownerOf(fa.X.Type()) == geneT {
			reads = append(reads, fa)
		}
	})
	if len(reads) == 0 {
		r.Undecided(construct, pos, "the merge loop reads no gene field: cannot tell which genes it compares")
		return
	}
	isHeaderPhi := func(v ssa.Value) *ssa.Phi {
		ph, ok := v.(*ssa.Phi)
		if ok && ph.Block() == w.Main.Header {
			return ph
		}
		return nil
	}
	var feasible []*IterPath
	for _, ip := range paths {
		if !relInfeasible(tm, ip.Conds) {
			feasible = append(feasible, ip)
		}
	}
	biasK := map[int]int64{1: tm.c07BiasOf(listTerm[1]), 2: tm.c07BiasOf(listTerm[2])}
	sameBase := func(a, b ssa.Value) bool {
		a, b = a07Strip(a), a07Strip(b)
		if a == b {
			return true
		}
		if ka, okA := c07Int(a); okA {
			kb, okB := c07Int(b)
			return okB && ka == kb
		}
		// the same pure expression over the list lengths written twice (len(g.Genes)-1)
		sa, sb := CanonTerm(tm.Of(a)), CanonTerm(tm.Of(b))
		return sa == sb && !strings.Contains(sa, "φ") && !strings.Contains(sa, "[*]") && !strings.Contains(sa, "loop") && strings.Contains(sa, "len(")
	}
	// entryIndexIs: in front of the loop, idx == at + bias (idx the index read, at the cursor's start value)
	entryIndexIs := func(idx, at ssa.Value, bias int64) bool {
		b1, k1 := c07Lin(nil, idx)
		b2, k2 := c07Lin(nil, at)
		if c1, isC1 := c07Int(b1); isC1 {
			c2, isC2 := c07Int(b2)
			return isC2 && c1+k1 == c2+k2+bias
		}
		return k1 == k2+bias && sameBase(b1, b2)
	}
	// G == list_k[c_k] at the loop head?  (0: no)
	carried := map[*ssa.Phi]int{}
	carriedGene := func(G *ssa.Phi) int {
		if k, done := carried[G]; done {
			return k
		}
		carried[G] = 0
		k := 0
		for i, pred := range w.Main.Header.Preds {
			if w.Main.Blocks[pred] {
				continue
			}
			kk, ia := c07GeneLoad(tm, a07Strip(G.Edges[i]))
			if kk == 0 || (k != 0 && kk != k) || !entryIndexIs(ia.Index, cur[kk].Edges[i], biasK[kk]) {
				return 0
			}
			k = kk
		}
		if k == 0 {
			return 0
		}
		for _, ip := range feasible {
			if ip.End != "back" {
				continue
			}
			kk, ia := c07GeneLoad(tm, ip.NextValue(G))
			if kk != k || !w.Main.Blocks[ia.Block()] || !ip.OnPath(ia) || !c07IndexIs(ip, ia.Index, ip.NextValue(cur[k]), biasK[k]) {
				return 0
			}
		}
		carried[G] = k
		return k
	}
	// "inside its list" at the loop head?
	headInv := map[int]bool{}
	for k := 1; k <= 2; k++ {
		ok := true
		nEntry := 0
		lenT := "len(" + listTerm[k] + ")"
		for i, pred := range w.Main.Header.Preds {
			if w.Main.Blocks[pred] {
				continue
			}
			nEntry++
			e := a07Strip(cur[k].Edges[i])
			facts := c07FlagFacts(append(append([]Guard{}, Guards(pred)...), condsAt(pred, w.Main.Header)...), 0)
			in := false
			for _, g := range facts {
				if c07InRangeFact(tm, g, func(v ssa.Value) bool { return v == e }, listTerm[k]) {
					in = true
				}
				// the last (len-1) or first (0) element of a list known not to be empty
				o, set, okF := c07FactAbout(g.Cond, g.True, func(v ssa.Value) bool { return tm.Of(v).String() == lenT })
				if !okF {
					continue
				}
				kc, isK := c07Int(o)
				nonEmpty := isK && ((kc == 0 && set&c07RelEQ == 0) || (kc == 1 && set&c07RelLT == 0))
				if !nonEmpty {
					continue
				}
				if z, isZ := c07Int(e); isZ && z+biasK[k] == 0 {
					in = true
				}
				if base, off := c07Lin(nil, e); tm.Of(base).String() == lenT && off+biasK[k] == -1 {
					in = true
				}
			}
			if !in {
				ok = false
			}
		}
		for _, ip := range feasible {
			if ip.End != "back" || !ok {
				continue
			}
			next := ip.NextValue(cur[k])
			in := false
			for _, g := range ip.Conds {
				if c07InRangeFact(tm, g, func(v ssa.Value) bool { return next != nil && ip.ResolveAt(v) == next }, listTerm[k]) {
					in = true
				}
			}
			if !in {
				ok = false
			}
		}
		headInv[k] = ok && nEntry > 0
	}
	nReads := 0
	for _, ip := range feasible {
		used := map[int]bool{}
		fail := func(msg string) {
			r.Bad(construct, p.Pos(firstPos(ip)), msg, ip.Describe(p)...)
		}
		for _, fa := range reads {
			if !ip.OnPath(fa) {
				continue
			}
			nReads++
			v := ip.ResolveAt(fa.X)
			if k, ia := c07GeneLoad(tm, v); k != 0 {
				if !w.Main.Blocks[ia.Block()] || !ip.OnPath(ia) {
					fail(fmt.Sprintf("an iteration reads %s of a gene of list %d that was loaded in front of the loop and is not reloaded: every iteration looks at the same gene, not at the one under the cursor", fieldOf(fa.X.Type(), fa.Field).Name(), k))
					return
				}
				if !c07IndexIs(ip, ia.Index, cur[k], biasK[k]) {
					fail(fmt.Sprintf("an iteration reads %s of list %d at index %s, which is not the position of that list's cursor at the start of the iteration: the gene compared is not the gene that is then matched, counted or stepped over", fieldOf(fa.X.Type(), fa.Field).Name(), k, tm.Of(ia.Index).String()))
					return
				}
				used[k] = true
				continue
			}
			if G := isHeaderPhi(v); G != nil {
				if k := carriedGene(G); k != 0 {
					used[k] = true
					continue
				}
				fail("the loop-carried gene variable " + G.Comment + " is not, at the loop head, the gene under its list's cursor (it must be loaded at the cursor's start position in front of the loop and reloaded at the cursor's new position on every way back to the loop head)")
				return
			}
			fail("an iteration reads " + fieldOf(fa.X.Type(), fa.Field).Name() + " of " + tm.Of(fa.X).String() + ", which is not an element of one of the two gene lists at its cursor")
			return
		}
		if ip.End == "back" {
			for k := 1; k <= 2; k++ {
				if n, ok := c07SignedStep(ip, cur[k]); !ok || n != 0 {
					used[k] = true
				}
			}
		}
		for k := 1; k <= 2; k++ {
			if !used[k] || headInv[k] {
				continue
			}
			in := false
			for _, g := range ip.Conds {
				if c07InRangeFact(tm, g, func(v ssa.Value) bool { return ip.ResolveAt(v) == ssa.Value(cur[k]) }, listTerm[k]) {
					in = true
				}
			}
			if !in {
				fail(fmt.Sprintf("an iteration reads or counts the gene under the cursor of list %d although nothing on this path says the cursor is still inside the list (and this does not hold at every start of an iteration): a gene that does not exist is counted or read", k))
				return
			}
		}
	}
	if nReads == 0 {
		r.Undecided(construct, pos, "no feasible path of the merge loop reads a gene field")
		return
	}
	r.OK(construct, pos, fmt.Sprintf("on %d path(s) of one iteration every gene field read is read from list_k[cursor_k] and a cursor whose gene is read or counted is inside its list", len(feasible)))
}

// ---------------------------------------------------------------------------
// C07.6, keyed loaders: the configured name of each coefficient.

// c07CoefficientKeys: the property names the coefficients by their configuration keys (excess_coeff, disjoint_coeff,
// mutdiff_coeff - the yaml names of the three Options fields). A loader that fills an Options object parameter by
// parameter, storing a field under a test `name == "<key>"` (a switch over the parameter name), must store each
// coefficient under its own key and nothing else under that key: otherwise the value configured as, say,
// disjoint_coeff never reaches Options.DisjointCoeff (it is dropped, or lands in another field) and the distance is
// computed with a coefficient that is not the configured one. Judged for every function that stores a coefficient
// under such a key test, or stores anything under a coefficient's key; loaders that do not work by key tests
// (yaml.Unmarshal with the field tags, tables of setters) are not concerned.
func (r *Run) c07CoefficientKeys(coeff map[*types.Var]bool) {
	p := r.P
	optsT := p.Named(PkgT, "Options")
	st := optsT.Underlying().(*types.Struct)
	tagOf := map[*types.Var]string{}
	isTag := map[string]*types.Var{}
	var order []*types.Var
	for i := 0; i < st.NumFields(); i++ {
		f := st.Field(i)
		if !coeff[f] {
			continue
		}
		t := reflect.StructTag(st.Tag(i)).Get("yaml")
		if j := strings.Index(t, ","); j >= 0 {
			t = t[:j]
		}
		if t == "" {
			t = strings.ToLower(f.Name()) // yaml's default key
		}
		tagOf[f] = t
		isTag[t] = f
		order = append(order, f)
	}
	strConst := func(v ssa.Value) (string, bool) {
		c, ok := v.(*ssa.Const)
		if !ok || c.Value == nil || c.Value.Kind() != constant.String {
			return "", false
		}
		return constant.StringVal(c.Value), true
	}
	// the keys the block is reached under: outcomes `s == "key"` (in any spelling) that dominate it
	keysAt := func(b *ssa.BasicBlock) []string {
		var out []string
		for _, g := range Guards(b) {
			x, y, set, ok := c07Fact(g.Cond, g.True)
			if !ok || set != c07RelEQ {
				continue
			}
			kx, isX := strConst(x)
			ky, isY := strConst(y)
			switch {
			case isY && !isX:
				out = append(out, ky)
			case isX && !isY:
				out = append(out, kx)
			}
		}
		return out
	}
	type rec struct {
		f   *types.Var
		key string
		at  *ssa.Store
	}
	for _, fn := range p.SrcFuncs() {
		var recs []rec
		concerned := false
		Instrs(fn, func(b *ssa.BasicBlock, _ int, in ssa.Instruction) {
			s, ok := in.(*ssa.Store)
			if !ok {
				return
			}
			f := StoredField(s)
			if f == nil || ownerOf(s.Addr.(*ssa.FieldAddr).X.Type()) != optsT {
				return
			}
			for _, k := range keysAt(b) {
				recs = append(recs, rec{f, k, s})
				if coeff[f] || isTag[k] != nil {
					concerned = true
				}
			}
		})
		if !concerned {
			continue
		}
		for _, F := range order {
			construct := "coefficients.key:" + fn.Name() + "." + F.Name()
			filled := false
			msg := ""
			pos := p.Pos(fn.Pos())
			for _, rc := range recs {
				switch {
				case rc.f == F && rc.key == tagOf[F]:
					filled = true
					if msg == "" {
						pos = p.Pos(rc.at.Pos())
					}
				case rc.f == F:
					msg = fmt.Sprintf("%s stores %s under the parameter name %q, its configured name is %q: the coefficient the walks read is the value of another parameter", FuncName(fn), F.Name(), rc.key, tagOf[F])
					pos = p.Pos(rc.at.Pos())
				case rc.key == tagOf[F]:
					msg = fmt.Sprintf("%s stores the parameter %q into %s instead of %s", FuncName(fn), rc.key, rc.f.Name(), F.Name())
					pos = p.Pos(rc.at.Pos())
				}
			}
			if msg == "" && !filled {
				msg = fmt.Sprintf("%s fills Options fields parameter by parameter but never stores %s under its configured name %q: the configured coefficient is dropped and the walks read 0", FuncName(fn), F.Name(), tagOf[F])
			}
			r.Check(msg == "", construct, pos, fmt.Sprintf("%s is filled under its configured name %q and nothing else is", F.Name(), tagOf[F]), msg)
		}
	}
}

// ---------------------------------------------------------------------------
// C07.1: the walks a call instruction executes, whatever way the callee is picked

// c07Invocation is one way a call instruction of `compatibility` executes one of the two walks: the call is a static
// call of the walk, a static call of a function that only forwards to it, or a call through a function VALUE that was
// picked earlier (`f := (*Genome).compatFast; if linear { f = (*Genome).compatLinear }; return f(g, og, opts)`): then
// each function the value can hold is one invocation, taken under the outcomes of the edge on which it was picked.
type c07Invocation struct {
	Call   ssa.CallInstruction
	Target *ssa.Function // nil: the callee could not be resolved to a walk
	What   string        // for the report when Target == nil
	Conds  []Guard       // branch outcomes that hold whenever this target is the one executed
	Args   []ssa.Value   // what the target receives as (receiver, other genome, options), as values of the caller
}

// c07Forwards: f does nothing but call one of `targets` (directly or through another function of this kind) with its own
// parameters and return the result. perm[j] = index of the parameter of f that becomes argument j of the target. This is
// what go/ssa builds for a method expression (`(*Genome).compatFast` is the thunk `func(g, og, opts) { return g.compatFast(og, opts) }`)
// and what a hand-written wrapper looks like; it is read from the body, not from the synthetic function's name.
func c07Forwards(f *ssa.Function, targets map[*ssa.Function]bool, depth int) (*ssa.Function, []int, bool) {
	if f == nil || depth > 2 || len(f.Blocks) != 1 || len(f.FreeVars) != 0 {
		return nil, nil, false
	}
	var call *ssa.Call
	var ret *ssa.Return
	for _, in := range f.Blocks[0].Instrs {
		switch x := in.(type) {
		case *ssa.Call:
			if call != nil {
				return nil, nil, false
			}
			call = x
		case *ssa.Return:
			ret = x
		case *ssa.DebugRef:
		default:
			return nil, nil, false // anything else (a store, arithmetic on the result, a load) is not plain forwarding
		}
	}
	if call == nil || ret == nil || len(ret.Results) != 1 || ret.Results[0] != ssa.Value(call) || call.Call.IsInvoke() {
		return nil, nil, false
	}
	callee := call.Call.StaticCallee()
	if callee == nil {
		return nil, nil, false
	}
	var perm []int
	used := map[int]bool{}
	for _, a := range call.Call.Args {
		prm, ok := a.(*ssa.Parameter)
		if !ok {
			return nil, nil, false
		}
		idx := -1
		for i, q := range f.Params {
			if q == prm {
				idx = i
			}
		}
		if idx < 0 || used[idx] {
			return nil, nil, false
		}
		used[idx] = true
		perm = append(perm, idx)
	}
	if targets[callee] {
		return callee, perm, true
	}
	t, inner, ok := c07Forwards(callee, targets, depth+1)
	if !ok || len(inner) > len(perm) {
		return nil, nil, false
	}
	out := make([]int, len(inner))
	for j, k := range inner {
		if k >= len(perm) {
			return nil, nil, false
		}
		out[j] = perm[k]
	}
	return t, out, true
}

// c07Invocations lists, for every call instruction of fn that can execute a function of `targets`, the invocations it
// stands for. Calls that cannot reach a target (logging, math) are not listed; a call through a function value that
// cannot be resolved completely is listed with Target == nil (the caller fails closed on it).
func c07Invocations(fn *ssa.Function, targets map[*ssa.Function]bool) []c07Invocation {
	var out []c07Invocation
	inLoop := map[*ssa.BasicBlock]bool{}
	for _, l := range Loops(fn) {
		for b := range l.Blocks {
			inLoop[b] = true
		}
	}
	// leaf: the function value `f` is what the call executes under conds
	leaf := func(c ssa.CallInstruction, f *ssa.Function, conds []Guard) {
		args := c.Common().Args
		if targets[f] {
			out = append(out, c07Invocation{Call: c, Target: f, Conds: conds, Args: args})
			return
		}
		if t, perm, ok := c07Forwards(f, targets, 0); ok && len(f.Params) == len(args) {
			var mapped []ssa.Value
			for _, k := range perm {
				mapped = append(mapped, args[k])
			}
			out = append(out, c07Invocation{Call: c, Target: t, Conds: conds, Args: mapped})
			return
		}
		out = append(out, c07Invocation{Call: c, What: "the function " + FuncName(f), Conds: conds})
	}
	Instrs(fn, func(b *ssa.BasicBlock, _ int, in ssa.Instruction) {
		c, ok := in.(ssa.CallInstruction)
		if !ok || c.Common().IsInvoke() {
			return
		}
		if _, isBuiltin := c.Common().Value.(*ssa.Builtin); isBuiltin {
			return
		}
		if _, isGo := in.(*ssa.Go); isGo {
			return
		}
		if sc := c.Common().StaticCallee(); sc != nil {
			if _, isClosure := c.Common().Value.(*ssa.MakeClosure); !isClosure {
				if targets[sc] {
					leaf(c, sc, Guards(b))
				} else if _, _, fw := c07Forwards(sc, targets, 0); fw {
					leaf(c, sc, Guards(b))
				}
				return
			}
		}
		// a call through a function value: only values of the walks' signature matter
		sig, _ := c.Common().Value.Type().Underlying().(*types.Signature)
		match := false
		for t := range targets {
			// the walk as a plain function takes its receiver first
			ts := t.Signature
			if sig != nil && ts.Recv() != nil && sig.Params().Len() == ts.Params().Len()+1 && sig.Results().Len() == ts.Results().Len() {
				match = true
			}
			if sig != nil && types.Identical(sig, ts) {
				match = true
			}
		}
		if !match {
			return
		}
		var resolve func(v ssa.Value, conds []Guard, depth int)
		resolve = func(v ssa.Value, conds []Guard, depth int) {
			if depth > 8 {
				out = append(out, c07Invocation{Call: c, What: "a function value picked through too many merges", Conds: conds})
				return
			}
			switch x := v.(type) {
			case *ssa.Function:
				leaf(c, x, conds)
			case *ssa.ChangeType:
				resolve(x.X, conds, depth+1)
			case *ssa.MakeClosure:
				if f, isF := x.Fn.(*ssa.Function); isF && len(x.Bindings) == 0 {
					leaf(c, f, conds)
					return
				}
				out = append(out, c07Invocation{Call: c, What: "a closure over local state", Conds: conds})
			case *ssa.Phi:
				// the outcomes of the edge that picked the value still hold at the call only when neither the pick
				// nor the call can be repeated with other outcomes in between
				if inLoop[x.Block()] || inLoop[b] {
					out = append(out, c07Invocation{Call: c, What: "a function value picked inside a loop", Conds: conds})
					return
				}
				for i, e := range x.Edges {
					ec := append(append([]Guard{}, conds...), condsAt(x.Block().Preds[i], x.Block())...)
					resolve(e, ec, depth+1)
				}
			default:
				out = append(out, c07Invocation{Call: c, What: "a function value of unknown origin (" + v.String() + ")", Conds: conds})
			}
		}
		resolve(c.Common().Value, Guards(b), 0)
	})
	return out
}

// ---------------------------------------------------------------------------
// Cursor representation: index cursor or count cursor

// c07Cur says how the loop-carried cursor VARIABLE of one gene list relates to the INDEX at which the list is read.
// The pinned walks carry the index itself (`list1Idx`, read `Genes[list1Idx]`, exhausted when `list1Idx < 0`, genes
// left `list1Idx+1`). The same walk can carry the number of genes left (`left`, read `Genes[left-1]`, exhausted when
// `left == 0`, genes left `left`): the variable is the index plus one. Every cursor fact of the rules is a fact about
// the index; Bias is the constant with  index = variable + Bias,  read off the code: every read `list[i]` must use
// an i that is a version of the variable (bias 0) or a version plus a constant, and all reads must agree.
//
// Versions are the values the variable takes over time: the header phi of the merge loop, everything merged into it
// (start value, stepped values) and every phi it is merged into (the cursor of a tail loop). A family member that is
// not a version is an expression over one (`left-1`); Off gives, for any of them, the constant with
// index-at-that-time = value + Off.
type c07Cur struct {
	Versions map[ssa.Value]bool
	Bias     int64
	Why      string // non-empty: the reads of the list do not agree on one representation
}

// c07PeelConst: v = x + k for a constant step written in v itself (one level; single-edge phis are looked through).
func c07PeelConst(v ssa.Value) (ssa.Value, int64, bool) {
	v = a07Strip(v)
	b, ok := v.(*ssa.BinOp)
	if !ok {
		return nil, 0, false
	}
	if bt, isBasic := b.Type().Underlying().(*types.Basic); !isBasic || bt.Info()&types.IsInteger == 0 {
		return nil, 0, false
	}
	switch b.Op {
	case token.ADD:
		if k, isK := c07Int(b.Y); isK {
			return b.X, k, true
		}
		if k, isK := c07Int(b.X); isK {
			return b.Y, k, true
		}
	case token.SUB:
		if k, isK := c07Int(b.Y); isK {
			return b.X, -k, true
		}
	}
	return nil, 0, false
}

func c07CursorInfo(fn *ssa.Function, tm *Termer, listTerm string, head *ssa.Phi) *c07Cur {
	c := &c07Cur{Versions: map[ssa.Value]bool{}}
	work := []ssa.Value{head}
	for len(work) > 0 {
		v := work[len(work)-1]
		work = work[:len(work)-1]
		if c.Versions[v] {
			continue
		}
		if _, isC := v.(*ssa.Const); isC {
			continue
		}
		c.Versions[v] = true
		if ph, ok := v.(*ssa.Phi); ok {
			work = append(work, ph.Edges...)
		}
		if refs := v.Referrers(); refs != nil {
			for _, ref := range *refs {
				if ph, ok := ref.(*ssa.Phi); ok {
					work = append(work, ph)
				}
			}
		}
	}
	have := false
	legacy := false
	Instrs(fn, func(_ *ssa.BasicBlock, _ int, in ssa.Instruction) {
		ia, ok := in.(*ssa.IndexAddr)
		if !ok || tm.Of(ia.X).String() != listTerm {
			return
		}
		if _, isC := c07Int(ia.Index); isC {
			return
		}
		v, k := ssa.Value(ia.Index), int64(0)
		found := false
		for i := 0; i < 8; i++ {
			v = a07Strip(v)
			if c.Versions[v] {
				found = true
				break
			}
			x, d, okP := c07PeelConst(v)
			if !okP {
				break
			}
			v, k = x, k+d
		}
		if !found {
			legacy = true // an index of another make (picked by a helper, ...): the rules judge it as before
			return
		}
		if have && k != c.Bias {
			c.Why = fmt.Sprintf("%s is read at its cursor%+d in one place and at its cursor%+d in another", listTerm, c.Bias, k)
			return
		}
		have, c.Bias = true, k
	})
	if c.Why == "" && (legacy || !have) && c.Bias != 0 {
		c.Why = listTerm + " is read at an offset from its cursor in one place and at an index of unknown relation to the cursor in another"
	}
	if legacy && c.Bias == 0 && c.Why == "" {
		return nil // as before: the cursor is the index, every family member speaks about it
	}
	return c
}

// Off: index (at the time v was computed) = v + Off(v), for a version of the cursor variable or an expression
// version±const. ok=false: v is neither (no fact about v is a fact about the index).
func (c *c07Cur) Off(v ssa.Value) (int64, bool) {
	if c == nil {
		return 0, true
	}
	k := int64(0)
	for i := 0; i < 8; i++ {
		v = a07Strip(v)
		if c.Versions[v] {
			return c.Bias - k, true
		}
		x, d, ok := c07PeelConst(v)
		if !ok {
			return 0, false
		}
		v, k = x, k+d
	}
	return 0, false
}

func (tm *Termer) c07CurOf(listTerm string) *c07Cur {
	if tm == nil || tm.c07cur == nil {
		return nil
	}
	return tm.c07cur[listTerm]
}

// c07BiasOf: index = cursor variable + bias for the list (0 when nothing else is known).
func (tm *Termer) c07BiasOf(listTerm string) int64 {
	if c := tm.c07CurOf(listTerm); c != nil {
		return c.Bias
	}
	return 0
}

// c07FactAboutX is c07FactAbout that also says which operand was the one picked.
func c07FactAboutX(cond ssa.Value, outcome bool, is func(ssa.Value) bool) (self, other ssa.Value, set int, ok bool) {
	x, y, set, ok := c07Fact(cond, outcome)
	if !ok {
		return nil, nil, 0, false
	}
	switch {
	case is(x):
		return x, y, set, true
	case is(y):
		return y, x, c07Mirror(set), true
	}
	return nil, nil, 0, false
}

// c07Lin: v = base + k with every constant step peeled off; on a path, phis are resolved to the operand chosen there.
func c07Lin(fp *IterPath, v ssa.Value) (ssa.Value, int64) {
	k := int64(0)
	for i := 0; i < 12; i++ {
		if fp != nil {
			v = fp.ResolveAt(v)
		}
		v = a07Strip(v)
		x, d, ok := c07PeelConst(v)
		if !ok {
			break
		}
		v, k = x, k+d
	}
	return v, k
}

// c07IndexIs: on the path, idx == at + bias (the index read is the position the cursor value `at` stands for).
func c07IndexIs(fp *IterPath, idx, at ssa.Value, bias int64) bool {
	if idx == nil || at == nil {
		return false
	}
	b1, k1 := c07Lin(fp, idx)
	b2, k2 := c07Lin(fp, at)
	return b1 == b2 && k1 == k2+bias
}

// c07FlagFacts extends branch outcomes through boolean flags of EITHER value: when `flag` is a phi web of constants
// only and an outcome says the flag is b, control took one of the edges on which a phi of the web receives b; what is
// known on all of those edges is known here too (`if v, trivial := emptyCase(n1, n2); trivial { return v }`: behind the
// refused test, trivial is false, which the helper returns only after both `n == 0` tests were refused). Only
// outcomes of conditions computed strictly before every phi of the web are carried over (the condition cannot have
// been recomputed between the edge and the test of the flag; see effGuards), or of conditions that lie on no cycle
// (computed at most once per call: there is no other instance to confuse it with).
func c07FlagFacts(gs []Guard, depth int) []Guard {
	out := append([]Guard{}, gs...)
	if depth > 3 {
		return out
	}
	for _, g := range gs {
		f, w, ok := boolFlagOf(g.Cond)
		if !ok {
			continue
		}
		val := g.True == w
		web := phiWeb(f)
		if len(web.Feeders) > 0 {
			continue // the flag can also hold a computed value: nothing follows
		}
		sites := flagSites(f, val)
		if len(sites) == 0 {
			continue
		}
		var common []Guard
		for i, st := range sites {
			cs := c07FlagFacts(condsAt(st.From, st.To), depth+1)
			if i == 0 {
				common = cs
			} else {
				common = intersectGuards(common, cs)
			}
		}
		for _, c := range common {
			if !defStrictlyDominatesWeb(c.Cond, web) && !c07RunsOnce(c.Cond) {
				continue
			}
			dup := false
			for _, o := range out {
				if sameGuard(o, c) {
					dup = true
				}
			}
			if !dup {
				out = append(out, c)
			}
		}
	}
	return out
}

// c07RunsOnce: the instruction defining v lies on no cycle of its function (it executes at most once per call).
func c07RunsOnce(v ssa.Value) bool {
	in, ok := v.(ssa.Instruction)
	if !ok || in.Block() == nil {
		return true
	}
	b := in.Block()
	// b lies on a cycle iff b is reachable from one of its successors
	seen := map[*ssa.BasicBlock]bool{}
	stack := append([]*ssa.BasicBlock{}, b.Succs...)
	for len(stack) > 0 {
		x := stack[len(stack)-1]
		stack = stack[:len(stack)-1]
		if x == b {
			return false
		}
		if seen[x] {
			continue
		}
		seen[x] = true
		stack = append(stack, x.Succs...)
	}
	return true
}

// ---------------------------------------------------------------------------
// Constant tables: package-level variables that are never written after the package initialiser filled them with
// constants (a transition table, a table of step sizes). Reading one is reading a constant: the rules may evaluate
// the read (C07: the 4-state table of the backward walk looked up instead of spelled as an if-chain), and the read is
// no input of the computation (C07.5) and no source of nondeterminism (C17.1). Everything is decided from the code:
// the variable's type holds no pointer of any kind, the only stores that reach it are stores of constants, through
// constant access paths, once per path, in the straight-line part of its package's initialiser, and no other
// instruction of the whole program can write it: every use of its address is an access path ending in a load.

type ConstTable struct {
	G    *ssa.Global
	Vals map[string]*ssa.Const // access path ("[1][2].#0") -> constant stored by the initialiser; absent: zero value
	Why  string                // non-empty: NOT a constant table, and why
}

// c07PlainType: the type holds only numbers, booleans and strings in arrays and structs (nothing that can alias).
func c07PlainType(t types.Type, depth int) bool {
	if depth > 6 {
		return false
	}
	switch u := t.Underlying().(type) {
	case *types.Basic:
		return u.Info()&(types.IsBoolean|types.IsNumeric|types.IsString) != 0 && u.Kind() != types.UnsafePointer && u.Kind() != types.Uintptr
	case *types.Array:
		return c07PlainType(u.Elem(), depth+1)
	case *types.Struct:
		for i := 0; i < u.NumFields(); i++ {
			if !c07PlainType(u.Field(i).Type(), depth+1) {
				return false
			}
		}
		return true
	}
	return false
}

func (p *Prog) ConstTableOf(g *ssa.Global) *ConstTable {
	if p.constTables == nil {
		p.constTables = map[*ssa.Global]*ConstTable{}
	}
	if t, done := p.constTables[g]; done {
		return t
	}
	t := &ConstTable{G: g, Vals: map[string]*ssa.Const{}}
	p.constTables[g] = t
	fail := func(why string) {
		if t.Why == "" {
			t.Why = why
		}
	}
	pt, isPtr := g.Type().Underlying().(*types.Pointer)
	if !isPtr || !c07PlainType(pt.Elem(), 0) {
		fail("its type can hold pointers, slices, maps, functions or interfaces")
		return t
	}
	if g.Pkg == nil {
		fail("no package")
		return t
	}
	initFn := g.Pkg.Func("init")
	if p.allFuncs == nil {
		p.CallGraph()
	}
	var fns []*ssa.Function
	for fn := range p.allFuncs {
		if fn.Blocks != nil {
			fns = append(fns, fn)
		}
	}
	if initFn != nil && !p.allFuncs[initFn] {
		fns = append(fns, initFn)
	}
	stored := map[string]int{}
	// use of an address `addr` (the variable's own address or an access path into it) by instruction `in`
	var use func(fn *ssa.Function, addr ssa.Value, path string, constPath bool, in ssa.Instruction, depth int)
	use = func(fn *ssa.Function, addr ssa.Value, path string, constPath bool, in ssa.Instruction, depth int) {
		if depth > 8 {
			fail("access path too deep")
			return
		}
		follow := func(v ssa.Value, path string, constPath bool) {
			refs := v.Referrers()
			if refs == nil {
				return
			}
			for _, ref := range *refs {
				use(fn, v, path, constPath, ref, depth+1)
			}
		}
		switch x := in.(type) {
		case *ssa.DebugRef:
		case *ssa.FieldAddr:
			if x.X != addr {
				fail("address used as a value in " + FuncName(fn))
				return
			}
			follow(x, fmt.Sprintf("%s.#%d", path, x.Field), constPath)
		case *ssa.IndexAddr:
			if x.X != addr {
				fail("address used as an index in " + FuncName(fn))
				return
			}
			if k, isK := c07Int(x.Index); isK {
				follow(x, fmt.Sprintf("%s[%d]", path, k), constPath)
			} else {
				follow(x, path+"[*]", false)
			}
		case *ssa.UnOp:
			if x.Op != token.MUL || x.X != addr {
				fail("address used in an operation in " + FuncName(fn))
			}
			// a load: the value read is a copy (the type holds nothing that aliases)
		case *ssa.Store:
			if x.Addr != addr {
				fail("its address is stored somewhere in " + FuncName(fn))
				return
			}
			c, isC := x.Val.(*ssa.Const)
			_, basic := x.Val.Type().Underlying().(*types.Basic)
			inLoop := false
			for _, l := range Loops(fn) {
				if l.Blocks[x.Block()] {
					inLoop = true
				}
			}
			switch {
			case fn != initFn:
				fail("written in " + FuncName(fn))
			case !isC || !basic || c.Value == nil:
				fail("initialised with a value that is not a constant")
			case !constPath || inLoop:
				fail("initialised through a computed index or in a loop")
			default:
				stored[path]++
				if stored[path] > 1 {
					fail("an element is initialised twice")
				}
				t.Vals[path] = c
			}
		default:
			fail("its address escapes in " + FuncName(fn) + " (" + in.String() + ")")
		}
	}
	for _, fn := range fns {
		fn := fn
		Instrs(fn, func(_ *ssa.BasicBlock, _ int, in ssa.Instruction) {
			for _, op := range in.Operands(nil) {
				if *op == ssa.Value(g) {
					use(fn, g, "", true, in, 0)
					break
				}
			}
		})
	}
	return t
}

// Lookup: the constant at an access path given as a list of elements (field numbers and indices); ok=false when the
// path leaves the variable's type (index out of range: the program would panic there) or does not end at a basic value.
type ctElem struct {
	Field int   // >= 0: struct field number
	Index int64 // when Field < 0: array index
}

func (t *ConstTable) Lookup(path []ctElem) (constant.Value, bool) {
	if t == nil || t.Why != "" {
		return nil, false
	}
	ty := t.G.Type().Underlying().(*types.Pointer).Elem()
	key := ""
	for _, e := range path {
		switch u := ty.Underlying().(type) {
		case *types.Array:
			if e.Field >= 0 || e.Index < 0 || e.Index >= u.Len() {
				return nil, false
			}
			key += fmt.Sprintf("[%d]", e.Index)
			ty = u.Elem()
		case *types.Struct:
			if e.Field < 0 || e.Field >= u.NumFields() {
				return nil, false
			}
			key += fmt.Sprintf(".#%d", e.Field)
			ty = u.Field(e.Field).Type()
		default:
			return nil, false
		}
	}
	b, isBasic := ty.Underlying().(*types.Basic)
	if !isBasic {
		return nil, false
	}
	if c, has := t.Vals[key]; has {
		return c.Value, true
	}
	switch {
	case b.Info()&types.IsBoolean != 0:
		return constant.MakeBool(false), true
	case b.Info()&types.IsString != 0:
		return constant.MakeString(""), true
	case b.Info()&types.IsInteger != 0:
		return constant.MakeInt64(0), true
	case b.Info()&types.IsFloat != 0:
		return constant.MakeFloat64(0), true
	}
	return nil, false
}

// c07LocalCopyOf: alloc is a local variable that holds, whenever it is read, the value stored by its single whole
// store (`step := table[k][s]`): every other use of the cell is a field/element read. Returns that store.
func c07LocalCopyOf(alloc *ssa.Alloc) *ssa.Store {
	var st *ssa.Store
	ok := true
	var reads func(v ssa.Value, depth int)
	reads = func(v ssa.Value, depth int) {
		refs := v.Referrers()
		if refs == nil || depth > 6 {
			ok = false
			return
		}
		for _, ref := range *refs {
			switch x := ref.(type) {
			case *ssa.DebugRef:
			case *ssa.FieldAddr:
				if x.X != v {
					ok = false
				}
				reads(x, depth+1)
			case *ssa.IndexAddr:
				if x.X != v {
					ok = false
				}
				reads(x, depth+1)
			case *ssa.UnOp:
				if x.Op != token.MUL {
					ok = false
				}
			case *ssa.Store:
				if v == ssa.Value(alloc) && x.Addr == v && st == nil {
					st = x
				} else {
					ok = false
				}
			default:
				ok = false
			}
		}
	}
	reads(alloc, 0)
	if !ok {
		return nil
	}
	return st
}

// c07InConstTable: the address lies in a constant table, or in a local copy of (a part of) one.
func (p *Prog) c07InConstTable(addr ssa.Value, depth int) bool {
	for i := 0; i < 10; i++ {
		switch x := addr.(type) {
		case *ssa.FieldAddr:
			addr = x.X
			continue
		case *ssa.IndexAddr:
			if _, isPtr := x.X.Type().Underlying().(*types.Pointer); !isPtr {
				return false
			}
			addr = x.X
			continue
		case *ssa.Global:
			return p.ConstTableOf(x).Why == ""
		case *ssa.Alloc:
			st := c07LocalCopyOf(x)
			if st == nil || depth > 3 {
				return false
			}
			ld, isLoad := st.Val.(*ssa.UnOp)
			return isLoad && ld.Op == token.MUL && p.c07InConstTable(ld.X, depth+1)
		}
		return false
	}
	return false
}

// c07TableEval: the constant that v - a read of a constant table addressed by constants and by the state variable
// of the walk (the loop-carried value `sw`, as it is at the start of the iteration) - yields on the path when the
// state is s. The read may go through a local copy of a table row or element made earlier on the path.
func c07TableEval(p *Prog, ip *IterPath, v ssa.Value, sw ssa.Value, s int64) (constant.Value, bool) {
	ld, ok := ip.ResolveAt(v).(*ssa.UnOp)
	if !ok || ld.Op != token.MUL {
		return nil, false
	}
	var suffix []ctElem // innermost first
	addr := ld.X
	user := ssa.Instruction(ld)
	for i := 0; i < 16; i++ {
		switch x := addr.(type) {
		case *ssa.FieldAddr:
			suffix = append(suffix, ctElem{Field: x.Field})
			addr = x.X
		case *ssa.IndexAddr:
			if _, isPtr := x.X.Type().Underlying().(*types.Pointer); !isPtr {
				return nil, false
			}
			idx := ip.ResolveAt(x.Index)
			if k, isK := c07Int(idx); isK {
				suffix = append(suffix, ctElem{Field: -1, Index: k})
			} else if sw != nil && idx == sw {
				suffix = append(suffix, ctElem{Field: -1, Index: s})
			} else {
				return nil, false
			}
			addr = x.X
		case *ssa.Global:
			path := make([]ctElem, 0, len(suffix))
			for j := len(suffix) - 1; j >= 0; j-- {
				path = append(path, suffix[j])
			}
			return p.ConstTableOf(x).Lookup(path)
		case *ssa.Alloc:
			st := c07LocalCopyOf(x)
			if st == nil || !ip.OnPath(st) {
				return nil, false
			}
			// the copy is made before it is read: the store's block strictly dominates the reader's, or precedes it in the same block
			sb, ub := st.Block(), user.Block()
			if sb == ub {
				if instrIndex(st) > instrIndex(user) {
					return nil, false
				}
			} else if !sb.Dominates(ub) {
				return nil, false
			}
			src, isLoad := ip.ResolveAt(st.Val).(*ssa.UnOp)
			if !isLoad || src.Op != token.MUL {
				return nil, false
			}
			addr = src.X
			user = src
		default:
			return nil, false
		}
	}
	return nil, false
}

// c07StatesOnPath: the states 0..3 of the excess/disjoint switch that the outcomes of the path leave possible. Tests
// of the state against constants are read as in c07StateOnPath; a test of a value read from a constant table at the
// state (`if steps[side][state].excess`) leaves the states for which the table holds the value the outcome requires.
// Outcomes that say nothing decidable about the state leave every state possible (the caller then judges the path
// for each of them).
func c07StatesOnPath(p *Prog, ip *IterPath, sw ssa.Value) []int64 {
	possible := map[int64]bool{0: true, 1: true, 2: true, 3: true}
	relOf := func(a, b int64) int {
		switch {
		case a < b:
			return c07RelLT
		case a > b:
			return c07RelGT
		}
		return c07RelEQ
	}
	for _, g := range ip.Conds {
		if o, set, ok := c07FactAbout(g.Cond, g.True, func(v ssa.Value) bool { return v == sw }); ok {
			if k, isK := c07Int(o); isK {
				for s := range possible {
					if set&relOf(s, k) == 0 {
						delete(possible, s)
					}
				}
			}
			continue
		}
		// a boolean read from the table
		cond, outcome := g.Cond, g.True
		for {
			if u, isU := cond.(*ssa.UnOp); isU && u.Op == token.NOT {
				cond, outcome = u.X, !outcome
				continue
			}
			break
		}
		if bt, isB := cond.Type().Underlying().(*types.Basic); isB && bt.Info()&types.IsBoolean != 0 {
			if _, isCmp := cond.(*ssa.BinOp); !isCmp {
				for s := range possible {
					if val, ok := c07TableEval(p, ip, cond, sw, s); ok && val.Kind() == constant.Bool && constant.BoolVal(val) != outcome {
						delete(possible, s)
					}
				}
				continue
			}
		}
		// an integer read from the table compared with a constant
		if x, y, set, ok := c07Fact(g.Cond, g.True); ok {
			if k, isK := c07Int(y); isK {
				for s := range possible {
					if val, okV := c07TableEval(p, ip, x, sw, s); okV && val.Kind() == constant.Int {
						if n, exact := constant.Int64Val(val); exact && set&relOf(n, k) == 0 {
							delete(possible, s)
						}
					}
				}
			}
		}
	}
	var out []int64
	for s := int64(0); s <= 3; s++ {
		if possible[s] {
			out = append(out, s)
		}
	}
	return out
}
