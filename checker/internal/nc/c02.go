package nc

import (
	"fmt"
	"go/token"
	"go/types"
	"strings"

	"golang.org/x/tools/go/ssa"
)

func init() { register("C02", C02); register("C09", C09) }

// callOrder: in fn the named callees are called (at least once each) and each
// call of a stage dominates every call of the next stage. A stage may list
// alternatives separated by "|" (mutually exclusive branches between the
// neighbouring stages).
func (r *Run) callOrder(label string, fn *ssa.Function, stages []string) {
	p := r.P
	r.Fn(FuncName(fn))
	loops := Loops(fn)
	// the calls fn performs: direct static calls, and the calls made by the entries of a local table of thin
	// forwarding closures that a loop runs completely and in order (c02TableCalls in robust_c02.go)
	events := c02CallEvents(fn, loops)
	find := func(name string) []c02Event {
		var out []c02Event
		for _, e := range events {
			if e.callee.Name() == name {
				out = append(out, e)
			}
		}
		return out
	}
	// a precedes b: a's block dominates b's, or a sits in a loop that b is not part of and whose header dominates b
	precedesIn := func(a, b ssa.Instruction) bool {
		if instrBefore(a, b) {
			return true
		}
		for _, l := range OuterLoops(loops, a.Block()) {
			if !l.Blocks[b.Block()] && l.Header.Dominates(b.Block()) {
				return true
			}
		}
		return false
	}
	precedes := func(a, b c02Event) bool {
		if a.at == b.at {
			// two entries of one table: the loop runs entry k, and entry k+1 only after entry k has returned
			return a.loop != nil && a.sub < b.sub
		}
		if a.loop != nil {
			// the table loop has run all its entries when b is reached over its exhaustion exit: b lies outside
			// the loop, behind its header, and cannot be reached from an exit taken on an entry's error
			return !a.loop.Blocks[b.at.Block()] && a.loop.Header.Dominates(b.at.Block()) && !a.errOut[b.at.Block()]
		}
		return precedesIn(a.at, b.at)
	}
	// b can run before a: some CFG path leads from b to a
	reachesIn := func(b, a ssa.Instruction) bool {
		if b.Block() == a.Block() && instrIndex(b) < instrIndex(a) {
			return true
		}
		seen := map[*ssa.BasicBlock]bool{}
		stack := append([]*ssa.BasicBlock{}, b.Block().Succs...)
		for len(stack) > 0 {
			x := stack[len(stack)-1]
			stack = stack[:len(stack)-1]
			if seen[x] {
				continue
			}
			seen[x] = true
			if x == a.Block() {
				return true
			}
			stack = append(stack, x.Succs...)
		}
		return false
	}
	reaches := func(b, a c02Event) bool {
		if a.at == b.at {
			// entries of one table run in index order, once each (the table loop has no enclosing loop)
			return b.sub < a.sub
		}
		return reachesIn(b.at, a.at)
	}
	var prev []c02Event
	prevName := ""
	for _, st := range stages {
		var cur []c02Event
		optional := strings.Contains(st, "|")
		for _, alt := range strings.Split(st, "|") {
			cs := find(alt)
			if len(cs) == 0 {
				r.Bad(label+".missing:"+alt, p.Pos(fn.Pos()), fmt.Sprintf("%s no longer calls %s", fn.Name(), alt))
			}
			cur = append(cur, cs...)
		}
		ok := true
		for _, a := range prev {
			for _, b := range cur {
				if reaches(b, a) {
					ok = false
				}
				if !optional && !strings.Contains(prevName, "|") && !precedes(a, b) {
					ok = false
				}
				if (optional || strings.Contains(prevName, "|")) && !reaches(a, b) {
					ok = false
				}
			}
		}
		if prev != nil {
			r.Check(ok && len(cur) > 0, label+".order:"+prevName+"<"+st, p.Pos(fn.Pos()), prevName+" precedes "+st+" on every path", fmt.Sprintf("in %s, %s does not run before %s on every path", fn.Name(), prevName, st))
		}
		if len(cur) > 0 {
			prev, prevName = cur, st
		}
	}
	// a mandatory stage after an optional one must still follow the last mandatory stage
	var lastMand []c02Event
	lastName := ""
	for _, st := range stages {
		if strings.Contains(st, "|") {
			continue
		}
		cs := find(st)
		if lastMand != nil && len(cs) > 0 {
			ok := true
			for _, a := range lastMand {
				for _, b := range cs {
					if !precedes(a, b) {
						ok = false
					}
				}
			}
			r.Check(ok, label+".must:"+lastName+"<"+st, p.Pos(fn.Pos()), lastName+" always runs before "+st, fmt.Sprintf("in %s, %s can be reached without %s having run", fn.Name(), st, lastName))
		}
		if len(cs) > 0 {
			lastMand, lastName = cs, st
		}
	}
}

// epochPipeline implements C02.1 / C09.1a.
func (r *Run) epochPipeline(full bool) {
	p := r.P
	seq := func(n string) *ssa.Function { return p.Func(PkgG, "SequentialPopulationEpochExecutor."+n) }
	par := func(n string) *ssa.Function { return p.Func(PkgG, "ParallelPopulationEpochExecutor."+n) }
	r.callOrder("sequential.NextEpoch", seq("NextEpoch"), []string{"prepareForReproduction", "reproduce", "finalizeReproduction"})
	r.callOrder("prepare", seq("prepareForReproduction"), []string{"adjustFitness", "purgeZeroOffspringSpecies", "deltaCoding|giveBabiesToTheBest", "purgeOrganisms"})
	r.callOrder("parallel.NextEpoch", par("NextEpoch"), []string{"prepareForReproduction", "reproduce", "finalizeReproduction"})
	if full {
		r.callOrder("sequential.reproduce", seq("reproduce"), []string{"reproduce", "speciate"})
		r.callOrder("finalize", seq("finalizeReproduction"), []string{"purgeOldGeneration", "purgeOrAgeSpecies"})
	}
	// adjustFitness for every species
	prep := seq("prepareForReproduction")
	tm := NewTermer(prep)
	okAll := false
	for _, c := range CallsTo(prep, p.Func(PkgG, "Species.adjustFitness")) {
		l := InnermostLoop(Loops(prep), c.Block())
		if l != nil && loopRangesOver(tm, l, "p3.Species") && tm.Of(c.Common().Args[0]).String() == "p3.Species[*]" {
			okAll = true
		}
	}
	r.Check(okAll, "prepare.adjust-all", p.Pos(prep.Pos()), "fitness is adjusted for every species", "adjustFitness is not applied to every species of the population")
	if !full {
		return
	}
	// every species reproduces; the babies of all of them are speciated; the count is checked against PopSize
	for _, ex := range []struct {
		name string
		fn   *ssa.Function
	}{{"sequential", seq("reproduce")}, {"parallel", par("reproduce")}} {
		fn := ex.fn
		r.Fn(FuncName(fn))
		etm := NewTermer(fn)
		loops := Loops(fn)
		// the species loop
		okLoop := false
		var walk func(f *ssa.Function)
		var reproCalls []ssa.CallInstruction
		walk = func(f *ssa.Function) {
			reproCalls = append(reproCalls, CallsTo(f, p.Func(PkgG, "Species.reproduce"))...)
			for _, a := range f.AnonFuncs {
				walk(a)
			}
		}
		walk(fn)
		for _, l := range loops {
			if loopRangesOver(etm, l, "p3.Species") {
				okLoop = true
			}
		}
		if ex.name == "parallel" {
			okBind := false
			why := "no goroutine per species"
			Instrs(fn, func(_ *ssa.BasicBlock, _ int, in ssa.Instruction) {
				g, ok := in.(*ssa.Go)
				if !ok {
					return
				}
				var body *ssa.Function
				switch v := g.Call.Value.(type) {
				case *ssa.Function:
					body = v
				case *ssa.MakeClosure:
					body = v.Fn.(*ssa.Function)
				}
				if body == nil {
					why = "the goroutine body is not a function literal"
					return
				}
				for _, rc := range CallsTo(body, p.Func(PkgG, "Species.reproduce")) {
					recv := rc.Common().Args[0]
					par, isPar := recv.(*ssa.Parameter)
					if !isPar {
						why = "inside the goroutine the reproducing species is " + NewTermer(body).Of(recv).String() + ", a variable shared with the spawning loop, not an argument bound when the goroutine is started"
						return
					}
					for i, bp := range body.Params {
						if bp == par && i < len(g.Call.Args) {
							at := etm.Of(g.Call.Args[i])
							if at.String() == "p3.Species[*]" {
								okBind = true
							} else {
								why = "the goroutine is started for " + at.String()
							}
						}
					}
				}
			})
			r.Check(okBind, "parallel.reproduce.own-species", p.Pos(fn.Pos()), "each goroutine reproduces the species of its own loop iteration (passed as an argument)", "the reproduction goroutines are not each bound to the species of their own iteration: "+why+"; species are reproduced twice or not at all and the progeny size is wrong")
		}
		r.Check(okLoop && len(reproCalls) == 1, ex.name+".reproduce.all-species", p.Pos(fn.Pos()), "one reproduce call inside a loop over all species", fmt.Sprintf("the %s executor does not reproduce every species exactly once (loop over all species=%v, reproduce call sites=%d)", ex.name, okLoop, len(reproCalls)))
		// sanity check: len(babies) != opts.PopSize returns an error, and it dominates speciate
		okCheck := false
		var spec ssa.CallInstruction
		for _, c := range CallsTo(fn, p.Func(PkgG, "Population.speciate")) {
			spec = c
		}
		if spec != nil {
			// the outcomes known at the speciate call, also through the error result of a size check that was moved
			// into a helper (`if err := check(babies, n); err != nil { return err }`): behind `err == nil` holds
			// what holds on every edge on which that error can be nil
			list := spec.Common().Args[2]
			for _, g := range c02EffGuards(spec.Block(), list) {
				gt := etm.Of(g.Cond)
				if !(gt.Op == "bin" && ((gt.Name == "!=" && !g.True) || (gt.Name == "==" && g.True))) {
					continue
				}
				for _, o := range [][2]*Term{{gt.Args[0], gt.Args[1]}, {gt.Args[1], gt.Args[0]}} {
					// the list measured is the list speciated
					if o[0].Op == "len" && strings.HasSuffix(o[1].String(), ".PopSize") && o[0].Args[0].V == list {
						okCheck = true
					}
				}
			}
		}
		r.Check(okCheck, ex.name+".progeny-size-check", p.Pos(fn.Pos()), "speciate runs only when len(babies) == PopSize, on the list that was measured", "the "+ex.name+" executor speciates the babies without the progeny-size check on that same list")
	}
}

// babiesPerQuota implements C02.2: exactly ExpectedOffspring babies per species.
func (r *Run) babiesPerQuota() {
	p := r.P
	fn := p.Func(PkgG, "Species.reproduce")
	r.Fn(FuncName(fn))
	tm := NewTermer(fn)
	eo := p.Field(PkgG, "Species", "ExpectedOffspring")
	var loop *Loop
	var count *ssa.Phi
	for _, l := range Loops(fn) {
		iff, ok := l.Header.Instrs[len(l.Header.Instrs)-1].(*ssa.If)
		if !ok {
			continue
		}
		// the iteration stays in the loop exactly when count < quota, in any spelling (quota > count, !(count >= quota), ...)
		if len(l.Header.Succs) != 2 || l.Blocks[l.Header.Succs[0]] == l.Blocks[l.Header.Succs[1]] {
			continue
		}
		bx, by, isLess := c13LessThan(iff.Cond, l.Blocks[l.Header.Succs[0]])
		if !isLess {
			continue
		}
		if ph, ok := bx.(*ssa.Phi); ok && ph.Block() == l.Header {
			if t := tm.Of(by); t.Op == "field" && t.Obj == eo && t.Args[0].Op == "recv" {
				loop, count = l, ph
			}
		}
	}
	if loop == nil {
		r.Bad("reproduce.loop", p.Pos(fn.Pos()), "Species.reproduce has no loop `count < s.ExpectedOffspring`: the number of babies is not tied to the quota")
		return
	}
	// counter 0,1,2,...
	init, step := false, true
	for i, e := range count.Edges {
		if !loop.Blocks[count.Block().Preds[i]] {
			if k, ok := e.(*ssa.Const); ok && k.Value != nil && k.Value.ExactString() == "0" {
				init = true
			}
		} else {
			if !c13IsPlusOne(e, count) { // count+1 or 1+count
				step = false
			}
		}
	}
	r.Check(init && step, "reproduce.counter", p.Pos(firstBlockPos(loop.Header)), "count runs 0,1,2,... below the quota", "the offspring counter does not start at 0 and advance by exactly one per iteration")
	// the quota is not modified while reproducing
	var wr []string
	for _, st := range FieldStores(fn, eo) {
		wr = append(wr, p.Pos(st.Pos()))
	}
	ws, _ := p.writeSet(fn, 0)
	if t, ok := ws["Species.ExpectedOffspring"]; ok {
		wr = append(wr, p.Pos(t.Pos))
	}
	r.Check(len(wr) == 0, "reproduce.quota-stable", p.Pos(fn.Pos()), "the quota is not written during reproduction", "ExpectedOffspring is written while the species reproduces: "+strings.Join(wr, ", "))
	// the babies list: every continuing iteration passes exactly one append of one organism
	var babies *ssa.Phi
	for _, ph := range HeaderPhis(loop) {
		if strings.Contains(typeShort(ph.Type()), "Organism") {
			babies = ph
		}
	}
	if babies == nil {
		r.Bad("reproduce.babies", p.Pos(fn.Pos()), "cannot find the list of babies carried around the loop")
		return
	}
	okApp := true
	why := ""
	loops := Loops(fn)
	for i, e := range babies.Edges {
		pred := babies.Block().Preds[i]
		if !loop.Blocks[pred] {
			continue
		}
		c, isCall := e.(*ssa.Call)
		base, elems, ok := appendCall(e)
		if !isCall || !ok || base != ssa.Value(babies) || len(elems) != 1 {
			okApp, why = false, "an iteration continues with the list "+tm.Of(e).String()+" instead of append(babies, baby)"
			continue
		}
		if !(c.Block() == pred || c.Block().Dominates(pred)) || InnermostLoop(loops, c.Block()) != InnermostLoop(loops, loop.Header) {
			okApp, why = false, "the append does not lie on every path of the iteration exactly once"
		}
		// the appended baby is an organism created in this iteration
		for _, f := range phiWeb(elems[0]).Feeders {
			ft := tm.Of(f)
			if !(ft.Op == "extract" && ft.Args[0].Op == "call" && ft.Args[0].Name == "NewOrganism") {
				okApp, why = false, "the appended organism is "+ft.String()+", not one created by NewOrganism in this iteration"
			}
		}
	}
	r.Check(okApp, "reproduce.one-baby-per-iteration", p.Pos(firstBlockPos(loop.Header)), "every iteration that continues appends exactly one new organism", "an iteration of the offspring loop can complete without appending exactly one new organism ("+why+"): the species delivers fewer or more babies than its quota")
	// the loop is left only by exhaustion (returning the list) or by an error return
	okExit := true
	for b := range loop.Blocks {
		for _, sx := range b.Succs {
			if loop.Blocks[sx] {
				continue
			}
			if b == loop.Header {
				ret, ok := sx.Instrs[len(sx.Instrs)-1].(*ssa.Return)
				if !ok || ret.Results[0] != ssa.Value(babies) {
					okExit = false
				}
				continue
			}
			ret, ok := sx.Instrs[len(sx.Instrs)-1].(*ssa.Return)
			if !ok || tm.Of(ret.Results[0]).Op != "nil" {
				okExit = false
			}
		}
	}
	r.Check(okExit, "reproduce.exits", p.Pos(firstBlockPos(loop.Header)), "the loop ends by exhaustion (returning all babies) or by an error", "the offspring loop can be left early without an error, or does not return the accumulated babies")
}

// conservation implements C02.3 / C09.1c.
func (r *Run) conservation() {
	r.stolenBabiesBalance()
	r.deltaCodingTotal()
	r.apportionmentFixup()
}

func (r *Run) stolenBabiesBalance() {
	p := r.P
	fn := p.Func(PkgG, "Population.giveBabiesToTheBest")
	r.Fn(FuncName(fn))
	tm := NewTermer(fn)
	eo := p.Field(PkgG, "Species", "ExpectedOffspring")
	sco := p.Field(PkgG, "Organism", "superChampOffspring")
	loops := Loops(fn)
	// the pool: an int header phi starting at 0 in the first loop that is compared with BabiesStolen
	var pool []*ssa.Phi
	for _, l := range loops {
		for _, ph := range HeaderPhis(l) {
			if b, ok := ph.Type().Underlying().(*types.Basic); !ok || b.Kind() != types.Int {
				continue
			}
			// carried through EO arithmetic: some latch value adds/subtracts with a load of ExpectedOffspring or is compared to stolen blocks
			uses := false
			for _, ref := range *ph.Referrers() {
				if bo, ok := ref.(*ssa.BinOp); ok {
					s := tm.Of(bo).String()
					if strings.Contains(s, "BabiesStolen") || strings.Contains(s, "ExpectedOffspring") || strings.Contains(s, "[*]") {
						uses = true
					}
				}
			}
			isCounter := false
			for i, e := range ph.Edges {
				if l.Blocks[ph.Block().Preds[i]] {
					if bo, ok := e.(*ssa.BinOp); ok && (bo.Op == token.ADD || bo.Op == token.SUB) && bo.X == ssa.Value(ph) {
						if k := constTermOf(bo.Y); k != nil && k.Name == "1" && len(ph.Edges) == 2 {
							isCounter = true
						}
					}
				}
			}
			if uses && !isCounter {
				pool = append(pool, ph)
			}
		}
	}
	if len(pool) == 0 {
		r.Undecided("stolen.pool", p.Pos(fn.Pos()), "cannot identify the pool of stolen babies in giveBabiesToTheBest")
		return
	}
	nPaths, nMoves := 0, 0
	for _, l := range loops {
		var poolPhi *ssa.Phi
		for _, ph := range pool {
			if ph.Block() == l.Header {
				poolPhi = ph
			}
		}
		if poolPhi == nil {
			continue
		}
		paths, complete := EnumIterPaths(fn, l, 3000)
		if !complete {
			r.Undecided("stolen.paths", p.Pos(fn.Pos()), "too many paths through one iteration")
			return
		}
		r.PathsExplored += len(paths)
		for _, ip := range paths {
			if ip.End == "return" {
				continue
			}
			nPaths++
			ps := newPathState(tm, ip)
			ps.extra[poolPhi] = linAtom("POOL")
			delta := linConst(0)
			var eoGain, champ []Lin
			n := len(ip.Blocks)
			if ip.End == "back" || ip.End == "exit" {
				n--
			}
			for _, b := range ip.Blocks[:n] {
				for _, in := range b.Instrs {
					if st, ok := in.(*ssa.Store); ok {
						switch StoredField(st) {
						case eo:
							d := ps.Lin(st.Val).Add(ps.currentAtom(st.Addr), -1)
							delta = delta.Add(d, 1)
							eoGain = append(eoGain, d)
							nMoves++
						case sco:
							old := ps.currentAtom(st.Addr)
							v := ps.Lin(st.Val)
							if _, rel := v.T[oldKey(old)]; rel {
								v = v.Add(old, -1)
							}
							champ = append(champ, v)
						}
					}
					ps.observe(in)
				}
			}
			// pool after the path
			var next ssa.Value
			switch ip.End {
			case "back":
				next = ip.NextValue(poolPhi)
			default:
				// value the pool has when the loop is left: resolve the phi at the exit target if any, else unchanged
				next = poolPhi
				if ip.ExitTo != nil {
					for _, in := range ip.ExitTo.Instrs {
						ph, ok := in.(*ssa.Phi)
						if !ok {
							break
						}
						for i, pr := range ip.ExitTo.Preds {
							if len(ip.Blocks) >= 2 && pr == ip.Blocks[len(ip.Blocks)-2] {
								if w := phiWeb(ph.Edges[i]); w.Phis[poolPhi] || ph.Edges[i] == ssa.Value(poolPhi) {
									next = (&IterPath{Blocks: ip.Blocks[:len(ip.Blocks)-1], End: "partial"}).Resolve(ph.Edges[i])
								}
							}
						}
					}
				}
			}
			if next == nil {
				next = poolPhi
			}
			dp := ps.Lin(next).Add(linAtom("POOL"), -1)
			total := delta.Add(dp, 1)
			// the pool never goes negative: a withdrawal of X needs POOL >= X on the path (or takes exactly what is there)
			if x := linConst(0).Add(dp, -1); !x.IsZero() && !hasNegative(x) && x.C >= 0 && !x.Equal(linAtom("POOL")) {
				covered := false
				// some branch outcome of the path says POOL >= x, in any spelling (pool >= x, x <= pool, !(pool < x),
				// pool > x-1, ...): the outcome, stated as L >= 0, satisfies (POOL - x) - L = constant >= 0
				want := linAtom("POOL").Add(x, -1)
				for _, g := range ip.Conds {
					cx, cy, op, isCmp := CmpFact(g.Cond, g.True)
					if !isCmp || !c02IsInt(cx.Type()) || op == token.EQL || op == token.NEQ {
						continue
					}
					l, isIneq := ineqAsLin(op, ps.Lin(cx), ps.Lin(cy), true)
					if !isIneq || l.T["POOL"] != 1 {
						continue
					}
					if d := want.Add(l, -1); len(d.T) == 0 && d.C >= 0 {
						covered = true
					}
				}
				r.Check(covered, "stolen.nonnegative["+pathKey(ip)+"]", p.Pos(firstPos(ip)), fmt.Sprintf("%s babies are handed out only when the pool holds at least that many", x),
					fmt.Sprintf("%s babies are handed out without a test that the pool holds that many: the pool goes negative and the quotas total more than the population size", x), ip.Describe(p)...)
			}
			lbl := "stolen.balance[" + pathKey(ip) + "]"
			r.Check(total.IsZero(), lbl, p.Pos(firstPos(ip)), fmt.Sprintf("quota change %s + pool change %s = 0", delta, dp),
				fmt.Sprintf("on this path the species' quotas change by %s while the pool of stolen babies changes by %s: %s babies appear or vanish, the quotas no longer total the population size", delta, dp, total), ip.Describe(p)...)
			// a gain is mirrored by the champion's reserved clones
			for _, g := range eoGain {
				if g.C < 0 || hasNegative(g) {
					continue
				}
				ok := false
				for _, c := range champ {
					if c.Equal(g) {
						ok = true
					}
				}
				if !g.IsZero() {
					r.Check(ok, "stolen.mirror["+pathKey(ip)+"]", p.Pos(firstPos(ip)), "babies given to a species are reserved for its champion's clones",
						fmt.Sprintf("a species' quota grows by %s but its champion's superChampOffspring does not change by the same amount (%v)", g, champ), ip.Describe(p)...)
				}
			}
		}
	}
	r.Floor("paths through the two redistribution loops", nPaths, 6)
	r.Floor("quota updates on those paths", nMoves, 5)
	// after the loops: whatever is left goes to the first species
	var tail []*ssa.Store
	for _, st := range FieldStores(fn, eo) {
		if InnermostLoop(loops, st.Block()) == nil {
			tail = append(tail, st)
		}
	}
	okTail := len(tail) == 1
	if okTail {
		st := tail[0]
		vt := tm.Of(st.Val)
		// EO + pool, guarded by pool > 0
		okTail = vt.Op == "bin" && vt.Name == "+" && vt.Args[0].String() == tm.Of(st.Addr).String()
		if okTail {
			pv := vt.Args[1].V
			isPool := false
			for _, ph := range pool {
				if w := phiWeb(pv); w.Phis[ph] || pv == ssa.Value(ph) {
					isPool = true
				}
			}
			guard := false
			for _, g := range Guards(st.Block()) {
				// any spelling of "the pool is positive": pool > 0, 0 < pool, pool >= 1, !(pool <= 0) (guard clause) ...
				if x, k, isGE := c02AtLeast(g.Cond, g.True); isGE && k == 1 && x == pv {
					guard = true
				}
			}
			okTail = isPool && guard && strings.HasPrefix(tm.Of(st.Addr).String(), "p1[0].")
		}
	}
	r.Check(okTail, "stolen.remainder", p.Pos(fn.Pos()), "babies left in the pool go to the first species", "babies that remain in the pool after the distribution are not all given to the first species: the quotas total less than the population size")
}

func oldKey(l Lin) string {
	for k := range l.T {
		return k
	}
	return ""
}

func hasNegative(l Lin) bool {
	for _, v := range l.T {
		if v < 0 {
			return true
		}
	}
	return false
}

func (r *Run) deltaCodingTotal() {
	p := r.P
	fn := p.Func(PkgG, "Population.deltaCoding")
	r.Fn(FuncName(fn))
	tm := NewTermer(fn)
	eo := p.Field(PkgG, "Species", "ExpectedOffspring")
	sco := p.Field(PkgG, "Organism", "superChampOffspring")
	loops := Loops(fn)
	type asg struct {
		idx string
		val Lin
		st  *ssa.Store
	}
	groups := map[*ssa.BasicBlock][]asg{}
	var zero []*ssa.Store
	ip := &IterPath{}
	ps := newPathState(tm, ip)
	// zeroing loops: position from which on every species of the sorted list gets quota 0
	type tail struct {
		from int64
		loop *Loop
	}
	zeroFrom := map[*ssa.Store]tail{}
	for _, st := range FieldStores(fn, eo) {
		at := tm.Of(st.Addr)
		if InnermostLoop(loops, st.Block()) != nil {
			// index loop from k, range over sorted[k:], or loop over all positions with the store under `i >= k`
			if from, l, ok := c02TailCover(fn, loops, st, 1); ok {
				zero = append(zero, st)
				zeroFrom[st] = tail{from, l}
				continue
			}
		}
		if !(at.Args[0].Op == "elem" && isParamIdx(at.Args[0].Args[0], 1)) {
			r.Bad("delta.target", p.Pos(st.Pos()), "deltaCoding sets the quota of "+at.String()+", not of a species of the sorted list")
			continue
		}
		if InnermostLoop(loops, st.Block()) != nil {
			zero = append(zero, st)
			continue
		}
		idx := at.Args[0].Args[1].String()
		groups[st.Block()] = append(groups[st.Block()], asg{idx, ps.Lin(st.Val), st})
	}
	popSize := Lin{}
	n := 0
	for blk, as := range groups {
		n++
		total := linConst(0)
		seen := map[string]bool{}
		distinct := true
		for _, a := range as {
			total = total.Add(a.val, 1)
			if seen[a.idx] {
				distinct = false
			}
			seen[a.idx] = true
		}
		want := linAtom("p2.PopSize@0")
		_ = popSize
		ok := distinct && total.Equal(want)
		r.Check(ok, fmt.Sprintf("delta.total[%d species]", len(as)), p.Pos(as[0].st.Pos()), fmt.Sprintf("quotas assigned to species %v total PopSize", keysOf(seen)),
			fmt.Sprintf("delta coding assigns quotas %s to species %v, which is not exactly PopSize: the next generation has the wrong size", total, keysOf(seen)))
		// all other species get zero - unless no further species can exist in this branch (len(sorted) <= len(as)):
		// a loop that gives quota 0 to every position from len(as) on, run whenever this branch runs
		if !c02LenAtMost(tm, Guards(blk), "p1", int64(len(as))) {
			okZero := false
			// the species that receive the population are the first len(as) of the list
			first := true
			for _, a := range as {
				k := constTermOfString(a.idx)
				if k < 0 || k >= int64(len(as)) {
					first = false
				}
			}
			for _, z := range zero {
				t, known := zeroFrom[z]
				if !known || !IsConstIntValue(z.Val, 0) || t.loop.Blocks[blk] {
					continue
				}
				switch {
				case blk.Dominates(t.loop.Header):
					// the loop follows the assignments: it starts right behind them and cannot be bypassed
					if t.from == int64(len(as)) && c02AlwaysReaches(blk, t.loop.Header) {
						okZero = true
					}
				case t.loop.Header.Dominates(blk):
					// the loop has run to exhaustion (its only exit) before the assignments
					if t.from <= int64(len(as)) {
						okZero = true
					}
				}
			}
			r.Check(okZero && first, fmt.Sprintf("delta.rest-zero[%d species]", len(as)), p.Pos(as[0].st.Pos()), "every other species gets a zero quota", "species after the ones that receive the population keep their old quotas: the quotas total more than the population size")
		}
		// the champion's reserved clones mirror the quota
		for _, a := range as {
			ok := false
			for _, st := range FieldStores(fn, sco) {
				if st.Block() == blk && ps.Lin(st.Val).Equal(a.val) && strings.HasPrefix(tm.Of(st.Addr).String(), "p1["+a.idx+"].") {
					ok = true
				}
			}
			r.Check(ok, "delta.mirror["+a.idx+"]", p.Pos(a.st.Pos()), "the champion's reserved clones equal the quota", "the quota given to a species by delta coding is not mirrored in its champion's superChampOffspring")
		}
	}
	r.Floor("delta-coding branches", n, 2)
}

// constTermOfString: the non-negative integer an index term spells, -1 otherwise.
func constTermOfString(s string) int64 {
	if s == "" || len(s) > 9 {
		return -1
	}
	var n int64
	for _, c := range s {
		if c < '0' || c > '9' {
			return -1
		}
		n = n*10 + int64(c-'0')
	}
	return n
}

// IsConstIntValue reports whether v is the integer constant n.
func IsConstIntValue(v ssa.Value, n int64) bool {
	t := constTermOf(v)
	return t != nil && t.Name == fmt.Sprint(n)
}

func (r *Run) apportionmentFixup() {
	p := r.P
	fn := p.Func(PkgG, "Population.purgeZeroOffspringSpecies")
	r.Fn(FuncName(fn))
	tm := NewTermer(fn)
	eo := p.Field(PkgG, "Species", "ExpectedOffspring")
	loops := Loops(fn)
	var quota, bump, zero, all *ssa.Store
	for _, st := range FieldStores(fn, eo) {
		vt := tm.Of(st.Val)
		switch {
		case vt.Op == "extract" && vt.Idx == 0 && vt.Args[0].Op == "call" && vt.Args[0].Name == "Species.countOffspring":
			quota = st
		case vt.Op == "bin" && vt.Name == "+" && vt.Args[1].String() == "1" && vt.Args[0].String() == tm.Of(st.Addr).String():
			bump = st
		case IsConstIntValue(st.Val, 0):
			zero = st
		default:
			all = st
		}
	}
	if quota == nil {
		r.Bad("apportion.quota", p.Pos(fn.Pos()), "no species quota is computed by countOffspring")
		return
	}
	// every species gets its quota, the fraction is threaded through the species in order
	ql := InnermostLoop(loops, quota.Block())
	call := tm.Of(quota.Val).Args[0].V.(*ssa.Call)
	okThread := false
	if ql != nil && loopRangesOver(tm, ql, "recv.Species") {
		if ph, ok := call.Call.Args[1].(*ssa.Phi); ok && ph.Block() == ql.Header {
			init, next := false, false
			for i, e := range ph.Edges {
				if !ql.Blocks[ph.Block().Preds[i]] {
					if k := constTermOf(e); k != nil && k.Name == "0" {
						init = true
					}
				} else if ex, ok := e.(*ssa.Extract); ok && ex.Tuple == ssa.Value(call) && ex.Index == 1 {
					next = true
				}
			}
			okThread = init && next && tm.Of(call.Call.Args[0]).String() == "recv.Species[*]" && tm.Of(quota.Addr).String() == "recv.Species[*].ExpectedOffspring"
		}
	}
	r.Check(okThread, "apportion.carry", p.Pos(quota.Pos()), "each species' quota is countOffspring(carried fraction); the fraction starts at 0 and is handed from species to species", "the fractional offspring are not carried from one species to the next in species order starting from 0: up to one baby per species is lost")
	// precision fix-up
	okBump := false
	if bump != nil {
		for _, g := range Guards(bump.Block()) {
			// any spelling of "<something> < len(recv.Organisms)": a < n, n > a, !(a >= n), n - a > 0, ...
			x, y, op, isCmp := CmpFact(g.Cond, g.True)
			if !isCmp || !c02IsInt(x.Type()) {
				continue
			}
			if l, isIneq := ineqAsLin(op, linStatic(tm, x, nil, 0), linStatic(tm, y, nil, 0), true); isIneq && l.T["len(recv.Organisms)"] == 1 && l.C <= -1 {
				okBump = true
			}
		}
	}
	r.Check(okBump, "apportion.fixup", p.Pos(fn.Pos()), "one make-up offspring when the quotas total less than the population", "there is no make-up offspring for a total that fell short of the population size by rounding")
	// population-died fallback: everything to one species
	okDied := zero != nil && all != nil
	if okDied {
		zl := InnermostLoop(loops, zero.Block())
		okDied = zl != nil && loopRangesOver(tm, zl, "recv.Species") && tm.Of(all.Val).String() == "len(recv.Organisms)" && (zl.Header.Dominates(all.Block()))
	}
	r.Check(okDied, "apportion.fallback", p.Pos(fn.Pos()), "fallback: all quotas zero, then the whole population to one species", "the fallback for a collapsed average does not zero every quota and then give exactly the population size to one species")
	// zero-quota species are dropped, the others kept (C09.3)
	okKeep := false
	okEmpty, nKept := true, 0
	for _, st := range FieldStores(fn, p.Field(PkgG, "Population", "Species")) {
		nKept++
		if !c02BuiltFromEmpty(st.Val, map[ssa.Value]bool{}) {
			okEmpty = false
		}
		w := phiWeb(st.Val)
		for _, f := range w.Feeders {
			c, ok := f.(*ssa.Call)
			if !ok {
				continue
			}
			if _, elems, ok := appendCall(c); ok && len(elems) == 1 && tm.Of(elems[0]).String() == "recv.Species[*]" {
				for _, g := range Guards(c.Block()) {
					// any spelling of "the quota is positive": EO > 0, 0 < EO, EO >= 1, !(EO <= 0), !(EO < 1) ...
					if x, k, isGE := c02AtLeast(g.Cond, g.True); isGE && k == 1 && tm.Of(x).String() == "recv.Species[*].ExpectedOffspring" {
						okKeep = true
					}
				}
			}
		}
	}
	r.Check(okKeep, "apportion.zero-quota", p.Pos(fn.Pos()), "a species is kept iff its quota is positive", "species with a zero quota are not removed (or species with a positive quota are) before reproduction")
	r.Check(okEmpty && nKept > 0, "apportion.kept-list", p.Pos(fn.Pos()), "the list of kept species starts empty and grows only by appends", "the list of kept species does not start as an empty list (or is not built by appends only): it holds entries - nil or stale - that are not species kept for their positive quota, and the turnover dereferences or reproduces them")
	r.apportionRecipient(fn, tm)
	// every path to the return re-establishes "the quotas total the population size" (c02c.go)
	r.apportionTotal(fn, tm, quota)
}

// partitionAndAgeing implements C02.4 and C02.5.
func (r *Run) partitionAndAgeing() {
	p := r.P
	r.checkSpeciatePartition("speciate")
	r.checkCreateFirstSpecies("createFirstSpecies")
	// addOrganism appends
	add := p.Func(PkgG, "Species.addOrganism")
	atm := NewTermer(add)
	okAdd := false
	for _, st := range FieldStores(add, p.Field(PkgG, "Species", "Organisms")) {
		if base, elems, ok := appendCall(st.Val); ok && len(elems) == 1 && atm.Of(base).String() == "recv.Organisms" && isParamIdx(atm.Of(elems[0]), 1) {
			okAdd = true
		}
	}
	r.Check(okAdd, "addOrganism", p.Pos(add.Pos()), "appends the organism to the species' list", "Species.addOrganism does not append its argument to the species' organism list")
	// removeOrganism keeps the others in order
	rem := p.Func(PkgG, "Species.removeOrganism")
	rtm := NewTermer(rem)
	okRem := false
	for _, st := range FieldStores(rem, p.Field(PkgG, "Species", "Organisms")) {
		for _, f := range phiWeb(st.Val).Feeders {
			c, ok := f.(*ssa.Call)
			if !ok {
				continue
			}
			if _, elems, ok := appendCall(c); ok && len(elems) == 1 && rtm.Of(elems[0]).String() == "recv.Organisms[*]" {
				for _, g := range Guards(c.Block()) {
					if a, b, ok := neqCond(rtm, g); ok {
						if (a.String() == "recv.Organisms[*]" && isParamIdx(b, 1)) || (b.String() == "recv.Organisms[*]" && isParamIdx(a, 1)) {
							okRem = true
						}
					}
				}
			}
		}
	}
	// the same filter written with the standard library: slices.DeleteFunc(copy of the list, o == org)
	for _, st := range FieldStores(rem, p.Field(PkgG, "Species", "Organisms")) {
		if c02FilteredByIdentity(rtm, rem, st.Val, "recv.Organisms", 1) {
			okRem = true
		}
	}
	r.Check(okRem, "removeOrganism", p.Pos(rem.Pos()), "keeps every other organism, in order", "Species.removeOrganism does not rebuild the list from exactly the organisms different from its argument")
	// purgeOldGeneration
	pog := p.Func(PkgG, "Population.purgeOldGeneration")
	ptm := NewTermer(pog)
	okPog := false
	for _, c := range CallsTo(pog, rem) {
		l := InnermostLoop(Loops(pog), c.Block())
		a := callArgTerms(ptm, c.Common())
		if l != nil && loopRangesOver(ptm, l, "recv.Organisms") && a[0].String() == "recv.Organisms[*].Species" && a[1].String() == "recv.Organisms[*]" {
			okPog = true
		}
	}
	okEmpty := false
	for _, st := range FieldStores(pog, p.Field(PkgG, "Population", "Organisms")) {
		t := ptm.Of(st.Val)
		if t.Op == "slice" || (t.Op == "make" && len(t.Args) > 0 && t.Args[0].String() == "0") || t.Op == "nil" {
			okEmpty = true
		}
	}
	r.Check(okPog && okEmpty, "purgeOldGeneration", p.Pos(pog.Pos()), "every old organism is removed from its species and the master list is emptied", fmt.Sprintf("purgeOldGeneration: removes every organism from its species=%v, empties the master list=%v", okPog, okEmpty))
	// purgeOrAgeSpecies
	poa := p.Func(PkgG, "Population.purgeOrAgeSpecies")
	r.Fn(FuncName(pog), FuncName(poa), FuncName(add), FuncName(rem))
	otm := NewTermer(poa)
	loops := Loops(poa)
	nonEmpty := func(b *ssa.BasicBlock) bool {
		for _, g := range Guards(b) {
			// any spelling of "the species has organisms": len > 0, len != 0, !(len == 0), 0 < len, len >= 1 ...
			if condImpliesEmpty(otm, Guard{g.Cond, !g.True, g.At}, "recv.Species[*].Organisms") {
				return true
			}
			if bo, ok := g.Cond.(*ssa.BinOp); ok && bo.Op == token.NEQ && g.True {
				if k, isK := bo.Y.(*ssa.Const); isK && k.Value != nil && k.Int64() == 0 && otm.Of(bo.X).String() == "len(recv.Species[*].Organisms)" {
					return true
				}
			}
		}
		return false
	}
	okKeep, okRebuild, okNumber := false, false, false
	for _, st := range FieldStores(poa, p.Field(PkgG, "Population", "Species")) {
		for _, f := range phiWeb(st.Val).Feeders {
			if c, ok := f.(*ssa.Call); ok {
				if _, elems, ok := appendCall(c); ok && len(elems) == 1 && otm.Of(elems[0]).String() == "recv.Species[*]" && nonEmpty(c.Block()) {
					okKeep = true
				}
			}
		}
	}
	for _, st := range FieldStores(poa, p.Field(PkgG, "Population", "Organisms")) {
		if base, elems, ok := appendCall(st.Val); ok && len(elems) == 1 && otm.Of(base).String() == "recv.Organisms" && otm.Of(elems[0]).String() == "recv.Species[*].Organisms[*]" && nonEmpty(st.Block()) {
			l := InnermostLoop(loops, st.Block())
			if l != nil && loopRangesOver(otm, l, "recv.Species[*].Organisms") {
				okRebuild = true
			}
		}
	}
	// numbering: Genotype.Id = counter; counter+1 on the same iteration, counter starts at 0
	for _, st := range FieldStores(poa, p.Field(PkgG, "Genome", "Id")) {
		l := InnermostLoop(loops, st.Block())
		ph, isPhi := st.Val.(*ssa.Phi)
		if l == nil || !isPhi {
			continue
		}
		// the counter: a phi web with init 0 and +1 per inner iteration
		w := phiWeb(ph)
		has0, inc := false, false
		for _, k := range w.Consts {
			if k.Value.ExactString() == "0" {
				has0 = true
			}
		}
		for _, f := range w.Feeders {
			if b, ok := f.(*ssa.BinOp); ok && b.Op == token.ADD && constTermOf(b.Y) != nil && constTermOf(b.Y).Name == "1" && b.Block() == st.Block() {
				if bp, ok := b.X.(*ssa.Phi); ok && w.Phis[bp] {
					inc = true
				}
			} else {
				inc = false
				break
			}
		}
		if has0 && inc && otm.Of(st.Addr).String() == "recv.Species[*].Organisms[*].Genotype.Id" {
			okNumber = true
		}
	}
	r.Check(okKeep, "purgeOrAgeSpecies.keep", p.Pos(poa.Pos()), "a species is kept iff it has organisms", "the species list is not rebuilt from exactly the non-empty species")
	r.Check(okRebuild, "purgeOrAgeSpecies.rebuild", p.Pos(poa.Pos()), "the master list is rebuilt from every organism of the kept species", "the master organism list is not rebuilt from every organism of every non-empty species")
	r.Check(okNumber, "purgeOrAgeSpecies.genome-ids", p.Pos(poa.Pos()), "genome ids are 0,1,2,... one per organism", "genome ids are not assigned from a counter that starts at 0 and grows by one per organism: ids repeat")
	// ageing
	age, novel := p.Field(PkgG, "Species", "Age"), p.Field(PkgG, "Species", "IsNovel")
	okAge, okNovel := false, false
	nAge := 0
	for _, st := range FieldStores(poa, age) {
		nAge++
		vt := otm.Of(st.Val)
		g1 := false
		for _, g := range Guards(st.Block()) {
			if boolFieldCondTerm(otm, g, "recv.Species[*].IsNovel", false) {
				g1 = true
			}
		}
		if vt.Op == "bin" && vt.Name == "+" && vt.Args[1].String() == "1" && vt.Args[0].String() == "recv.Species[*].Age" && g1 && nonEmpty(st.Block()) {
			okAge = true
		}
	}
	for _, st := range FieldStores(poa, novel) {
		g1 := false
		for _, g := range Guards(st.Block()) {
			if boolFieldCondTerm(otm, g, "recv.Species[*].IsNovel", true) {
				g1 = true
			}
		}
		if IsConstBool(st.Val, false) && g1 {
			okNovel = true
		}
	}
	r.Check(okAge && okNovel && nAge == 1, "purgeOrAgeSpecies.ageing", p.Pos(poa.Pos()), "surviving species age by one; a species founded in this turnover only loses its novel mark", fmt.Sprintf("ageing: Age+1 exactly for non-novel surviving species=%v (stores to Age: %d), novel mark cleared instead=%v", okAge, nAge, okNovel))
	// nobody else ages species during an epoch
	var others []string
	pinned := PinnedFuncs()
	for _, f := range p.SrcFuncs() {
		if f == poa {
			continue
		}
		// the declaration of a new unexported helper that nothing refers to any more (every call of it was expanded
		// in place by the normaliser) is never executed: its stores are examined in the functions they were expanded
		// into - in purgeOrAgeSpecies by the ageing obligation above, anywhere else by this one
		if p.expandedAway(f, pinned) {
			continue
		}
		for _, st := range FieldStores(f, age) {
			if f.Name() == "newSpecies" || f.Name() == "NewSpecies" || f.Name() == "NewSpeciesNovel" {
				continue
			}
			others = append(others, FuncName(f)+" at "+p.Pos(st.Pos()))
		}
	}
	r.Check(len(others) == 0, "age.writers", "-", "Age is written only at creation and by purgeOrAgeSpecies", "Species.Age is also written by "+strings.Join(others, "; "))
}

func boolFieldCondTerm(tm *Termer, g Guard, term string, want bool) bool {
	cond := g.Cond
	out := g.True
	for {
		if u, ok := cond.(*ssa.UnOp); ok && u.Op == token.NOT {
			cond = u.X
			out = !out
			continue
		}
		break
	}
	return out == want && tm.Of(cond).String() == term
}

// C02 — an epoch conserves population size and keeps species a partition.
func C02(p *Prog, r *Run) {
	r.Explanation = "Decided: (1) pipeline order of both executors by dominance (adjust fitness of every species, quotas and zero-quota purge, delta coding or stolen babies, purge of eliminated organisms, reproduction of every species, progeny-size check on the very list that is speciated, purge of the old generation, purge/ageing of species); (2) Species.reproduce delivers exactly one new organism per quota unit: counter 0,1,.. below ExpectedOffspring, the quota is not written meanwhile, the append of one NewOrganism result dominates every back edge, the loop ends only by exhaustion or an error; (3) conservation of the quotas, symbolically and per path: every path of the two redistribution loops of giveBabiesToTheBest changes quotas and pool by amounts that sum to zero (integer-linear expressions with versioned field loads), the remainder goes to the first species; delta coding assigns quotas that total PopSize and zeroes every other species; fraction carry, make-up offspring and the collapsed-average fallback have their documented shape; (4) partition: each speciated organism joins exactly one species with a matching back pointer or founds one with a fresh id; removal keeps the others in order; the old generation is removed from its species and from the master list, which is rebuilt from the non-empty species with genome ids 0,1,2,..; (5) ageing: Age+1 exactly for surviving non-novel species, novel species only lose their mark, nobody else writes Age; (6) every path through the quota computation ends with quotas that were tested to total at least the population size - the quantity tested includes every offspring added after the count - or went through the all-to-one redistribution (symbolic total along enumerated paths); (7) the parallel executor's result messages own their encoded offspring (C16.4's hand-over rule), so the collector decodes what the species produced. Not decided: that the floating-point quotas total the population size before the fix-up (numeric), so 'succeeds without error' is not decided as a whole."
	r.Rule("C02.1", "pipeline order of an epoch, both executors", func() { r.epochPipeline(true) })
	r.Rule("C02.2", "a species delivers exactly one new organism per unit of its quota", func() { r.babiesPerQuota() })
	r.Rule("C02.3", "quota redistribution conserves the total", func() { r.conservation() })
	r.Rule("C02.4", "partition, membership bookkeeping and ageing", func() { r.partitionAndAgeing() })
	r.Rule("C02.7", "new organisms carry genomes made in this call; the reproduction step fails only on a callee's error or a wrong progeny count", func() {
		r.c02NewGenomes()
		r.c02ErrorExits()
	})
	r.Rule("C02.6", "the best-species-reproduced flag consulted by the end-of-epoch check is set under `species id == bestSpeciesId` (or keeps a previous true); results of other species never reset it", func() { r.c02BestFlag() })
	r.Rule("C02.8", "parallel executor: the encoded offspring a species goroutine hands to the collector are owned by the message - they do not alias storage that is given back or reused (a pooled or package-level buffer) before the collector, which runs after all goroutines have ended, has decoded them; otherwise a later goroutine overwrites the payload, decoding fails and the epoch returns an error instead of PopSize new organisms (the ownership rule is shared with C16.4)", func() {
		r.c02ResultOwned()
	})
	r.Rule("C02.5", "marking for elimination stays inside the organism list for every survival threshold (shared with C09.2): the marking loop is bounded by the length of the list", func() {
		r.c09AdjustFitness(true)
	})
}
