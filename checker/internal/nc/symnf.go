package nc

import (
	"fmt"
	"go/ast"
	"go/constant"
	"go/parser"
	"go/token"
	"go/types"
	"math"
	"sort"
	"strconv"
	"strings"
)

// Engine I — algebraic normal form of small float expressions.
//
// An expression over one input, float constants, + - * /, unary minus,
// math.Pow(e, small integer) and the elementary functions Exp, Tanh, Sin, Abs
// is brought to a quotient of two polynomials whose indeterminates are the
// input "x" and the applications f(<normal form>). Two expressions with the
// same normal form denote the same real function; the comparison is purely
// syntactic after normalisation (no evaluation of the repository's code).

type nfPoly map[string]float64 // monomial (atoms joined by "*", sorted; "" = 1) -> coefficient

type nfFrac struct{ num, den nfPoly }

func nfConst(c float64) nfFrac { return nfFrac{nfPoly{"": c}, nfPoly{"": 1}} }
func nfAtom(a string) nfFrac   { return nfFrac{nfPoly{a: 1}, nfPoly{"": 1}} }

func polyAdd(a, b nfPoly, sign float64) nfPoly {
	out := nfPoly{}
	for k, v := range a {
		out[k] += v
	}
	for k, v := range b {
		out[k] += sign * v
	}
	for k, v := range out {
		if v == 0 {
			delete(out, k)
		}
	}
	return out
}

func monoMul(a, b string) string {
	var parts []string
	if a != "" {
		parts = append(parts, strings.Split(a, "*")...)
	}
	if b != "" {
		parts = append(parts, strings.Split(b, "*")...)
	}
	sort.Strings(parts)
	return strings.Join(parts, "*")
}

func polyMul(a, b nfPoly) nfPoly {
	out := nfPoly{}
	for ka, va := range a {
		for kb, vb := range b {
			out[monoMul(ka, kb)] += va * vb
		}
	}
	for k, v := range out {
		if v == 0 {
			delete(out, k)
		}
	}
	return out
}

func (p nfPoly) isConst() (float64, bool) {
	if len(p) == 0 {
		return 0, true
	}
	if len(p) == 1 {
		if c, ok := p[""]; ok {
			return c, true
		}
	}
	return 0, false
}

func (p nfPoly) scale(c float64) nfPoly {
	out := nfPoly{}
	for k, v := range p {
		out[k] = v * c
	}
	return out
}

func (p nfPoly) keys() []string {
	var ks []string
	for k := range p {
		ks = append(ks, k)
	}
	sort.Strings(ks)
	return ks
}

func (p nfPoly) String() string {
	if len(p) == 0 {
		return "0"
	}
	var parts []string
	for _, k := range p.keys() {
		c := strconv.FormatFloat(p[k], 'g', 10, 64)
		if k == "" {
			parts = append(parts, c)
		} else {
			parts = append(parts, c+"*"+k)
		}
	}
	return strings.Join(parts, " + ")
}

// normalise divides numerator and denominator by the denominator's coefficient
// of its first monomial (the constant term when there is one).
func (f nfFrac) normalise() nfFrac {
	ks := f.den.keys()
	if len(ks) == 0 {
		return f
	}
	c := f.den[ks[0]]
	if c == 0 || c == 1 {
		return f
	}
	return nfFrac{f.num.scale(1 / c), f.den.scale(1 / c)}
}

func (f nfFrac) String() string {
	g := f.normalise()
	if c, ok := g.den.isConst(); ok && c == 1 {
		return g.num.String()
	}
	return "(" + g.num.String() + ")/(" + g.den.String() + ")"
}

func nfAdd(a, b nfFrac, sign float64) nfFrac {
	if a.den.String() == b.den.String() {
		return nfFrac{polyAdd(a.num, b.num, sign), a.den}
	}
	return nfFrac{polyAdd(polyMul(a.num, b.den), polyMul(b.num, a.den), sign), polyMul(a.den, b.den)}
}
func nfMul(a, b nfFrac) nfFrac { return nfFrac{polyMul(a.num, b.num), polyMul(a.den, b.den)} }
func nfDiv(a, b nfFrac) (nfFrac, error) {
	if c, ok := b.num.isConst(); ok && c == 0 {
		return nfFrac{}, fmt.Errorf("division by zero")
	}
	return nfFrac{polyMul(a.num, b.den), polyMul(a.den, b.num)}, nil
}

// nfEqual compares two normal forms coefficient-wise with a relative tolerance.
func nfEqual(a, b nfFrac) bool {
	a, b = a.normalise(), b.normalise()
	eq := func(p, q nfPoly) bool {
		if len(p) != len(q) {
			return false
		}
		for k, v := range p {
			w, ok := q[k]
			if !ok {
				return false
			}
			if math.Abs(v-w) > 1e-9*math.Max(1, math.Max(math.Abs(v), math.Abs(w))) {
				return false
			}
		}
		return true
	}
	return eq(a.num, b.num) && eq(a.den, b.den)
}

// nfBuilder turns an AST expression into a normal form.
type nfBuilder struct {
	info  *types.Info  // nil for reference formulas
	input types.Object // the closure's input parameter (info != nil)
	env   aenv         // what the closure's locals are bound to where the expression is evaluated (absint.go)
	decls helperDecls  // declared functions of the package: calls of pure straight-line helpers are unfolded (robust_c18.go)
	depth int
}

var nfFuncs = map[string]string{"Exp": "exp", "Tanh": "tanh", "Sin": "sin", "Abs": "abs"}

func (nb *nfBuilder) mathFunc(e ast.Expr) string {
	sel, ok := e.(*ast.SelectorExpr)
	if !ok {
		return ""
	}
	id, ok := sel.X.(*ast.Ident)
	if !ok {
		return ""
	}
	if nb.info != nil {
		pn, ok := nb.info.Uses[id].(*types.PkgName)
		if !ok || pn.Imported().Path() != "math" {
			return ""
		}
	} else if id.Name != "math" {
		return ""
	}
	return sel.Sel.Name
}

func (nb *nfBuilder) build(e ast.Expr) (nfFrac, error) {
	nb.depth++
	defer func() { nb.depth-- }()
	if nb.depth > 60 {
		return nfFrac{}, fmt.Errorf("expression too deep")
	}
	if nb.info != nil {
		if tv, ok := nb.info.Types[e]; ok && tv.Value != nil {
			if f, ok := constant.Float64Val(constant.ToFloat(tv.Value)); ok || tv.Value.Kind() != constant.Unknown {
				return nfConst(f), nil
			}
		}
	}
	switch x := e.(type) {
	case *ast.ParenExpr:
		return nb.build(x.X)
	case *ast.BasicLit:
		f, err := strconv.ParseFloat(x.Value, 64)
		if err != nil {
			return nfFrac{}, fmt.Errorf("literal %s", x.Value)
		}
		return nfConst(f), nil
	case *ast.Ident:
		if nb.info == nil {
			if x.Name == "x" {
				return nfAtom("x"), nil
			}
			return nfFrac{}, fmt.Errorf("identifier %s in a reference formula", x.Name)
		}
		obj := nb.info.Uses[x]
		if obj == nb.input {
			return nfAtom("x"), nil
		}
		if l, ok := nb.env[obj]; ok {
			if l.konst != nil {
				return nfConst(*l.konst), nil
			}
			// the bound expression is normalised under the bindings that were in force at its assignment
			return (&nfBuilder{info: nb.info, input: nb.input, env: l.env, decls: nb.decls, depth: nb.depth}).build(l.expr)
		}
		return nfFrac{}, fmt.Errorf("identifier %s is neither the input nor a constant local", x.Name)
	case *ast.UnaryExpr:
		v, err := nb.build(x.X)
		if err != nil {
			return v, err
		}
		switch x.Op {
		case token.SUB:
			return nfFrac{v.num.scale(-1), v.den}, nil
		case token.ADD:
			return v, nil
		}
		return nfFrac{}, fmt.Errorf("unary %s", x.Op)
	case *ast.BinaryExpr:
		if nb.info != nil {
			if tv, ok := nb.info.Types[x]; ok && tv.Type != nil && !isFloatType(tv.Type) {
				return nfFrac{}, fmt.Errorf("non-constant arithmetic of type %s", tv.Type)
			}
		}
		a, err := nb.build(x.X)
		if err != nil {
			return a, err
		}
		b, err := nb.build(x.Y)
		if err != nil {
			return b, err
		}
		switch x.Op {
		case token.ADD:
			return nfAdd(a, b, 1), nil
		case token.SUB:
			return nfAdd(a, b, -1), nil
		case token.MUL:
			return nfMul(a, b), nil
		case token.QUO:
			return nfDiv(a, b)
		}
		return nfFrac{}, fmt.Errorf("operator %s", x.Op)
	case *ast.CallExpr:
		name := nb.mathFunc(x.Fun)
		if name == "Pow" && len(x.Args) == 2 {
			base, err := nb.build(x.Args[0])
			if err != nil {
				return base, err
			}
			ex, err := nb.build(x.Args[1])
			if err != nil {
				return ex, err
			}
			c, ok := ex.num.isConst()
			if d, okd := ex.den.isConst(); !ok || !okd || d != 1 || c != math.Trunc(c) || c < 0 || c > 6 {
				return nfFrac{}, fmt.Errorf("math.Pow with an exponent that is not a small natural number")
			}
			out := nfConst(1)
			for i := 0; i < int(c); i++ {
				out = nfMul(out, base)
			}
			return out, nil
		}
		if f, ok := nfFuncs[name]; ok && len(x.Args) == 1 {
			arg, err := nb.build(x.Args[0])
			if err != nil {
				return arg, err
			}
			// canonical sign of the argument: exp(-a) = 1/exp(a), tanh(-a) = -tanh(a), sin(-a) = -sin(a), abs(-a) = abs(a)
			arg = arg.normalise()
			neg := false
			for _, k := range arg.num.keys() {
				if k != "" {
					neg = arg.num[k] < 0
					break
				}
			}
			if neg {
				arg = nfFrac{arg.num.scale(-1), arg.den}
			}
			at := nfAtom(f + "(" + arg.String() + ")")
			if neg {
				switch f {
				case "exp":
					return nfDiv(nfConst(1), at)
				case "tanh", "sin":
					return nfFrac{at.num.scale(-1), at.den}, nil
				}
			}
			return at, nil
		}
		if nb.info != nil {
			if rx, renv, ok := pureHelperCall(nb.info, nb.decls, x, nb.env); ok {
				for _, arg := range x.Args {
					if a, err := nb.build(arg); err != nil {
						return a, err
					}
				}
				return (&nfBuilder{info: nb.info, input: nb.input, env: renv, decls: nb.decls, depth: nb.depth}).build(rx)
			}
		}
		return nfFrac{}, fmt.Errorf("call %s is outside the normal-form table", types.ExprString(x.Fun))
	}
	return nfFrac{}, fmt.Errorf("expression %T is outside the normal-form table", e)
}

// nfOfReference parses a reference formula over x (Go expression syntax, math.* functions).
func nfOfReference(src string) (nfFrac, error) {
	e, err := parser.ParseExpr(src)
	if err != nil {
		return nfFrac{}, err
	}
	return (&nfBuilder{}).build(e)
}
