package nc

import (
	"fmt"
	"go/token"
	"go/types"

	"golang.org/x/tools/go/ssa"
)

func init() { register("C14", C14) }

// foldsAsMax reports how the value v (e.g. the depth returned by a recursive
// call) is folded into a running extremum: it finds `if v > acc { acc = v }`
// in SSA form (a compare of v against a phi that receives v on the true side).
func foldsAsMax(v ssa.Value) (op token.Token, acc *ssa.Phi, ok bool) {
	for _, ref := range *v.Referrers() {
		b, isBin := ref.(*ssa.BinOp)
		if !isBin {
			continue
		}
		var phi *ssa.Phi
		dir := b.Op
		if b.X == v {
			phi, _ = b.Y.(*ssa.Phi)
		} else if b.Y == v {
			phi, _ = b.X.(*ssa.Phi)
			switch b.Op { // normalise to "v OP acc"
			case token.LSS:
				dir = token.GTR
			case token.GTR:
				dir = token.LSS
			case token.LEQ:
				dir = token.GEQ
			case token.GEQ:
				dir = token.LEQ
			}
		}
		if phi == nil {
			continue
		}
		// the If on this compare, and a phi (acc itself or a successor phi) that takes v from the true side
		for _, r2 := range *b.Referrers() {
			iff, isIf := r2.(*ssa.If)
			if !isIf {
				continue
			}
			tBlk := iff.Block().Succs[0]
			takes := func(ph *ssa.Phi) bool {
				for i, e := range ph.Edges {
					if e == v {
						pred := ph.Block().Preds[i]
						if pred == tBlk || tBlk.Dominates(pred) || (pred == iff.Block() && ph.Block() == tBlk) {
							return true
						}
					}
				}
				return false
			}
			if takes(phi) {
				return dir, phi, true
			}
			// acc may be carried by another phi that merges v and the old acc
			for _, r3 := range *v.Referrers() {
				if ph, isPhi := r3.(*ssa.Phi); isPhi && takes(ph) {
					return dir, phi, true
				}
			}
		}
	}
	return 0, nil, false
}

// C14 — activation depth.
func C14(p *Prog, r *Run) {
	r.Explanation = "Decided on NNode.Depth and Network.MaxActivationDepthWithCap: (1) no return is reachable from `visited = true` without `visited = false` on the same node (flag-sensitive path search over the SSA CFG, every path, including the error-propagation return); (2) every recursive call is guarded by `!in.visited` of the node it recurses into and dominated by the receiver's mark (termination on cyclic graphs); (3) the depth-exceeded error originates only under `cap > 0 && d > cap` (strict) and returns the cap, errors from the recursion are propagated unchanged; (4) sensors return d, the recursion passes d+1 and the same cap, results are folded with a strict `>` maximum, over the incoming links and over the outputs starting from depth 0, and the shortcut 1 is returned only when there are no hidden nodes. Not decided: the numeric equality with the longest path on every DAG (follows from 2-4 by induction, which the checker does not perform)."
	depth := p.Func(PkgN, "NNode.Depth")
	visited := p.Field(PkgN, "NNode", "visited")
	r.Fn(FuncName(depth))
	tm := NewTermer(depth)

	r.Rule("C14.1", "mark/unmark pairing: no Return is reachable from a store visited=true without passing a store visited=false on the same node", func() {
		n := 0
		for _, st := range FieldStores(depth, visited) {
			if !IsConstBool(st.Val, true) {
				continue
			}
			n++
			base := st.Addr.(*ssa.FieldAddr).X
			release := func(in ssa.Instruction) bool {
				s2, ok := in.(*ssa.Store)
				if !ok {
					return false
				}
				fa, ok := s2.Addr.(*ssa.FieldAddr)
				return ok && fieldOf(fa.X.Type(), fa.Field) == visited && fa.X == base && IsConstBool(s2.Val, false)
			}
			path := FindPath(p, PathQuery{Fn: depth, StartAfter: st, Target: IsReturn, Avoid: release, Explored: &r.PathsExplored})
			if path != nil {
				r.Bad("Depth.visited", p.Pos(st.Pos()), "a return is reachable after `visited = true` without clearing the mark: a capped or failed query leaves traversal marks behind and a later query is truncated", path...)
			} else {
				r.OK("Depth.visited", p.Pos(st.Pos()), "every path from the mark to a return clears it")
			}
		}
		r.Floor("visited=true stores in Depth", n, 1)
		// also: nothing else in the depth API leaves a mark (printDepthPaths is a sibling with the same protocol)
		if pd := p.FuncOpt(PkgN, "NNode.printDepthPaths"); pd != nil {
			r.Note("sibling NNode.printDepthPaths uses the same mark protocol; it is outside the statement and is not checked here")
		}
	})

	r.Rule("C14.2", "termination: each recursive call is control-dependent on !visited of the node it recurses into, and the receiver's own mark dominates the call", func() {
		calls := CallsTo(depth, depth)
		for _, c := range calls {
			r.CallSites++
			recvT := tm.Of(c.Common().Args[0])
			want := recvT.String() + ".visited"
			guarded := false
			for _, g := range Guards(c.Block()) {
				if gt := tm.Of(g.Cond); gt.String() == want && !g.True {
					guarded = true
				}
				if gt := tm.Of(g.Cond); gt.Op == "un" && gt.Name == "!" && gt.Args[0].String() == want && g.True {
					guarded = true
				}
			}
			r.Check(guarded, "Depth.recursion.guard", p.Pos(c.Pos()), "the recursion into "+recvT.String()+" is guarded by !"+want,
				"the recursive call into "+recvT.String()+" is not guarded by its visited mark: the search does not terminate on cyclic networks")
			marked := false
			for _, st := range FieldStores(depth, visited) {
				if IsConstBool(st.Val, true) && tm.Of(st.Addr.(*ssa.FieldAddr).X).Op == "recv" &&
					(st.Block() == c.Block() && instrIndex(st) < instrIndex(c) || st.Block().Dominates(c.Block()) && st.Block() != c.Block()) {
					marked = true
				}
			}
			r.Check(marked, "Depth.recursion.mark", p.Pos(c.Pos()), "the receiver is marked visited before recursing", "the receiver is not marked visited before the recursive call: a cycle through it is not detected")
			// arguments: d+1 and the same cap
			d, cp := tm.Of(c.Common().Args[1]), tm.Of(c.Common().Args[2])
			okD := d.Op == "bin" && d.Name == "+" && ((isParamIdx(d.Args[0], 1) && d.Args[1].String() == "1") || (isParamIdx(d.Args[1], 1) && d.Args[0].String() == "1"))
			r.Check(okD, "Depth.recursion.d+1", p.Pos(c.Pos()), "the recursion passes d+1", "the recursion passes "+d.String()+" as depth, expected d+1")
			r.Check(isParamIdx(cp, 2), "Depth.recursion.cap", p.Pos(c.Pos()), "the recursion passes the cap on unchanged", "the recursion passes "+cp.String()+" as cap")
			// fold: strict maximum
			var ex ssa.Value
			for _, ref := range *c.Value().Referrers() {
				if e, ok := ref.(*ssa.Extract); ok && e.Index == 0 {
					ex = e
				}
			}
			if ex == nil {
				r.Bad("Depth.fold", p.Pos(c.Pos()), "the depth returned by the recursion is not used")
			} else {
				op, _, ok := foldsAsMax(ex)
				r.Check(ok && (op == token.GTR || op == token.GEQ), "Depth.fold", p.Pos(c.Pos()), "the result is the maximum over the incoming links",
					fmt.Sprintf("the recursive depths are not folded as a maximum (fold found=%v op=%s)", ok, op))
			}
		}
		r.Floor("recursive Depth calls", len(calls), 1)
		// every incoming link is followed unless its source is marked: an iteration of the link loop that does not recurse
		// must have seen the source's visited mark set
		for _, c := range calls {
			l := scanLoopOf(Loops(depth), c.Block())
			if l == nil || !loopRangesOver(tm, l, "recv.Incoming") {
				r.Bad("Depth.links.loop", p.Pos(c.Pos()), "the recursion is not inside a loop over all incoming links of the node")
				continue
			}
			paths, complete := EnumIterPaths(depth, l, 500)
			if !complete {
				r.Undecided("Depth.links.paths", p.Pos(c.Pos()), "too many paths")
				continue
			}
			r.PathsExplored += len(paths)
			want := tm.Of(c.Common().Args[0]).String() + ".visited"
			okAll := true
			var wit []string
			for _, ip := range paths {
				if ip.End != "back" || ip.OnPath(c) {
					continue
				}
				seen := false
				for _, g := range ip.Conds {
					gt := tm.Of(g.Cond)
					if gt.String() == want && g.True {
						seen = true
					}
				}
				if !seen {
					okAll = false
					wit = ip.Describe(p)
				}
			}
			r.Check(okAll, "Depth.links.all-followed", p.Pos(c.Pos()), "a link is skipped only when its source node is marked visited", "an incoming link can be skipped although its source is not marked visited: paths through that link are not measured and the depth is under-reported", wit...)
		}
	})

	r.Rule("C14.3", "cap: ErrMaximalNetDepthExceeded originates only under cap>0 && d>cap (strict) and is returned together with the cap; recursion errors are propagated unchanged", func() {
		sentinel := p.SSAPk[PkgN].Members["ErrMaximalNetDepthExceeded"]
		if sentinel == nil {
			panic(anchorMissing{"network.ErrMaximalNetDepthExceeded"})
		}
		n := 0
		for _, b := range depth.Blocks {
			ret, ok := b.Instrs[len(b.Instrs)-1].(*ssa.Return)
			if !ok {
				continue
			}
			et := tm.Of(ret.Results[1])
			for _, a := range et.Alternatives() {
				switch {
				case a.Op == "global" && a.Obj == sentinel.Object():
					n++
					capPos, strict := false, false
					for _, g := range Guards(b) {
						gt := tm.Of(g.Cond)
						if gt.Op != "bin" || !g.True {
							continue
						}
						l, rr, op := gt.Args[0], gt.Args[1], gt.Name
						if op == "<" {
							l, rr, op = rr, l, ">"
						}
						if op == ">" && isParamIdx(l, 2) && rr.String() == "0" {
							capPos = true
						}
						if op == ">" && isParamIdx(l, 1) && isParamIdx(rr, 2) {
							strict = true
						}
					}
					r.Check(capPos && strict, "Depth.cap.guard", p.Pos(ret.Pos()), "the error is raised only under cap > 0 && d > cap",
						fmt.Sprintf("the depth-exceeded error is raised under a different condition (cap>0 seen: %v, strict d>cap seen: %v): a depth equal to the cap must not be an error and cap 0 means no cap", capPos, strict))
					r.Check(isParamIdx(tm.Of(ret.Results[0]), 2), "Depth.cap.value", p.Pos(ret.Pos()), "the cap is returned with the error", "the value returned with the depth-exceeded error is "+tm.Of(ret.Results[0]).String()+", expected the cap")
				case a.Op == "nil":
				case a.Op == "extract" && isCallTo(a.Args[0], depth):
					// propagated: value must be propagated from the same call
					v := tm.Of(ret.Results[0])
					r.Check(v.Op == "extract" && v.Args[0].V == a.Args[0].V, "Depth.cap.propagate", p.Pos(ret.Pos()), "recursion errors are propagated with their value", "a recursion error is returned with "+v.String())
				default:
					r.Bad("Depth.cap.origin", p.Pos(ret.Pos()), "Depth returns an error of unknown origin: "+a.String())
				}
			}
		}
		r.Floor("returns of the depth-exceeded sentinel", n, 1)
	})

	r.Rule("C14.4", "counting: sensors return d; MaxActivationDepthWithCap takes the strict maximum of Depth(0, cap) over the outputs, starting from 0, and returns 1 only when there are no hidden nodes", func() {
		// sensor return
		isSensor := p.Func(PkgN, "NNode.IsSensor")
		found := false
		for _, b := range depth.Blocks {
			ret, ok := b.Instrs[len(b.Instrs)-1].(*ssa.Return)
			if !ok {
				continue
			}
			for _, g := range Guards(b) {
				if gt := tm.Of(g.Cond); isCallTo(gt, isSensor) && g.True && gt.Args[0].Op == "recv" {
					found = true
					r.Check(isParamIdx(tm.Of(ret.Results[0]), 1) && tm.Of(ret.Results[1]).Op == "nil", "Depth.sensor", p.Pos(ret.Pos()), "a sensor returns (d, nil)", "a sensor returns "+tm.Of(ret.Results[0]).String())
				}
			}
		}
		r.Check(found, "Depth.sensor.branch", p.Pos(depth.Pos()), "the sensor base case exists", "Depth has no base case for sensors")
		// final return is the accumulator that starts at d
		for _, b := range depth.Blocks {
			ret, ok := b.Instrs[len(b.Instrs)-1].(*ssa.Return)
			if !ok {
				continue
			}
			if ph, ok := ret.Results[0].(*ssa.Phi); ok {
				startsAtD := false
				for _, e := range ph.Edges {
					if isParamIdx(tm.Of(e), 1) {
						startsAtD = true
					}
				}
				r.Check(startsAtD, "Depth.acc.init", p.Pos(ret.Pos()), "the running maximum starts at d", "the running maximum does not start at d")
			}
		}

		mx := p.Func(PkgN, "Network.MaxActivationDepthWithCap")
		r.Fn(FuncName(mx))
		tmx := NewTermer(mx)
		calls := CallsTo(mx, depth)
		for _, c := range calls {
			r.CallSites++
			a := callArgTerms(tmx, c.Common())
			okRecv := a[0].Op == "elem" && a[0].Args[0].Op == "field" && a[0].Args[0].Name == "Outputs" && a[0].Args[0].Args[0].Op == "recv"
			r.Check(okRecv, "MaxDepth.outputs", p.Pos(c.Pos()), "Depth is queried on every element of Outputs", "Depth is queried on "+a[0].String()+", expected the network's outputs")
			r.Check(a[1].String() == "0", "MaxDepth.d0", p.Pos(c.Pos()), "outputs start at depth 0", "outputs start at depth "+a[1].String())
			r.Check(isParamIdx(a[2], 1), "MaxDepth.cap", p.Pos(c.Pos()), "the cap parameter is passed on", "cap argument is "+a[2].String())
			var ex ssa.Value
			for _, ref := range *c.Value().Referrers() {
				if e, ok := ref.(*ssa.Extract); ok && e.Index == 0 {
					ex = e
				}
			}
			if ex != nil {
				op, acc, ok := foldsAsMax(ex)
				r.Check(ok && (op == token.GTR || op == token.GEQ), "MaxDepth.fold", p.Pos(c.Pos()), "maximum over the outputs", fmt.Sprintf("depths of the outputs are not folded as a maximum (found=%v op=%s)", ok, op))
				if ok {
					init := false
					for _, e := range acc.Edges {
						if tmx.Of(e).String() == "0" {
							init = true
						}
					}
					r.Check(init, "MaxDepth.init", p.Pos(c.Pos()), "the maximum starts at 0", "the maximum over outputs does not start at 0")
				}
			} else {
				r.Bad("MaxDepth.fold", p.Pos(c.Pos()), "the depth of an output is ignored")
			}
		}
		r.Floor("Depth calls in MaxActivationDepthWithCap", len(calls), 1)
		// every value the function returns is the shortcut 1, the running maximum, or what a failed Depth call returned
		for _, b := range mx.Blocks {
			ret, ok := b.Instrs[len(b.Instrs)-1].(*ssa.Return)
			if !ok {
				continue
			}
			et := tmx.Of(ret.Results[1])
			for _, a := range tmx.Of(ret.Results[0]).Alternatives() {
				okV := false
				switch {
				case a.Op == "const" && a.Name == "1":
					okV = true
				case a.Op == "const" && et.Op != "nil":
					okV = true // a constant returned together with an error (unsupported network)
				case a.Op == "const" && a.Name == "0":
					okV = true // the initial value of the running maximum
				case a.Op == "extract" && isCallTo(a.Args[0], depth):
					okV = true
				case a.Op == "loop":
					okV = true
				}
				if !okV {
					r.Bad("MaxDepth.result-origin", p.Pos(ret.Pos()), "MaxActivationDepthWithCap can return "+a.String()+", which is neither the shortcut, the running maximum over the outputs nor the result of a Depth query of this call (a stored value ignores the cap and the current topology)")
				}
			}
		}
		// shortcut
		nShort := 0
		for _, b := range mx.Blocks {
			ret, ok := b.Instrs[len(b.Instrs)-1].(*ssa.Return)
			if !ok || tmx.Of(ret.Results[0]).String() != "1" {
				continue
			}
			nShort++
			okG := false
			for _, g := range Guards(b) {
				gt := tmx.Of(g.Cond)
				if gt.Op == "bin" && gt.Name == "==" && g.True {
					s := gt.String()
					if containsAll(s, "len(recv.allNodes)", "len(recv.inputs)", "len(recv.Outputs)") {
						okG = true
					}
				}
			}
			r.Check(okG, "MaxDepth.shortcut", p.Pos(ret.Pos()), "depth 1 is returned only when all nodes are inputs or outputs", "the shortcut `return 1` is not guarded by len(allNodes) == len(inputs)+len(Outputs)")
		}
		_ = types.Typ
	})
}

func containsAll(s string, subs ...string) bool {
	for _, x := range subs {
		if !contains(s, x) {
			return false
		}
	}
	return true
}

func contains(s, sub string) bool {
	return len(sub) == 0 || (len(s) >= len(sub) && indexOf(s, sub) >= 0)
}

func indexOf(s, sub string) int {
	for i := 0; i+len(sub) <= len(s); i++ {
		if s[i:i+len(sub)] == sub {
			return i
		}
	}
	return -1
}
