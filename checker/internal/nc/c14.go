package nc

import (
	"fmt"
	"go/constant"
	"go/token"
	"go/types"

	"golang.org/x/tools/go/ssa"
)

func init() { register("C14", C14) }

// foldsAsMax reports how the value v (e.g. the depth returned by a recursive
// call) is folded into a running extremum: it finds a compare of v against a
// phi `acc` and a phi that receives v on exactly one side of the branch on that
// compare; op is the comparison "v op acc" under which v is taken (so both
// `if v > acc { acc = v }` and `if v <= acc { continue }; acc = v` give >).
func foldsAsMax(v ssa.Value) (op token.Token, acc *ssa.Phi, ok bool) {
	negate := map[token.Token]token.Token{token.LSS: token.GEQ, token.GEQ: token.LSS, token.GTR: token.LEQ, token.LEQ: token.GTR}
	for _, ref := range *v.Referrers() {
		b, isBin := ref.(*ssa.BinOp)
		if !isBin {
			continue
		}
		var phi *ssa.Phi
		dir := b.Op
		if b.X == v {
			phi, _ = b.Y.(*ssa.Phi)
		} else if b.Y == v {
			phi, _ = b.X.(*ssa.Phi)
			switch b.Op { // normalise to "v OP acc"
			case token.LSS:
				dir = token.GTR
			case token.GTR:
				dir = token.LSS
			case token.LEQ:
				dir = token.GEQ
			case token.GEQ:
				dir = token.LEQ
			}
		}
		if phi == nil {
			continue
		}
		if _, isOrd := negate[dir]; !isOrd {
			continue
		}
		// the If on this compare, and a phi (acc itself or a successor phi) that takes v from one side only
		for _, r2 := range *b.Referrers() {
			iff, isIf := r2.(*ssa.If)
			if !isIf || iff.Block().Succs[0] == iff.Block().Succs[1] {
				continue
			}
			takes := func(ph *ssa.Phi, side *ssa.BasicBlock) bool {
				for i, e := range ph.Edges {
					if e == v {
						pred := ph.Block().Preds[i]
						if (pred == iff.Block() && ph.Block() == side) || (pred != iff.Block() && edgeDominates(iff.Block(), side, pred)) {
							return true
						}
					}
				}
				return false
			}
			phis := []*ssa.Phi{phi}
			// acc may be carried by another phi that merges v and the old acc
			for _, r3 := range *v.Referrers() {
				if ph, isPhi := r3.(*ssa.Phi); isPhi && ph != phi {
					phis = append(phis, ph)
				}
			}
			onTrue, onFalse := false, false
			for _, ph := range phis {
				onTrue = onTrue || takes(ph, iff.Block().Succs[0])
				onFalse = onFalse || takes(ph, iff.Block().Succs[1])
			}
			switch {
			case onTrue && !onFalse:
				return dir, phi, true
			case onFalse && !onTrue:
				return negate[dir], phi, true
			}
		}
	}
	return 0, nil, false
}

// c14EarlyLeave checks one loop that must visit every element (the incoming
// links of a node, the outputs of a network): an iteration may end the loop
// before the elements are exhausted only after the depth query `c` of that
// iteration reported an error. Returns a witness iteration path, or nil.
func c14EarlyLeave(p *Prog, l *Loop, paths []*IterPath, c ssa.CallInstruction) []string {
	var errV ssa.Value
	for _, ref := range *c.Value().Referrers() {
		if e, ok := ref.(*ssa.Extract); ok && e.Index == 1 {
			errV = e
		}
	}
	for _, ip := range paths {
		if ip.End == "back" {
			continue
		}
		if len(ip.Blocks) == 2 && ip.Blocks[0] == l.Header {
			continue // the header's own exit: the elements are exhausted
		}
		if errV != nil && ip.OnPath(c) && c14NonNil(errV, ip.Conds) {
			continue
		}
		return ip.Describe(p)
	}
	return nil
}

// c14DroppedError looks for a path on which a depth query was seen to fail
// (its error tested non-nil) while the function returns something else than
// that error. isQueryErr tells whether a value is the error result of a depth
// query.
func c14DroppedError(cases []*c14RetCase, errIdx int, isQueryErr func(ssa.Value) bool) (*c14RetCase, ssa.Value) {
	for _, rc := range cases {
		if errIdx >= len(rc.Vals) {
			continue
		}
		for j, pa := range rc.Paths {
			var dropped ssa.Value
			pa.EachCond(func(c ssa.Value, o bool, cpos int) {
				b, ok := c.(*ssa.BinOp)
				if !ok || (b.Op != token.EQL && b.Op != token.NEQ) || (b.Op == token.NEQ) != o {
					return
				}
				for _, pr := range [][2]ssa.Value{{b.X, b.Y}, {b.Y, b.X}} {
					k, isC := pr[1].(*ssa.Const)
					x := c14Canon(pr[0])
					if !isC || k.Value != nil || !isQueryErr(x) {
						continue
					}
					if rc.Vals[errIdx] != x || !pa.sameInstance(x, cpos, rc.Pos[j][errIdx]) {
						dropped = x
					}
				}
			})
			if dropped != nil {
				return rc, dropped
			}
		}
	}
	return nil, nil
}

// C14 — activation depth.
func C14(p *Prog, r *Run) {
	r.Explanation = "Decided on NNode.Depth and Network.MaxActivationDepthWithCap: (1) no return is reachable from `visited = true` without `visited = false` on the same node - by an explicit store or by a deferred call that was certainly registered and clears the mark on each of its paths (flag-sensitive path search over the SSA CFG, every path, including the error-propagation return); the same for the successful returns of every other function of the package that sets the mark; (2) every recursive call is guarded by `!in.visited` of the node it recurses into and dominated by the receiver's mark (termination on cyclic graphs), every iteration over the incoming links recurses unless the source is marked, and the loop is left early only after a recursion error; (3) the depth-exceeded error originates only under `cap > 0 && d > cap` (strict) and returns the cap, errors from the recursion are propagated unchanged (decided per return alternative: value and error that belong together, also when returns are merged or results live in cells); (4) under every case in which IsSensor holds, Depth returns (d, nil) (or the cap error) without recursing; the recursion passes d+1 and the same cap, results are folded with a strict `>` maximum that starts at d, over the incoming links and over all outputs starting from depth 0, and the shortcut 1 is returned only when len(allNodes) == len(inputs)+len(Outputs) (linear form); (5) the algorithm for modular networks is called, and MaxActivationDepthWithCap refuses a network, only under a branch outcome that states len(controlNodes) >= 1 (any spelling; nil-ness of the list is not such a fact), and MaxActivationDepth otherwise returns both results of MaxActivationDepthWithCap with a cap <= 0. Not decided: the numeric equality with the longest path on every DAG (follows from 2-4 by induction, which the checker does not perform)."
	depth := p.Func(PkgN, "NNode.Depth")
	visited := p.Field(PkgN, "NNode", "visited")
	sentinelG, _ := p.SSAPk[PkgN].Members["ErrMaximalNetDepthExceeded"].(*ssa.Global)
	isSentinel := func(v ssa.Value) bool {
		u, ok := v.(*ssa.UnOp)
		return ok && sentinelG != nil && u.Op == token.MUL && u.X == ssa.Value(sentinelG)
	}
	// the depth functions: NNode.Depth and the new workers it was split into (robust_c14.go); every obligation on
	// Depth is an obligation on each of them, and a call of any of them is a depth query
	type member struct {
		fn    *ssa.Function
		tm    *Termer
		pfx   string // prefix of the obligation ids
		node  string // how the termer renders the node the query starts from
		cases func() []*c14RetCase
	}
	inFamily := map[*ssa.Function]bool{}
	var family []*member
	famFns := c14DepthFamily(depth)
	for _, fn := range famFns {
		inFamily[fn] = true
	}
	for _, fn := range famFns {
		fn := fn
		if fn != depth {
			// fn is g when it only forwards to g and the chain of forwarders ends in a member that does the work
			g := fn
			for k := 0; k <= len(famFns) && g != nil && inFamily[g]; k++ {
				h := c14Forwards(g)
				if h == nil {
					break
				}
				g = h
			}
			if g != fn && g != nil && inFamily[g] && c14Forwards(g) == nil {
				continue // nothing of its own to examine
			}
		}
		m := &member{fn: fn, tm: NewTermer(fn), pfx: fn.Name()}
		if fn == depth {
			m.pfx = "Depth"
		}
		m.node = m.tm.Of(fn.Params[0]).String()
		var cs []*c14RetCase
		done := false
		m.cases = func() []*c14RetCase {
			// what the function returns, path by path (value and error that are returned together)
			if !done {
				var complete bool
				cs, complete = c14ReturnCases(fn, 4000)
				if !complete {
					Bail(m.pfx+".returns.paths", p.Pos(fn.Pos()), "too many paths through "+fn.Name())
				}
				done = true
				for _, c := range cs {
					r.PathsExplored += len(c.Paths)
				}
			}
			return cs
		}
		family = append(family, m)
		r.Fn(FuncName(fn))
	}
	// Depth itself may be a mere forwarder to a worker that could not be expanded in place: then the worker carries
	// all obligations and Depth none
	if g := c14Forwards(depth); g != nil && inFamily[g] && g != depth && len(family) > 1 {
		r.OK("Depth.forward", p.Pos(depth.Pos()), "Depth hands its node, depth and cap unchanged to "+g.Name()+" and returns its results")
		family = family[1:]
	}
	// depthResult: v is result #idx of a depth query - returns that call
	depthResult := func(v ssa.Value, idx int) *ssa.Call {
		x, ok := v.(*ssa.Extract)
		if !ok || x.Index != idx {
			return nil
		}
		c, ok := x.Tuple.(*ssa.Call)
		if !ok || !inFamily[c.Call.StaticCallee()] {
			return nil
		}
		return c
	}
	// queries: the depth queries made by fn
	queries := func(fn *ssa.Function) []ssa.CallInstruction {
		var out []ssa.CallInstruction
		Instrs(fn, func(_ *ssa.BasicBlock, _ int, in ssa.Instruction) {
			if c, ok := in.(ssa.CallInstruction); ok && inFamily[c.Common().StaticCallee()] && !c.Common().IsInvoke() {
				out = append(out, c)
			}
		})
		return out
	}

	// maxOverOutputs: the obligations on a function mx that computes the depth of a plain network as the maximum of
	// Depth(0, cap) over all outputs (MaxActivationDepthWithCap; MaxActivationDepth when the search is written out or
	// expanded in it). capOK judges the cap handed to the depth queries; given, when not nil, are the return
	// alternatives to examine (otherwise all of mx).
	relays := map[*ssa.MakeSlice]*c14Relay{}
	relayOf := func(fn *ssa.Function, ms *ssa.MakeSlice) *c14Relay {
		if rl, ok := relays[ms]; ok {
			return rl
		}
		rl := c14AnalyseRelay(fn, ms, &r.PathsExplored)
		relays[ms] = rl
		return rl
	}
	maxOverOutputs := func(mx *ssa.Function, pfx string, capOK func(v ssa.Value, t *Term) bool, capWhat string, given []*c14RetCase) {
		r.Fn(FuncName(mx))
		tmx := NewTermer(mx)
		TX := func(v ssa.Value) *Term { return c14T(tmx, v) }
		calls := queries(mx)
		for _, c := range calls {
			r.CallSites++
			var a []*Term
			for _, v := range c.Common().Args {
				a = append(a, TX(v))
			}
			okRecv := a[0].Op == "elem" && a[0].Args[0].Op == "field" && a[0].Args[0].Name == "Outputs" && a[0].Args[0].Args[0].Op == "recv"
			r.Check(okRecv, pfx+".outputs", p.Pos(c.Pos()), "Depth is queried on every element of Outputs", "Depth is queried on "+a[0].String()+", expected the network's outputs")
			r.Check(a[1].String() == "0", pfx+".d0", p.Pos(c.Pos()), "outputs start at depth 0", "outputs start at depth "+a[1].String())
			r.Check(capOK(c.Common().Args[2], a[2]), pfx+".cap", p.Pos(c.Pos()), capWhat, "cap argument is "+a[2].String())
			var ex ssa.Value
			for _, ref := range *c.Value().Referrers() {
				if e, ok := ref.(*ssa.Extract); ok && e.Index == 0 {
					ex = e
				}
			}
			examined := false
			for _, ref := range *c.Value().Referrers() {
				if e, ok := ref.(*ssa.Extract); ok && e.Index == 1 && len(*e.Referrers()) > 0 {
					examined = true
				}
			}
			r.Check(examined, pfx+".err", p.Pos(c.Pos()), "the error of the depth query is examined", "the error of the depth query of an output is ignored: a depth-exceeded result (the cap) is taken as the depth")
			if ex != nil {
				op, acc, ok := foldsAsMax(ex)
				if !ok {
					op, acc, ok = c14FoldOnPaths(mx, ex, &r.PathsExplored)
				}
				relayWhy := ""
				if !ok {
					// collect-then-fold: the depth is parked in the slot of this output in a local slice, and a later loop
					// that reads every slot folds what it finds there (robust_c14.go, c14Relay: the values read are exactly
					// the depths of the outputs queried, plus zeros - the value the maximum starts from)
					if ms := c14RelayStoredIn(ex); ms != nil {
						rl := relayOf(mx, ms)
						switch {
						case rl.Why != "":
							relayWhy = "; the depth is stored into a local slice that does not carry it to a fold: " + rl.Why
						case rl.Src != ex:
							relayWhy = "; the local slice the depth is stored into carries another value"
						case len(rl.Loads) != 1:
							relayWhy = "; the local slice the depth is stored into is read at more than one place"
						default:
							op, acc, ok = foldsAsMax(rl.Loads[0])
						}
					}
				}
				r.Check(ok && (op == token.GTR || op == token.GEQ), pfx+".fold", p.Pos(c.Pos()), "maximum over the outputs", fmt.Sprintf("depths of the outputs are not folded as a maximum (found=%v op=%s)%s", ok, op, relayWhy))
				if ok {
					init := false
					for _, e := range acc.Edges {
						if TX(e).String() == "0" {
							init = true
						}
					}
					r.Check(init, pfx+".init", p.Pos(c.Pos()), "the maximum starts at 0", "the maximum over outputs does not start at 0")
				}
			} else {
				r.Bad(pfx+".fold", p.Pos(c.Pos()), "the depth of an output is ignored")
			}
			// every output is queried: each iteration of the loop over Outputs makes the query, and the loop ends early only
			// after a query reported an error (an output that is not examined can be the deepest one, or the one that exceeds the cap)
			l := scanLoopOf(Loops(mx), c.Block())
			if l == nil || !loopRangesOver(tmx, l, "recv.Outputs") {
				r.Bad(pfx+".outputs.loop", p.Pos(c.Pos()), "the depth query is not inside a loop over all outputs of the network")
				continue
			}
			paths, complete := EnumIterPaths(mx, l, 500)
			if !complete {
				r.Undecided(pfx+".outputs.paths", p.Pos(c.Pos()), "too many paths")
				continue
			}
			r.PathsExplored += len(paths)
			var skip []string
			for _, ip := range paths {
				if ip.End == "back" && !ip.OnPath(c) {
					skip = ip.Describe(p)
				}
			}
			early := c14EarlyLeave(p, l, paths, c)
			r.Check(skip == nil && early == nil, pfx+".outputs.all", p.Pos(c.Pos()), "every output is queried: the loop over the outputs ends only when they are exhausted or a query reported an error",
				"an output can be left unexamined although no query reported an error (the loop over the outputs skips an iteration or ends early): a deeper output, or the one exceeding the cap, is missed", append(skip, early...)...)
		}
		r.Floor("Depth calls in "+mx.Name(), len(calls), 1)
		// every value the function returns is the shortcut 1, the running maximum, or what a failed Depth call returned
		var mcases []*c14RetCase
		if given != nil {
			mcases = given
		} else {
			var complete bool
			mcases, complete = c14ReturnCases(mx, 4000)
			if !complete {
				Bail(pfx+".returns.paths", p.Pos(mx.Pos()), "too many paths through "+mx.Name())
			}
		}
		for _, rc := range mcases {
			r.PathsExplored += len(rc.Paths)
			if len(rc.Vals) != 2 {
				continue
			}
			v, e := rc.Vals[0], rc.Vals[1]
			okV := false
			if k, isC := v.(*ssa.Const); isC && k.Value != nil {
				switch {
				case k.Value.ExactString() == "1":
					okV = true
				case !rc.ErrNil(1):
					okV = true // a constant returned together with an error (unsupported network)
				case k.Value.ExactString() == "0":
					okV = true // the initial value of the running maximum
				}
			} else if depthResult(v, 0) != nil {
				okV = true
			} else if ms := c14RelaySliceOf(v); ms != nil {
				// an element of a local slice that holds nothing but depths reported by queries of this call (or the
				// zero it was made with, the initial value of the running maximum)
				rl := relayOf(mx, ms)
				okV = rl.Why == "" && depthResult(rl.Src, 0) != nil
			}
			if !okV {
				r.Bad(pfx+".result-origin", p.Pos(rc.Ret.Pos()), mx.Name()+" can return "+TX(v).String()+", which is neither the shortcut, the running maximum over the outputs nor the result of a Depth query of this call (a stored value ignores the cap and the current topology)")
			}
			// an error reported by a depth query comes back with the value of that query (the cap)
			if c := depthResult(e, 1); c != nil && !rc.ErrNil(1) && depthResult(v, 0) != c {
				r.Bad(pfx+".propagate", p.Pos(rc.Ret.Pos()), "the error of a depth query is returned with "+TX(v).String()+" instead of the value that query reported (the cap)")
			}
		}
		if rc, x := c14DroppedError(mcases, 1, func(v ssa.Value) bool { return depthResult(v, 1) != nil }); rc != nil {
			r.Bad(pfx+".err.kept", p.Pos(rc.Ret.Pos()), "after a depth query reported the error "+TX(x).String()+" "+mx.Name()+" can return "+TX(rc.Vals[1]).String()+" instead: the depth-exceeded error is lost")
		} else {
			r.OK(pfx+".err.kept", p.Pos(mx.Pos()), "an error reported by a depth query is returned")
		}
		// shortcut
		want := linAtom("len(recv.allNodes)").Add(linAtom("len(recv.inputs)"), -1).Add(linAtom("len(recv.Outputs)"), -1)
		for _, rc := range mcases {
			if len(rc.Vals) != 2 || TX(rc.Vals[0]).String() != "1" || !rc.ErrNil(1) {
				continue
			}
			okG := true
			for _, pa := range rc.Paths {
				seen := false
				pa.EachCond(func(c ssa.Value, o bool, _ int) {
					b, isBin := c.(*ssa.BinOp)
					if !isBin || !((b.Op == token.EQL && o) || (b.Op == token.NEQ && !o)) {
						return
					}
					diff := c14Lin(TX(b.X)).Add(c14Lin(TX(b.Y)), -1)
					if diff.Equal(want) || diff.Add(want, 1).IsZero() {
						seen = true
					}
				})
				okG = okG && seen
			}
			r.Check(okG, pfx+".shortcut", p.Pos(rc.Ret.Pos()), "depth 1 is returned only when all nodes are inputs or outputs", "the shortcut `return 1` is not guarded by len(allNodes) == len(inputs)+len(Outputs)")
		}
	}

	r.Rule("C14.1", "mark/unmark pairing: no Return is reachable from a store visited=true without passing a store visited=false on the same node (explicit, or by a registered deferred call); in the other functions of the package that set the mark, no successful return is", func() {
		nMarks := 0
		for _, mb := range family {
			marks := c14MarkPairing(p, mb.fn, visited, IsReturn, &r.PathsExplored)
			for _, m := range marks {
				if m.Witness != nil {
					r.Bad(mb.pfx+".visited", p.Pos(m.Store.Pos()), "a return is reachable after `visited = true` without clearing the mark: a capped or failed query leaves traversal marks behind and a later query is truncated", m.Witness...)
				} else {
					r.OK(mb.pfx+".visited", p.Pos(m.Store.Pos()), "every path from the mark to a return clears it")
				}
			}
			nMarks += len(marks)
		}
		r.Floor("visited=true stores in Depth", nMarks, 1)
		// Depth trusts the mark, so every other traversal that sets it must hand it back cleared as well: a successful
		// call (one that does not return a non-nil error) of such a function leaves no mark behind.
		pinned := PinnedFuncs()
		srcFuncs := p.SrcFuncs()
		for _, fn := range srcFuncs {
			if inFamily[fn] || fn.Pkg == nil || fn.Pkg.Pkg.Path() != PkgN {
				continue
			}
			// a helper introduced by a refactoring whose calls were all expanded in place (source normalisation) is
			// examined where it was expanded, as part of its callers; its own body is not a traversal of its own
			if obj, ok := fn.Object().(*types.Func); ok && !pinned[obj.FullName()] {
				called := false
				for _, g := range srcFuncs {
					if len(CallsTo(g, fn)) > 0 {
						called = true
						break
					}
				}
				if !called {
					continue
				}
			}
			errIdx := -1
			if res := fn.Signature.Results(); res.Len() > 0 && types.Identical(res.At(res.Len()-1).Type(), types.Universe.Lookup("error").Type()) {
				errIdx = res.Len() - 1
			}
			success := func(in ssa.Instruction) bool {
				ret, ok := in.(*ssa.Return)
				if !ok {
					return false
				}
				if errIdx < 0 || errIdx >= len(ret.Results) {
					return true
				}
				return !c14NonNil(c14ReachingStore(ret.Results[errIdx], c14SinglePred), Guards(ret.Block()))
			}
			ms := c14MarkPairing(p, fn, visited, success, &r.PathsExplored)
			if len(ms) > 0 {
				r.Fn(FuncName(fn))
			}
			for _, m := range ms {
				if m.Witness != nil {
					r.Bad(fn.Name()+".visited", p.Pos(m.Store.Pos()), "a successful return of "+fn.Name()+" is reachable after `visited = true` without clearing the mark: NNode.Depth skips marked nodes, so every later depth query on this network is truncated", m.Witness...)
				} else {
					r.OK(fn.Name()+".visited", p.Pos(m.Store.Pos()), "every path from the mark to a successful return clears it (returns of a non-nil error are outside the statement)")
				}
			}
		}
	})

	r.Rule("C14.2", "termination: each recursive call is control-dependent on !visited of the node it recurses into, and the receiver's own mark dominates the call; every incoming link is followed unless its source is marked or an error ends the query", func() {
		nCalls := 0
		for _, mb := range family {
			depth, tm, pfx := mb.fn, mb.tm, mb.pfx
			T := func(v ssa.Value) *Term { return c14T(tm, v) }
			calls := queries(depth)
			nCalls += len(calls)
			for _, c := range calls {
				r.CallSites++
				recvT := T(c.Common().Args[0])
				want := recvT.String() + ".visited"
				guarded := c14Holds(c14Lits(tm, Guards(c.Block())), want, false)
				r.Check(guarded, pfx+".recursion.guard", p.Pos(c.Pos()), "the recursion into "+recvT.String()+" is guarded by !"+want,
					"the recursive call into "+recvT.String()+" is not guarded by its visited mark: the search does not terminate on cyclic networks")
				marked := false
				for _, st := range FieldStores(depth, visited) {
					if IsConstBool(st.Val, true) && c14IsParam(depth, st.Addr.(*ssa.FieldAddr).X, 0) &&
						(st.Block() == c.Block() && instrIndex(st) < instrIndex(c) || st.Block().Dominates(c.Block()) && st.Block() != c.Block()) {
						marked = true
					}
				}
				r.Check(marked, pfx+".recursion.mark", p.Pos(c.Pos()), "the receiver is marked visited before recursing", "the receiver is not marked visited before the recursive call: a cycle through it is not detected")
				// arguments: d+1 and the same cap
				d, cp := T(c.Common().Args[1]), T(c.Common().Args[2])
				okD := d.Op == "bin" && d.Name == "+" && ((isParamIdx(d.Args[0], 1) && d.Args[1].String() == "1") || (isParamIdx(d.Args[1], 1) && d.Args[0].String() == "1"))
				r.Check(okD, pfx+".recursion.d+1", p.Pos(c.Pos()), "the recursion passes d+1", "the recursion passes "+d.String()+" as depth, expected d+1")
				r.Check(isParamIdx(cp, 2), pfx+".recursion.cap", p.Pos(c.Pos()), "the recursion passes the cap on unchanged", "the recursion passes "+cp.String()+" as cap")
				// fold: strict maximum
				var ex ssa.Value
				for _, ref := range *c.Value().Referrers() {
					if e, ok := ref.(*ssa.Extract); ok && e.Index == 0 {
						ex = e
					}
				}
				examined := false
				for _, ref := range *c.Value().Referrers() {
					if e, ok := ref.(*ssa.Extract); ok && e.Index == 1 && len(*e.Referrers()) > 0 {
						examined = true
					}
				}
				r.Check(examined, pfx+".recursion.err", p.Pos(c.Pos()), "the error of the recursive query is examined", "the error of the recursive query is ignored: a depth-exceeded result (the cap) is folded in as if it were a depth")
				if ex == nil {
					r.Bad(pfx+".fold", p.Pos(c.Pos()), "the depth returned by the recursion is not used")
				} else {
					op, _, ok := foldsAsMax(ex)
					if !ok {
						// not one compare + one branch + one merge: the same statement read off the iteration paths
						op, _, ok = c14FoldOnPaths(depth, ex, &r.PathsExplored)
					}
					r.Check(ok && (op == token.GTR || op == token.GEQ), pfx+".fold", p.Pos(c.Pos()), "the result is the maximum over the incoming links",
						fmt.Sprintf("the recursive depths are not folded as a maximum (fold found=%v op=%s)", ok, op))
				}
			}
			// every incoming link is followed unless its source is marked: an iteration of the link loop that does not recurse
			// must have seen the source's visited mark set
			for _, c := range calls {
				l := scanLoopOf(Loops(depth), c.Block())
				if l == nil || !loopRangesOver(tm, l, mb.node+".Incoming") {
					r.Bad(pfx+".links.loop", p.Pos(c.Pos()), "the recursion is not inside a loop over all incoming links of the node")
					continue
				}
				paths, complete := EnumIterPaths(depth, l, 500)
				if !complete {
					r.Undecided(pfx+".links.paths", p.Pos(c.Pos()), "too many paths")
					continue
				}
				r.PathsExplored += len(paths)
				want := T(c.Common().Args[0]).String() + ".visited"
				okAll := true
				var wit []string
				for _, ip := range paths {
					if ip.End != "back" || ip.OnPath(c) {
						continue
					}
					seen := false
					for _, g := range ip.Conds {
						if a, v := c14Lit(tm, g.Cond, g.True); a == want && v {
							seen = true
						}
					}
					if !seen {
						okAll = false
						wit = ip.Describe(p)
					}
				}
				r.Check(okAll, pfx+".links.all-followed", p.Pos(c.Pos()), "a link is skipped only when its source node is marked visited", "an incoming link can be skipped although its source is not marked visited: paths through that link are not measured and the depth is under-reported", wit...)
				early := c14EarlyLeave(p, l, paths, c)
				r.Check(early == nil, pfx+".links.exit", p.Pos(c.Pos()), "the loop over the incoming links ends only when the links are exhausted or the recursion reported an error",
					"the loop over the incoming links can end before all links were followed although no recursion error occurred: the remaining links are not measured (depth under-reported, depth-exceeded error lost)", early...)
			}
		}
		r.Floor("recursive Depth calls", nCalls, 1)
	})

	r.Rule("C14.3", "cap: ErrMaximalNetDepthExceeded originates only under cap>0 && d>cap (strict) and is returned together with the cap; recursion errors are propagated unchanged", func() {
		if sentinelG == nil {
			panic(anchorMissing{"network.ErrMaximalNetDepthExceeded"})
		}
		n := 0
		for _, mb := range family {
			depth, tm, pfx := mb.fn, mb.tm, mb.pfx
			T := func(v ssa.Value) *Term { return c14T(tm, v) }
			depthCases := mb.cases
			for _, rc := range depthCases() {
				if len(rc.Vals) != 2 {
					continue
				}
				ret, v, e := rc.Ret, rc.Vals[0], rc.Vals[1]
				switch {
				case isSentinel(e):
					n++
					capPos, strict := true, true
					for _, pa := range rc.Paths {
						lits := pa.Lits(tm)
						capPos = capPos && c14Holds(lits, "0<p2", true)
						strict = strict && c14Holds(lits, "p2<p1", true)
					}
					r.Check(capPos && strict, pfx+".cap.guard", p.Pos(ret.Pos()), "the error is raised only under cap > 0 && d > cap",
						fmt.Sprintf("the depth-exceeded error is raised under a different condition (cap>0 seen: %v, strict d>cap seen: %v): a depth equal to the cap must not be an error and cap 0 means no cap", capPos, strict))
					r.Check(v == ssa.Value(depth.Params[2]), pfx+".cap.value", p.Pos(ret.Pos()), "the cap is returned with the error", "the value returned with the depth-exceeded error is "+T(v).String()+", expected the cap")
				case rc.ErrNil(1):
				case depthResult(e, 1) != nil:
					// propagated: the value must come from the same call (and the same execution of it)
					same := depthResult(v, 0) == depthResult(e, 1)
					for j, pa := range rc.Paths {
						if same && !pa.sameInstance(depthResult(e, 1), rc.Pos[j][0], rc.Pos[j][1]) {
							same = false
						}
					}
					r.Check(same, pfx+".cap.propagate", p.Pos(ret.Pos()), "recursion errors are propagated with their value", "a recursion error is returned with "+T(v).String())
				default:
					r.Bad(pfx+".cap.origin", p.Pos(ret.Pos()), "Depth returns an error of unknown origin: "+T(e).String())
				}
			}
			// an error reported by the recursion ends the query with that error
			if rc, x := c14DroppedError(depthCases(), 1, func(v ssa.Value) bool { return depthResult(v, 1) != nil }); rc != nil {
				r.Bad(pfx+".cap.kept", p.Pos(rc.Ret.Pos()), "after the recursion reported the error "+T(x).String()+" Depth can return "+T(rc.Vals[1]).String()+" instead: the depth-exceeded error is lost and the cap is reported as if it were the depth")
			} else {
				r.OK(pfx+".cap.kept", p.Pos(depth.Pos()), "an error reported by the recursion is returned")
			}
		}
		r.Floor("returns of the depth-exceeded sentinel", n, 1)
	})

	r.Rule("C14.4", "counting: sensors return d; MaxActivationDepthWithCap takes the strict maximum of Depth(0, cap) over all outputs, starting from 0, and returns 1 only when there are no hidden nodes", func() {
		// sensor base case: in every case in which IsSensor() holds for the receiver, Depth returns (d, nil) - or the cap
		// error raised before the test - and never recurses. The cases are read off IsSensor's own body, so a test written
		// out by hand (a switch over the neuron type) is the same condition.
		isSensor := p.Func(PkgN, "NNode.IsSensor")
		for _, mb := range family {
			depth, tm, pfx := mb.fn, mb.tm, mb.pfx
			T := func(v ssa.Value) *Term { return c14T(tm, v) }
			depthCases := mb.cases
			cases, fields := c14TrueCases(isSensor)
			if mb.node != "recv" {
				// the cases are literals over IsSensor's receiver: here that node is called mb.node
				for i, cs := range cases {
					ren := map[string]bool{}
					for k, v := range cs {
						ren[c14RenameWord(k, "recv", mb.node)] = v
					}
					cases[i] = ren
				}
			}
			for _, f := range fields {
				if len(FieldStores(depth, f)) > 0 {
					cases = nil // the predicate's inputs change inside Depth: only the call itself is a stable test
				}
			}
			if cases == nil {
				cases = []map[string]bool{{}}
			}
			recursion := queries(depth)
			foundBase, recurses := true, false
			badRet := ""
			var basePos token.Pos
			var wit []string
			for _, cs := range cases {
				decide := func(cond ssa.Value) (bool, bool) {
					neg := false
					for {
						if u, ok := cond.(*ssa.UnOp); ok && u.Op == token.NOT {
							cond, neg = u.X, !neg
							continue
						}
						break
					}
					if c, ok := cond.(*ssa.Call); ok && c.Call.StaticCallee() == isSensor && len(c.Call.Args) == 1 && c14IsParam(depth, c.Call.Args[0], 0) {
						return !neg, true
					}
					a, v := c14Lit(tm, cond, true)
					if val, ok := cs[a]; ok {
						return (val == v) != neg, true
					}
					// x == c2 is false once x == c1 is known for another constant c1
					if x, cst, ok := c14EqConst(tm, cond); ok && c14OtherConst(cs, x, cst) {
						isEq := cond.(*ssa.BinOp).Op == token.EQL
						return (!isEq) != neg, true
					}
					return false, false
				}
				paths, complete := c14EnumPaths(depth, decide, 4000)
				if !complete {
					r.Undecided(pfx+".sensor.paths", p.Pos(depth.Pos()), "too many paths")
					continue
				}
				r.PathsExplored += len(paths)
				base := false
				for _, pa := range paths {
					for _, c := range recursion {
						if pa.OnPath(c) {
							recurses = true
							if wit == nil {
								for _, b := range pa.Blocks {
									wit = append(wit, describeBlock(p, b, nil))
								}
							}
						}
					}
					if len(pa.Ret.Results) != 2 {
						continue
					}
					v, e := pa.Resolve(pa.Ret.Results[0]), pa.Resolve(pa.Ret.Results[1])
					if isSentinel(e) {
						continue // the cap error: its condition and value are rule C14.3
					}
					ec, isC := e.(*ssa.Const)
					if v == ssa.Value(depth.Params[1]) && isC && ec.Value == nil {
						base = true
						if !basePos.IsValid() {
							basePos = pa.Ret.Pos()
						}
						continue
					}
					if badRet == "" {
						badRet = "(" + T(v).String() + ", " + T(e).String() + ")"
						if len(cs) > 0 {
							badRet += " when " + c14SortedAtoms(cs)
						}
					}
				}
				if !base {
					foundBase = false
				}
			}
			if !basePos.IsValid() {
				basePos = depth.Pos()
			}
			if badRet != "" {
				r.Bad(pfx+".sensor", p.Pos(basePos), "a sensor returns "+badRet)
			} else if foundBase && !recurses {
				r.OK(pfx+".sensor", p.Pos(basePos), "a sensor returns (d, nil)")
			}
			r.Check(foundBase && !recurses, pfx+".sensor.branch", p.Pos(depth.Pos()), "the sensor base case exists: a sensor returns before the traversal", "Depth has no base case for sensors", wit...)
			// the running maximum starts at d: whenever Depth returns without an error, the value is d itself (no link was
			// followed, or none led deeper) or a depth reported by the recursion
			{
				bad := ""
				var okPos, badPos token.Pos
				for _, rc := range depthCases() {
					if len(rc.Vals) != 2 || !rc.ErrNil(1) {
						continue
					}
					v := rc.Vals[0]
					if v == ssa.Value(depth.Params[1]) || depthResult(v, 0) != nil {
						if rc.Ret.Pos() > okPos {
							okPos = rc.Ret.Pos()
						}
						continue
					}
					if bad == "" {
						bad, badPos = T(v).String(), rc.Ret.Pos()
					}
				}
				if bad != "" {
					r.Bad(pfx+".acc.init", p.Pos(badPos), "the running maximum does not start at d: without an error Depth can return "+bad+", which is neither d nor a depth reported by the recursion")
				} else {
					r.OK(pfx+".acc.init", p.Pos(okPos), "the running maximum starts at d")
				}
			}
			// the converse of the base case: a node that is NOT a sensor is answered without an error only after the
			// loop over its incoming links (the only place where deeper paths are measured) - or when it has no
			// incoming link at all. A second "the path ends here" test (by role, by depth, ...) cuts paths short.
			{
				ncases, nfields := c14CasesOf(isSensor, false)
				if mb.node != "recv" {
					for i, cs := range ncases {
						ren := map[string]bool{}
						for k, v := range cs {
							ren[c14RenameWord(k, "recv", mb.node)] = v
						}
						ncases[i] = ren
					}
				}
				for _, f := range nfields {
					if len(FieldStores(depth, f)) > 0 {
						ncases = nil
					}
				}
				if ncases == nil {
					ncases = []map[string]bool{{}}
				}
				var linkLoop *Loop
				for _, c := range recursion {
					if l := scanLoopOf(Loops(depth), c.Block()); l != nil && loopRangesOver(tm, l, mb.node+".Incoming") {
						linkLoop = l
					}
				}
				if linkLoop == nil {
					r.Bad(pfx+".non-sensor.traversal", p.Pos(depth.Pos()), "no loop over the node's incoming links contains the recursion")
				} else {
					isIncoming := func(v ssa.Value) bool { return T(v).String() == mb.node+".Incoming" }
					var wit []string
					var badPos token.Pos
					undec := false
					for _, cs := range ncases {
						decide := func(cond ssa.Value) (bool, bool) {
							neg := false
							for {
								if u, ok := cond.(*ssa.UnOp); ok && u.Op == token.NOT {
									cond, neg = u.X, !neg
									continue
								}
								break
							}
							if c, ok := cond.(*ssa.Call); ok && c.Call.StaticCallee() == isSensor && len(c.Call.Args) == 1 && c14IsParam(depth, c.Call.Args[0], 0) {
								return neg, true
							}
							a, v := c14Lit(tm, cond, true)
							if val, ok := cs[a]; ok {
								return (val == v) != neg, true
							}
							return false, false
						}
						paths, complete := c14EnumPaths(depth, decide, 4000)
						if !complete {
							undec = true
							continue
						}
						r.PathsExplored += len(paths)
						for _, pa := range paths {
							if len(pa.Ret.Results) != 2 {
								continue
							}
							e := pa.Resolve(pa.Ret.Results[1])
							if ec, isC := e.(*ssa.Const); !isC || ec.Value != nil {
								continue // an error is reported: C14.3 and the propagation rule speak about those
							}
							through, empty := false, false
							for _, b := range pa.Blocks {
								if b == linkLoop.Header {
									through = true
								}
							}
							for _, g := range pa.Conds {
								if LenZeroFact(g.Cond, g.True, isIncoming) == 1 {
									empty = true
								}
							}
							if !through && !empty && wit == nil {
								badPos = pa.Ret.Pos()
								for _, b := range pa.Blocks {
									wit = append(wit, describeBlock(p, b, nil))
								}
							}
						}
					}
					if undec {
						r.Undecided(pfx+".non-sensor.traversal", p.Pos(depth.Pos()), "too many paths")
					} else {
						if !badPos.IsValid() {
							badPos = depth.Pos()
						}
						r.Check(wit == nil, pfx+".non-sensor.traversal", p.Pos(badPos), "a node that is not a sensor is answered only after its incoming links were walked",
							"a node that is not a sensor can be answered (no error) without walking its incoming links although it may have some: the part of the path behind it is not counted and the depth is under-reported", wit...)
					}
				}
			}
		}

		maxOverOutputs(p.Func(PkgN, "Network.MaxActivationDepthWithCap"), "MaxDepth", func(_ ssa.Value, t *Term) bool { return isParamIdx(t, 1) }, "the cap parameter is passed on", nil)
	})

	r.Rule("C14.5", "dispatch: a network is handed to the algorithm for modular networks (all-pairs shortest paths), or refused as modular, only when its control list has at least one element (a fact about len(controlNodes), not about nil-ness or another field); otherwise MaxActivationDepth returns what MaxActivationDepthWithCap reports without a cap. If this fails, a network without control nodes whose control list is empty but not nil (the phenotype of a genome whose control genes are all disabled) gets the shortest-path estimate, which under-reports the longest path, or the `unsupported` error instead of its depth", func() {
		ctrl := p.Field(PkgN, "Network", "controlNodes")
		modular := p.Func(PkgN, "Network.maxActivationDepthModular")
		mx := p.Func(PkgN, "Network.MaxActivationDepthWithCap")
		mad := p.Func(PkgN, "Network.MaxActivationDepth")
		// (a) every caller of the modular algorithm in the package
		nSites := 0
		for _, fn := range p.SrcFuncs() {
			if fn == modular || fn.Pkg == nil || fn.Pkg.Pkg.Path() != PkgN {
				continue
			}
			cs := CallsTo(fn, modular)
			if len(cs) == 0 {
				continue
			}
			r.Fn(FuncName(fn))
			tm := NewTermer(fn)
			stable := len(FieldStores(fn, ctrl)) == 0
			for _, c := range cs {
				r.CallSites++
				nSites++
				if c.Common().IsInvoke() || len(c.Common().Args) == 0 {
					r.Bad(fn.Name()+".modular.guard", p.Pos(c.Pos()), "the modular depth algorithm is reached through a call that cannot be resolved")
					continue
				}
				net := c14T(tm, c.Common().Args[0]).String()
				_, isCall := c.(*ssa.Call)
				ok := isCall && stable && c14GuardedByElems(tm, c.Block(), net, ctrl)
				r.Check(ok, fn.Name()+".modular.guard", p.Pos(c.Pos()), "the modular algorithm is used only when len("+net+".controlNodes) >= 1",
					"the all-pairs shortest-path algorithm for modular networks can be reached without the test that "+net+".controlNodes has at least one element: a plain network with an empty, non-nil control list is measured by shortest paths and its depth under-reported")
			}
		}
		r.Floor("calls of maxActivationDepthModular", nSites, 2)
		// (b) MaxActivationDepthWithCap refuses a network (an error that no depth query reported) only when it has control nodes
		{
			tmx := NewTermer(mx)
			base := tmx.Of(mx.Params[0]).String()
			stable := len(FieldStores(mx, ctrl)) == 0
			mcases, complete := c14ReturnCases(mx, 4000)
			if !complete {
				Bail("MaxDepth.unsupported.paths", p.Pos(mx.Pos()), "too many paths through MaxActivationDepthWithCap")
			}
			n := 0
			for _, rc := range mcases {
				r.PathsExplored += len(rc.Paths)
				if len(rc.Vals) != 2 || rc.ErrNil(1) || depthResult(rc.Vals[1], 1) != nil {
					continue
				}
				n++
				var wit []string
				for _, pa := range rc.Paths {
					if !stable || !pa.HasElems(tmx, base, ctrl) {
						wit = pa.Describe(p)
						break
					}
				}
				r.Check(wit == nil, "MaxDepth.unsupported.guard", p.Pos(rc.Ret.Pos()), "the network is refused only when len(controlNodes) >= 1",
					"MaxActivationDepthWithCap can return the error "+c14T(tmx, rc.Vals[1]).String()+", which no depth query reported, without having seen that controlNodes has at least one element: a plain network with an empty, non-nil control list gets an error instead of its depth", wit...)
			}
			if n == 0 {
				r.OK("MaxDepth.unsupported.guard", p.Pos(mx.Pos()), "MaxActivationDepthWithCap returns no error of its own")
			}
		}
		// (c) MaxActivationDepth: a network not seen to have control nodes gets the uncapped answer of MaxActivationDepthWithCap
		{
			r.Fn(FuncName(mad))
			tm := NewTermer(mad)
			base := tm.Of(mad.Params[0]).String()
			stable := len(FieldStores(mad, ctrl)) == 0
			cases, complete := c14ReturnCases(mad, 4000)
			if !complete {
				Bail("MaxActivationDepth.plain.paths", p.Pos(mad.Pos()), "too many paths through MaxActivationDepth")
			}
			resultOf := func(v ssa.Value, idx int) *ssa.Call {
				x, ok := v.(*ssa.Extract)
				if !ok || x.Index != idx {
					return nil
				}
				c, ok := x.Tuple.(*ssa.Call)
				if !ok || c.Call.IsInvoke() || c.Call.StaticCallee() != mx || len(c.Call.Args) != 2 || !c14IsParam(mad, c.Call.Args[0], 0) {
					return nil
				}
				k, isC := c14Canon(c.Call.Args[1]).(*ssa.Const)
				if !isC || k.Value == nil || k.Value.Kind() != constant.Int || constant.Sign(k.Value) > 0 {
					return nil // a positive cap truncates the answer
				}
				return c
			}
			nPlain := 0
			searches := len(queries(mad)) > 0
			var rest []*c14RetCase
			for _, rc := range cases {
				r.PathsExplored += len(rc.Paths)
				var plain []int
				for j, pa := range rc.Paths {
					if !stable || !pa.HasElems(tm, base, ctrl) {
						plain = append(plain, j)
					}
				}
				if len(plain) == 0 {
					continue
				}
				nPlain++
				ok := len(rc.Vals) == 2
				if ok {
					c := resultOf(rc.Vals[0], 0)
					ok = c != nil
					if ok && resultOf(rc.Vals[1], 1) != c {
						// `return d, nil` after the error of that call was seen to be nil
						var errV ssa.Value
						for _, ref := range *c.Referrers() {
							if e, isE := ref.(*ssa.Extract); isE && e.Index == 1 {
								errV = e
							}
						}
						k, isC := rc.Vals[1].(*ssa.Const)
						ok = isC && k.Value == nil && errV != nil
						for _, j := range plain {
							ok = ok && rc.Paths[j].NilAt(errV, rc.Pos[j][1], true)
						}
					}
				}
				what := "?"
				if len(rc.Vals) == 2 {
					what = "(" + c14T(tm, rc.Vals[0]).String() + ", " + c14T(tm, rc.Vals[1]).String() + ")"
				}
				if !ok && searches && len(rc.Vals) == 2 && (rc.ErrNil(1) || depthResult(rc.Vals[1], 1) != nil) {
					// the longest-path search is written out (or a shared worker was expanded) here: this alternative is
					// examined below like the returns of MaxActivationDepthWithCap
					sub := &c14RetCase{Ret: rc.Ret, Vals: rc.Vals}
					for _, j := range plain {
						sub.Paths = append(sub.Paths, rc.Paths[j])
						sub.Pos = append(sub.Pos, rc.Pos[j])
					}
					rest = append(rest, sub)
					continue
				}
				var wit []string
				if !ok {
					wit = rc.Paths[plain[0]].Describe(p)
				}
				r.Check(ok, "MaxActivationDepth.plain", p.Pos(rc.Ret.Pos()), "without the fact len(controlNodes) >= 1 the result is that of MaxActivationDepthWithCap without a cap",
					"MaxActivationDepth can return "+what+" for a network that was not seen to have at least one control node; expected both results of one call of MaxActivationDepthWithCap with a cap <= 0 (the longest-path search)", wit...)
			}
			if len(rest) > 0 {
				r.OK("MaxActivationDepth.plain", p.Pos(mad.Pos()), "without the fact len(controlNodes) >= 1 MaxActivationDepth performs the search over the outputs itself, without a cap (examined as MaxActivationDepth.search.*)")
				maxOverOutputs(mad, "MaxActivationDepth.search", func(v ssa.Value, _ *Term) bool {
					k, isC := c14Canon(v).(*ssa.Const)
					return isC && k.Value != nil && k.Value.Kind() == constant.Int && constant.Sign(k.Value) <= 0
				}, "the depth queries run without a cap", rest)
			}
			r.Floor("returns of MaxActivationDepth for plain networks", nPlain, 1)
		}
	})
}

func containsAll(s string, subs ...string) bool {
	for _, x := range subs {
		if !contains(s, x) {
			return false
		}
	}
	return true
}

func contains(s, sub string) bool {
	return len(sub) == 0 || (len(s) >= len(sub) && indexOf(s, sub) >= 0)
}

func indexOf(s, sub string) int {
	for i := 0; i+len(sub) <= len(s); i++ {
		if s[i:i+len(sub)] == sub {
			return i
		}
	}
	return -1
}
