package nc

import (
	"fmt"
	"go/token"
	"go/types"
	"sort"
	"strconv"
	"strings"

	"golang.org/x/tools/go/ssa"
)

// ---------------------------------------------------------------------------
// organism header line + genome

func (c *c15) organismBinary() {
	p, r := c.p, c.r
	label := "organism"
	mfn, ufn := p.Func(PkgG, "Organism.MarshalBinary"), p.Func(PkgG, "Organism.UnmarshalBinary")
	r.Fn(FuncName(mfn), FuncName(ufn))
	mtm, utm := NewTermer(mfn), NewTermer(ufn)
	mc, und1 := fmtCalls(mfn)
	uc, und2 := fmtCalls(ufn)
	if len(und1)+len(und2) > 0 || len(mc) != 1 || len(uc) != 1 {
		r.Undecided(label+".header", p.Pos(mfn.Pos()), fmt.Sprintf("expected one print call in MarshalBinary and one scan call in UnmarshalBinary, found %d and %d", len(mc), len(uc)))
		return
	}
	w, s := mc[0], uc[0]
	okKinds := (w.Kind == "println" && s.Kind == "scanln") || (w.Kind == "print" && s.Kind == "scan")
	r.Check(okKinds, label+".header.kind", p.Pos(w.Call.Pos()), "one line of blank-separated values, scanned as one line", fmt.Sprintf("the header is written with F%s and read with F%s", w.Kind, s.Kind))
	r.Check(len(w.Args) == len(s.Args), label+".header.arity", p.Pos(s.Call.Pos()), fmt.Sprintf("%d values on both sides", len(w.Args)), fmt.Sprintf("%d values are written, %d scanned", len(w.Args), len(s.Args)))
	var idLocal *ssa.Alloc
	need := map[string]bool{"Fitness": false, "Generation": false, "Genotype.Id": false}
	for i := 0; i < len(w.Args) && i < len(s.Args); i++ {
		wt, st := mtm.Of(w.Args[i]), utm.Of(s.Args[i])
		base, path := wt.FieldPath()
		cons := fmt.Sprintf("%s.header.#%d", label, i)
		if base == nil || base.Op != "recv" || len(path) == 0 {
			r.Bad(cons, p.Pos(w.Call.Pos()), "value "+wt.String()+" of the header is not a field of the organism")
			continue
		}
		ps := strings.Join(path, ".")
		if _, ok := need[ps]; ok {
			need[ps] = true
		}
		if b, ok := wt.Obj.(*types.Var); ok {
			if bt, ok := b.Type().Underlying().(*types.Basic); !ok || bt.Info()&(types.IsNumeric|types.IsBoolean) == 0 {
				r.Bad(cons, p.Pos(w.Call.Pos()), ps+" is not a number or boolean: its default text form may contain blanks")
				continue
			}
		}
		if ps == "Genotype.Id" {
			al, ok := s.Args[i].(*ssa.Alloc)
			r.Check(ok, cons, p.Pos(s.Call.Pos()), "genome id scanned into a local passed on to ReadGenome", "the genome id is scanned into "+st.String())
			idLocal = al
			continue
		}
		sb, sp := st.FieldPath()
		if al, isLocal := s.Args[i].(*ssa.Alloc); isLocal && len(path) == 1 {
			// scanned into a local first (the receiver is updated only after everything was decoded): the local's value
			// must reach the same field on every path that does not end in an error
			where, why := "", "the local it is scanned into is never stored into "+ps
			for _, fs := range FieldStores(ufn, wt.Obj.(*types.Var)) {
				if utm.Of(fs.Addr.(*ssa.FieldAddr).X).Op != "recv" {
					continue
				}
				ld, isLoad := fs.Val.(*ssa.UnOp)
				if !isLoad || ld.Op != token.MUL || ld.X != ssa.Value(al) {
					why = "the field " + ps + " receives " + utm.Of(fs.Val).String() + ", not the value scanned at this position"
					where = ""
					break
				}
				if !instrBefore(s.Call, ld) {
					why = "the local is copied into " + ps + " before it is scanned"
					continue
				}
				if g := nonErrorGuard(utm, fs.Block()); g != "" {
					why = ps + " is updated only under the condition " + g
					continue
				}
				where = p.Pos(fs.Pos())
			}
			// nothing else writes the local between the scan and the copy
			nStores := 0
			for _, ref := range *al.Referrers() {
				if x, isSt := ref.(*ssa.Store); isSt && x.Addr == ssa.Value(al) && !instrBefore(x, s.Call) {
					nStores++ // (an initialisation before the scan is overwritten by it)
				}
			}
			if where != "" && nStores > 0 {
				where, why = "", "the local scanned at this position is also assigned elsewhere"
			}
			r.Check(where != "", cons, p.Pos(s.Call.Pos()), ps+" written and scanned at the same position (through a local copied into the field at "+where+")",
				fmt.Sprintf("position %d of the header holds %s: %s", i, ps, why))
			continue
		}
		r.Check(sb != nil && sb.Op == "recv" && strings.Join(sp, ".") == ps, cons, p.Pos(s.Call.Pos()), ps+" written and scanned at the same position",
			fmt.Sprintf("position %d of the header holds %s but is scanned into %s", i, ps, st))
	}
	for _, k := range sortedKeys(need) {
		r.Check(need[k], label+".header.has:"+k, p.Pos(w.Call.Pos()), k+" travels in the header", "the organism's "+k+" is not written")
	}
	// genome follows in the same buffer; restored with the scanned id
	gw, rg := p.Func(PkgG, "Genome.Write"), p.Func(PkgG, "ReadGenome")
	okW, okR := false, false
	for _, ci := range CallsTo(mfn, gw) {
		a := ci.Common().Args
		okW = mtm.Of(a[0]).String() == "recv.Genotype" && stripPtr(a[1]) == stripPtr(w.Stream) && instrBefore(w.Call, ci)
	}
	for _, ci := range CallsTo(ufn, rg) {
		a := ci.Common().Args
		idOK := false
		if u, ok := a[1].(*ssa.UnOp); ok && idLocal != nil && u.X == idLocal {
			idOK = true
		}
		stored := false
		if res := firstResult(ci.(*ssa.Call)); res != nil {
			for _, st := range FieldStores(ufn, p.Field(PkgG, "Organism", "Genotype")) {
				if st.Val == res && utm.Of(st.Addr.(*ssa.FieldAddr).X).Op == "recv" {
					stored = true
				}
			}
		}
		okR = idOK && stored && stripPtr(a[0]) == stripPtr(s.Stream) && instrBefore(s.Call, ci)
	}
	var lastWrite ssa.Instruction = w.Call
	for _, ci := range CallsTo(mfn, gw) {
		lastWrite = ci
	}
	c.organismBytes(mfn, w, lastWrite)
	r.Check(okW, label+".genome.write", p.Pos(mfn.Pos()), "the genome is written after the header into the same buffer", "MarshalBinary does not write recv.Genotype after the header into the same buffer")
	r.Check(okR, label+".genome.read", p.Pos(ufn.Pos()), "the genome is read after the header from the same buffer with the scanned id and stored in Genotype", "UnmarshalBinary does not restore Genotype from the rest of the buffer with the scanned genome id")
}

// nonErrorGuard: "" when block b runs whenever no error was met before it (every branch outcome it depends on is a
// comparison of an error value with nil); otherwise the first other condition.
func nonErrorGuard(tm *Termer, b *ssa.BasicBlock) string {
	for _, g := range Guards(b) {
		if x, y, op, ok := CmpFact(g.Cond, g.True); ok && (op == token.EQL || op == token.NEQ) {
			if k, isC := y.(*ssa.Const); isC && k.Value == nil && isErrorType(x.Type()) {
				continue
			}
		}
		return tm.Of(g.Cond).String()
	}
	return ""
}

func isErrorType(t types.Type) bool {
	n, ok := t.(*types.Named)
	return ok && n.Obj().Pkg() == nil && n.Obj().Name() == "error"
}

// concatOperands flattens a string concatenation a + b + c into its operands.
func concatOperands(t *Term) []*Term {
	if t.Op == "bin" && t.Name == "+" && len(t.Args) == 2 {
		return append(concatOperands(t.Args[0]), concatOperands(t.Args[1])...)
	}
	return []*Term{t}
}

// termString: the value of a constant string term.
func termString(t *Term) (string, bool) {
	if t.Op != "const" {
		return "", false
	}
	k, ok := t.V.(*ssa.Const)
	if !ok {
		return "", false
	}
	return constString(k)
}

// ownedBytes: v is a byte slice made here for the receiver: nil, make, []byte(string), or append(<owned>, ...).
func ownedBytes(tm *Termer, v ssa.Value) (bool, string) {
	switch x := v.(type) {
	case *ssa.Const:
		return x.Value == nil, "a constant"
	case *ssa.MakeSlice:
		return true, ""
	case *ssa.Convert:
		if b, ok := x.X.Type().Underlying().(*types.Basic); ok && b.Info()&types.IsString != 0 {
			return true, ""
		}
		return ownedBytes(tm, x.X)
	case *ssa.Slice:
		if al, ok := x.X.(*ssa.Alloc); ok && al.Referrers() != nil && len(*al.Referrers()) == 1 {
			return true, ""
		}
	case *ssa.Call:
		if base, _, ok := appendCall(x); ok {
			return ownedBytes(tm, base)
		}
		if n, _ := calleeName(&x.Call); n == "bytes.Clone" || n == "slices.Clone" {
			return true, ""
		}
	}
	return false, tm.Of(v).String()
}

// organismBytes: what MarshalBinary hands out is the content of the buffer the
// header (and, by organism.genome.write, the genome) went into, and nobody else
// can write into the memory behind it afterwards: either the result is a copy
// made in this call, or the buffer is allocated by this call and is not handed
// to anything that keeps it (a pooled/shared buffer is rewritten by the next
// MarshalBinary while the earlier binary form is still in use).
func (c *c15) organismBytes(mfn *ssa.Function, w fmtCall, lastWrite ssa.Instruction) {
	p, r := c.p, c.r
	label := "organism.bytes"
	buf := stripPtr(w.Stream)
	// the values returned as the binary form
	type res struct {
		v   ssa.Value
		ret *ssa.Return
	}
	var results []res
	Instrs(mfn, func(_ *ssa.BasicBlock, _ int, in ssa.Instruction) {
		ret, ok := in.(*ssa.Return)
		if !ok || len(ret.Results) == 0 {
			return
		}
		seen := map[ssa.Value]bool{}
		var leaves func(v ssa.Value)
		leaves = func(v ssa.Value) {
			if seen[v] {
				return
			}
			seen[v] = true
			switch x := v.(type) {
			case *ssa.Phi:
				for _, e := range x.Edges {
					leaves(e)
				}
			case *ssa.Const:
				if x.Value != nil {
					results = append(results, res{v, ret})
				}
			case *ssa.UnOp:
				// a named result / local kept in memory: everything stored to it
				if al, ok := x.X.(*ssa.Alloc); ok && x.Op == token.MUL {
					for _, ref := range *al.Referrers() {
						if st, ok := ref.(*ssa.Store); ok && st.Addr == ssa.Value(al) {
							leaves(st.Val)
						}
					}
					return
				}
				results = append(results, res{v, ret})
			default:
				results = append(results, res{v, ret})
			}
		}
		leaves(ret.Results[0])
	})
	bytesOf := func(v ssa.Value) (ssa.Value, bool) { // v = X.Bytes() -> X
		if sl, ok := v.(*ssa.Slice); ok && sl.Low == nil && sl.High == nil && sl.Max == nil {
			v = sl.X
		}
		cl, ok := v.(*ssa.Call)
		if !ok {
			return nil, false
		}
		if n, _ := calleeName(&cl.Call); n != "bytes.Buffer.Bytes" || len(cl.Call.Args) != 1 {
			return nil, false
		}
		if !instrBefore(lastWrite, cl) {
			return nil, false // taken before everything was written: the slice does not cover what is appended later
		}
		return stripPtr(cl.Call.Args[0]), true
	}
	isFreshSlice := func(v ssa.Value) bool {
		switch x := v.(type) {
		case *ssa.Const:
			return x.Value == nil
		case *ssa.MakeSlice:
			return true
		case *ssa.Convert:
			k, ok := x.X.(*ssa.Const)
			return ok && k.Value == nil
		case *ssa.Slice:
			// make([]byte, n, K) with constant sizes: a slice of an array allocated here and used for nothing else
			if al, ok := x.X.(*ssa.Alloc); ok && al.Referrers() != nil && len(*al.Referrers()) == 1 {
				return true
			}
		}
		return false
	}
	// copyOf: v is a copy, made here, of some X.Bytes(): append(<fresh>, X.Bytes()...), bytes.Clone(X.Bytes()), []byte(X.String())
	copyOf := func(v ssa.Value) (ssa.Value, bool) {
		if ms, ok := v.(*ssa.MakeSlice); ok {
			// out := make([]byte, X.Len()); copy(out, X.Bytes())
			var lenOf ssa.Value
			if lc, ok := ms.Len.(*ssa.Call); ok {
				n, _ := calleeName(&lc.Call)
				if n == "bytes.Buffer.Len" && len(lc.Call.Args) == 1 {
					lenOf = stripPtr(lc.Call.Args[0])
				} else if n == "len" && len(lc.Call.Args) == 1 {
					lenOf, _ = bytesOf(lc.Call.Args[0])
				}
			}
			for _, ref := range *ms.Referrers() {
				if cc, ok := ref.(*ssa.Call); ok {
					if n, _ := calleeName(&cc.Call); n == "copy" && len(cc.Call.Args) == 2 && cc.Call.Args[0] == ssa.Value(ms) {
						if src, ok := bytesOf(cc.Call.Args[1]); ok && lenOf != nil && src == lenOf {
							return src, true
						}
					}
				}
			}
			return nil, false
		}
		cl, ok := v.(*ssa.Call)
		if !ok {
			if cv, ok := v.(*ssa.Convert); ok {
				if sc, ok := cv.X.(*ssa.Call); ok {
					if n, _ := calleeName(&sc.Call); n == "bytes.Buffer.String" && len(sc.Call.Args) == 1 {
						return stripPtr(sc.Call.Args[0]), true
					}
				}
			}
			return nil, false
		}
		n, _ := calleeName(&cl.Call)
		switch {
		case n == "append" && len(cl.Call.Args) == 2 && isFreshSlice(cl.Call.Args[0]):
			return bytesOf(cl.Call.Args[1])
		case (n == "bytes.Clone" || n == "slices.Clone") && len(cl.Call.Args) == 1:
			return bytesOf(cl.Call.Args[0])
		}
		return nil, false
	}
	if len(results) == 0 {
		r.Bad(label+".source", p.Pos(mfn.Pos()), "MarshalBinary never returns a binary form")
		return
	}
	okSrc, needPrivate := true, false
	whySrc := ""
	for _, rs := range results {
		if b, ok := bytesOf(rs.v); ok {
			needPrivate = true
			if b != buf {
				okSrc, whySrc = false, "the returned bytes are those of another buffer than the one the header is written to"
			}
			continue
		}
		if b, ok := copyOf(rs.v); ok {
			if b != buf {
				okSrc, whySrc = false, "the returned copy is taken from another buffer than the one the header is written to"
			}
			continue
		}
		okSrc, whySrc = false, "the returned value "+NewTermer(mfn).Of(rs.v).String()+" is not the content of the buffer the organism was written to"
	}
	r.Check(okSrc, label+".source", p.Pos(results[0].ret.Pos()), "the returned binary form is the content of the buffer the header and the genome were written to", "MarshalBinary: "+whySrc)
	if !okSrc {
		return
	}
	if !needPrivate {
		r.OK(label+".private", p.Pos(results[0].ret.Pos()), "the binary form is a copy made by this call")
		return
	}
	// the buffer is created by this call ...
	fresh := false
	switch x := buf.(type) {
	case *ssa.Alloc:
		fresh = true
	case *ssa.Call:
		n, _ := calleeName(&x.Call)
		if (n == "bytes.NewBuffer" && len(x.Call.Args) == 1 && isFreshSlice(x.Call.Args[0])) || n == "bytes.NewBufferString" {
			fresh = true
		}
	}
	if !fresh {
		r.Bad(label+".private", p.Pos(w.Call.Pos()), "MarshalBinary returns the bytes of a buffer it did not allocate itself ("+NewTermer(mfn).Of(buf).String()+
			"): the memory behind the returned binary form stays reachable through that buffer and is rewritten when the buffer is used again (e.g. by the next MarshalBinary taking it from a pool), so an organism's binary form no longer restores that organism")
		return
	}
	// ... and nothing keeps a reference to it: it is only used as the stream of print calls, as the argument of library
	// writers, and as the receiver of bytes.Buffer methods
	why := ""
	var visit func(v ssa.Value, depth int)
	visit = func(v ssa.Value, depth int) {
		if v.Referrers() == nil || depth > 3 {
			return
		}
		for _, ref := range *v.Referrers() {
			switch x := ref.(type) {
			case *ssa.MakeInterface:
				visit(x, depth+1)
			case *ssa.ChangeInterface:
				visit(x, depth+1)
			case *ssa.ChangeType:
				visit(x, depth+1)
			case *ssa.Store:
				if x.Val == v {
					why = "the buffer is stored at " + p.Pos(x.Pos())
				}
			case *ssa.MakeClosure:
				why = "the buffer is captured by a closure at " + p.Pos(x.Pos())
			case *ssa.Go:
				why = "the buffer is handed to a goroutine at " + p.Pos(x.Pos())
			case *ssa.Send, *ssa.MapUpdate:
				why = "the buffer is sent away at " + p.Pos(ref.Pos())
			case ssa.CallInstruction:
				n, _ := calleeName(x.Common())
				cal := x.Common().StaticCallee()
				switch {
				case strings.HasPrefix(n, "fmt.F"), strings.HasPrefix(n, "bytes.Buffer."), strings.HasPrefix(n, "io.WriteString"):
				case cal != nil && InRepo(cal):
					// the library's own writers wrap the stream in a writer that lives for the call only
				default:
					why = "the buffer is handed to " + n + " at " + p.Pos(x.Pos())
				}
			}
		}
	}
	visit(buf, 0)
	r.Check(why == "", label+".private", p.Pos(w.Call.Pos()), "the buffer behind the returned bytes is allocated by this call and not kept anywhere else",
		"MarshalBinary returns the bytes of a buffer that outlives the call: "+why+"; a later write into it rewrites the binary form that was returned")
}

// ---------------------------------------------------------------------------
// population re-framing

func (c *c15) populationIO() {
	p, r := c.p, c.r
	label := "population"
	fn := p.Func(PkgG, "ReadPopulation")
	r.Fn(FuncName(fn))
	tm := NewTermer(fn)
	c.lineSplitAccepts(label+".split", fn, 2)
	calls, und := fmtCalls(fn)
	if len(und) > 0 {
		r.Undecided(label+".reframe", p.Pos(und[0].Pos()), "a fmt call with a non-constant format")
		return
	}
	rg := p.Func(PkgG, "ReadGenome")
	consumers := CallsTo(fn, rg)
	if len(consumers) != 1 {
		r.Undecided(label+".reframe", p.Pos(fn.Pos()), fmt.Sprintf("%d ReadGenome calls", len(consumers)))
		return
	}
	// the buffer: the stream of the genome reader
	var bufNew *ssa.Call
	Instrs(fn, func(_ *ssa.BasicBlock, _ int, in ssa.Instruction) {
		if ci, ok := in.(*ssa.Call); ok {
			if n, _ := calleeName(&ci.Call); n == "bytes.NewBufferString" || n == "bytes.NewBuffer" {
				bufNew = ci
			}
		}
	})
	if bufNew == nil {
		r.Undecided(label+".reframe", p.Pos(fn.Pos()), "cannot find the re-framing buffer")
		return
	}
	isBuf := func(v ssa.Value) bool {
		t := tm.Of(v)
		ok := false
		t.Walk(func(x *Term) bool {
			if x.V == ssa.Value(bufNew) {
				ok = true
			}
			return true
		})
		return ok
	}
	r.Check(isBuf(consumers[0].Common().Args[0]), label+".reframe.consumer", p.Pos(consumers[0].Pos()), "ReadGenome reads the re-framed buffer", "ReadGenome is not fed with the re-framed buffer")
	// the id the genome gets: ReadGenome installs its id argument, so that argument is the number parsed (faithfully, in
	// decimal) from the rest of a split line - the text behind the keyword of the genomestart line; resets to a constant
	// between two genomes are the only other values the variable may carry
	{
		idT := tm.Of(consumers[0].Common().Args[1])
		okID, whyID := false, "the id passed to ReadGenome ("+idT.String()+") is never a number parsed from the file"
		for _, a := range idT.Alternatives() {
			if a.Op == "const" || a.Op == "loop" {
				continue
			}
			src := a
			if src.Op == "extract" && src.Idx == 0 && len(src.Args) == 1 {
				src = src.Args[0]
			}
			isParse := src.Op == "call" && (src.Name == "strconv.Atoi" || src.Name == "strconv.ParseInt") && len(src.Args) >= 1
			rest := false
			if isParse {
				if e := src.Args[0]; e.Op == "elem" && len(e.Args) == 2 && e.Args[1].String() == "1" && e.Args[0].Op == "call" && e.Args[0].Name == "strings.SplitN" {
					rest = true
				}
			}
			if !isParse || !rest {
				okID, whyID = false, "the id passed to ReadGenome can be "+a.String()+", not the number behind the keyword of the genomestart line"
				break
			}
			if n := narrowingParsers(a, types.Typ[types.Int]); len(n) > 0 {
				okID, whyID = false, "the genome id: "+strings.Join(n, "; ")
				break
			}
			okID = true
		}
		r.Check(okID, label+".genome-id", p.Pos(consumers[0].Pos()), "the id handed to ReadGenome is the number parsed from the rest of the genomestart line", whyID)
	}
	// the buffer owns its memory: NewBufferString copies the string; NewBuffer(b) builds the buffer ON b, so b must be
	// storage made for it (a conversion from a string, make, a copy appended to an empty slice). A buffer built on
	// somebody else's bytes (the scanner's line) is rewritten by its owner while the genome is being collected, and
	// the writes into the buffer run over the owner's data.
	if n, _ := calleeName(&bufNew.Call); n == "bytes.NewBuffer" {
		ok, why := ownedBytes(tm, bufNew.Call.Args[0])
		r.Check(ok, label+".reframe.private", p.Pos(bufNew.Pos()), "the re-framing buffer is built on storage of its own",
			"the re-framing buffer is built on bytes it does not own ("+why+"): the owner reuses that memory while the genome is still being collected, and writes into the buffer overwrite the owner's data")
	} else {
		r.OK(label+".reframe.private", p.Pos(bufNew.Pos()), "the re-framing buffer holds a copy of its initial text")
	}
	// write sites: fmt print calls on the buffer and the buffer's own Write* methods
	type wsite struct {
		in      ssa.Instruction
		newline bool // the text written ends the line
		startNL bool // the text written starts with a line break
		what    string
		ops     []*Term // the concatenated operands of the text, when known
	}
	var sites []wsite
	// initial content
	it := tm.Of(bufNew.Call.Args[0])
	initNL, initWhat := false, it.String()
	if it.Op == "call" && it.Name == "fmt.Sprintf" {
		for _, fc := range calls {
			if fc.Call.Value() != nil && ssa.Value(fc.Call.Value()) == it.V {
				initNL, initWhat = strings.HasSuffix(fc.Format, "\n"), fmt.Sprintf("Sprintf(%q)", fc.Format)
				items := verbsOf(parseFormat(fc.Format))
				r.Check(strings.HasPrefix(fc.Format, "genomestart ") && len(items) == 1 && (items[0].Verb == 's' || items[0].Verb == 'v' || items[0].Verb == 'd'), label+".reframe.header", p.Pos(fc.Call.Pos()), "the genomestart line is rebuilt from the rest of the original line", "the re-framed header is "+fc.Format)
			}
		}
	} else if s, ok := constString(bufNew.Call.Args[0]); ok {
		initNL = s == "" || strings.HasSuffix(s, "\n")
	} else if ops := concatOperands(it); len(ops) > 1 {
		// "genomestart " + rest + "\n"
		first, _ := termString(ops[0])
		last, okL := termString(ops[len(ops)-1])
		initNL = okL && strings.HasSuffix(last, "\n")
		nonConst := 0
		for _, o := range ops {
			if _, isC := termString(o); !isC {
				nonConst++
			}
		}
		r.Check(strings.HasPrefix(first, "genomestart ") && nonConst == 1, label+".reframe.header", p.Pos(bufNew.Pos()), "the genomestart line is rebuilt from the rest of the original line", "the re-framed header is "+it.String())
	}
	sites = append(sites, wsite{in: bufNew, newline: initNL, what: "initial content " + initWhat})
	for _, fc := range calls {
		if fc.Stream == nil || !isBuf(fc.Stream) {
			continue
		}
		nl := fc.Kind == "println" || (fc.HasFormat && strings.HasSuffix(fc.Format, "\n"))
		sites = append(sites, wsite{in: fc.Call, newline: nl, startNL: fc.HasFormat && strings.HasPrefix(fc.Format, "\n"), what: fmt.Sprintf("F%s %q", fc.Kind, fc.Format)})
	}
	Instrs(fn, func(_ *ssa.BasicBlock, _ int, in ssa.Instruction) {
		ci, ok := in.(ssa.CallInstruction)
		if !ok || len(ci.Common().Args) != 2 || !isBuf(ci.Common().Args[0]) {
			return
		}
		n, _ := calleeName(ci.Common())
		arg := tm.Of(ci.Common().Args[1])
		switch n {
		case "bytes.Buffer.WriteByte", "bytes.Buffer.WriteRune":
			isNL := arg.Op == "const" && arg.Name == "10"
			sites = append(sites, wsite{in: in, newline: isNL, startNL: isNL, what: n + "(" + arg.String() + ")"})
		case "bytes.Buffer.WriteString", "bytes.Buffer.Write":
			for arg.Op == "conv" { // []byte(s)
				arg = arg.Args[0]
			}
			ops := concatOperands(arg)
			first, okF := termString(ops[0])
			last, okL := termString(ops[len(ops)-1])
			sites = append(sites, wsite{in: in, newline: okL && strings.HasSuffix(last, "\n"), startNL: okF && strings.HasPrefix(first, "\n"), what: n + "(" + arg.String() + ")", ops: ops})
		}
	})
	r.Floor("writes into the re-framing buffer", len(sites), 3)
	for _, s := range sites {
		if s.newline {
			r.OK(label+".reframe.line:"+p.Pos(s.in.Pos()), p.Pos(s.in.Pos()), s.what+" ends the line")
			continue
		}
		// the next thing written must be the line break (a write that starts with one); nothing else may follow before the
		// buffer is consumed
		others := map[ssa.Instruction]bool{}
		breaks := map[ssa.Instruction]bool{}
		for _, o := range sites {
			if o.in == s.in {
				continue
			}
			if o.startNL {
				breaks[o.in] = true
			} else {
				others[o.in] = true
			}
		}
		path := FindPath(p, PathQuery{Fn: fn, StartAfter: s.in, FlagBlind: true,
			Target: func(in ssa.Instruction) bool { return others[in] },
			Avoid:  func(in ssa.Instruction) bool { return in == consumers[0] || breaks[in] }})
		r.Check(path == nil, label+".reframe.line:"+p.Pos(s.in.Pos()), p.Pos(s.in.Pos()), s.what+" has no newline but is always followed by a line break or by the genome reader",
			s.what+" does not end in a newline and another write into the buffer can follow before the genome reader consumes it: the next line is glued to this one and dropped by the line-oriented reader", path...)
	}
	// lines that are neither header nor trailer nor comment are copied verbatim
	isLine := func(t *Term) bool {
		for t.Op == "conv" {
			t = t.Args[0]
		}
		return t.Op == "call" && (t.Name == "bufio.Scanner.Text" || t.Name == "bufio.Scanner.Bytes")
	}
	verb := false
	for _, fc := range calls {
		if fc.Kind == "println" && fc.Stream != nil && isBuf(fc.Stream) && len(fc.Args) == 1 {
			if t := tm.Of(fc.Args[0]); t.Op == "call" && t.Name == "bufio.Scanner.Text" {
				verb = true
			}
		}
	}
	for _, s := range sites {
		// buf.WriteString(line) / buf.Write(line) [+ "\n"]; the line break is decided by reframe.line above
		if len(s.ops) == 0 || !isLine(s.ops[0]) {
			continue
		}
		if len(s.ops) == 1 {
			verb = true
		} else if k, isC := termString(s.ops[1]); len(s.ops) == 2 && isC && k == "\n" {
			verb = true
		}
	}
	r.Check(verb, label+".reframe.copy", p.Pos(fn.Pos()), "record lines are copied verbatim", "record lines are not copied verbatim into the re-framed genome")
	// each restored genome becomes one organism appended in file order
	no := p.Func(PkgG, "NewOrganism")
	okOrg := false
	for _, ci := range CallsTo(fn, no) {
		a := ci.Common().Args
		if ex, ok := a[1].(*ssa.Extract); ok && ex.Tuple == consumers[0].Value() && ex.Index == 0 {
			if res := firstResult(ci.(*ssa.Call)); res != nil {
				var blocks []*ssa.BasicBlock
				blocks = append(blocks, fn.Blocks...)
				okOrg = appendedField(tm, blocks, res) == "Organisms"
			}
		}
	}
	r.Check(okOrg, label+".organisms", p.Pos(fn.Pos()), "every restored genome is wrapped in an organism appended to Organisms", "a restored genome does not end up as an organism appended to the population")
	// writer: every organism's genome, in order
	wfn := p.Func(PkgG, "Population.Write")
	wtm := NewTermer(wfn)
	okW := false
	for _, ci := range CallsTo(wfn, p.Func(PkgG, "Genome.Write")) {
		t := wtm.Of(ci.Common().Args[0])
		if t.Op == "field" && t.Name == "Genotype" && t.Args[0].Op == "elem" && t.Args[0].Args[0].String() == "recv.Organisms" && InnermostLoop(Loops(wfn), ci.Block()) != nil {
			okW = true
		}
	}
	r.Check(okW, label+".write", p.Pos(wfn.Pos()), "Population.Write writes the genome of every organism in order", "Population.Write does not write recv.Organisms[i].Genotype for every i")
}

// ---------------------------------------------------------------------------
// gob sequences

type gobItem struct {
	kind   string // field | len | each | nested | genome
	name   string
	callee string
	guards []string
	in     ssa.Instruction
	sub    int                      // position within the run of values one table-loop call encodes (robust_c15.go), else 0
	loop   *Loop                    // the table loop of such a call, else nil
	errOut map[*ssa.BasicBlock]bool // blocks reachable after that loop was left on an encoding error
}

func (g gobItem) String() string {
	s := g.kind + ":" + g.name
	if g.callee != "" {
		s += "(" + g.callee + ")"
	}
	if len(g.guards) > 0 {
		s += " if " + strings.Join(g.guards, ",")
	}
	return s
}

// gobSeq extracts the ordered wire items of an Encode/Decode function.
// subj: for encoders the parameter index of the encoded object; for decoders
// either a parameter index or (subjAlloc) the local object being filled.
func (c *c15) gobSeq(fn *ssa.Function, enc bool, subjIdx int) ([]gobItem, string) {
	tm := NewTermer(fn)
	loops := Loops(fn)
	isSubj := func(t *Term) bool {
		if subjIdx >= 0 {
			return isParamIdx(t, subjIdx)
		}
		return t.Op == "new" // the local object under construction
	}
	subjPath := func(t *Term) (string, bool) {
		for t.Op == "iface" {
			t = t.Args[0]
		}
		b, path := t.FieldPath()
		if b != nil && isSubj(b) && len(path) > 0 {
			return strings.Join(path, "."), true
		}
		return "", false
	}
	guardsOf := func(in ssa.Instruction) []string {
		var out []string
		for _, g := range Guards(in.Block()) {
			// the fact `subj.F != nil` holds here, however the test is spelled
			if gx, gy, op, okc := c15HeldFact(tm, g); okc && (op == token.NEQ || op == token.EQL) && gy.Op == "nil" {
				if ps, ok := subjPath(gx); ok {
					if op == token.NEQ {
						out = append(out, "nonnil:"+ps)
					} else {
						out = append(out, "isnil:"+ps) // performed only when the field is nil (an inverted presence test)
					}
				}
			}
		}
		sort.Strings(out)
		return out
	}
	// decoders: role of each local scanned from the wire
	localRole := func(al *ssa.Alloc) (string, string) {
		for _, ref := range *al.Referrers() {
			u, ok := ref.(*ssa.UnOp)
			if !ok || u.Op != token.MUL {
				continue
			}
			for _, use := range *u.Referrers() {
				switch x := use.(type) {
				case *ssa.MakeSlice:
					var refs []ssa.Instruction
					refs = append(refs, *x.Referrers()...)
					for _, mr := range *x.Referrers() {
						if ct, ok := mr.(*ssa.ChangeType); ok {
							refs = append(refs, *ct.Referrers()...)
						}
					}
					for _, mr := range refs {
						if st, ok := mr.(*ssa.Store); ok {
							if ps, ok := subjPath(tm.Of(st.Addr)); ok {
								return "len", ps
							}
						}
					}
				case *ssa.Call:
					if cal := x.Call.StaticCallee(); cal != nil && cal.Name() == "ReadGenome" && len(x.Call.Args) == 2 && x.Call.Args[1] == ssa.Value(u) {
						return "field", "Genotype.Id"
					}
					if n, _ := calleeName(&x.Call); n == "bytes.NewBuffer" || n == "bytes.NewReader" {
						return "genome", "Genotype"
					}
				}
			}
		}
		return "", ""
	}
	var items []gobItem
	why := ""
	Instrs(fn, func(b *ssa.BasicBlock, _ int, in ssa.Instruction) {
		ci, ok := in.(*ssa.Call)
		if !ok {
			return
		}
		name, _ := calleeName(&ci.Call)
		inLoop := InnermostLoop(loops, b)
		switch {
		case enc && (name == "gob.Encoder.Encode" || name == "gob.Encoder.EncodeValue"):
			x := tm.Of(ci.Call.Args[1])
			if inLoop != nil {
				// table form: `for _, v := range []interface{}{subj.A, subj.B, ..} { if err := enc.EncodeValue(reflect.ValueOf(v)); err != nil { return err } }`
				// is the run of statements encoding subj.A, subj.B, .. in this order
				operand := ci.Call.Args[1]
				if name == "gob.Encoder.EncodeValue" {
					operand = nil
					if vc, isCall := ci.Call.Args[1].(*ssa.Call); isCall && len(vc.Call.Args) == 1 {
						if vn, _ := calleeName(&vc.Call); vn == "reflect.ValueOf" {
							operand = vc.Call.Args[0]
						}
					}
				}
				if operand != nil {
					if vals, errExits, isTab := c15TableLoop(inLoop, ci, operand); isTab {
						if len(OuterLoops(loops, inLoop.Header)) != 1 {
							why = "a value table is encoded inside an enclosing loop"
							return
						}
						gs := guardsOf(in)
						errOut := c15ReachableFrom(errExits)
						for k, v := range vals {
							xv := tm.Of(v)
							for xv.Op == "iface" {
								xv = xv.Args[0]
							}
							it := gobItem{in: in, guards: gs, sub: k, loop: inLoop, errOut: errOut}
							if ps, ok := subjPath(xv); ok {
								it.kind, it.name = "field", ps
							} else if xv.Op == "len" {
								if ps, ok := subjPath(xv.Args[0]); ok {
									it.kind, it.name = "len", ps
								}
							}
							if it.kind == "" {
								why = "encodes " + xv.String() + " (entry " + strconv.Itoa(k) + " of a value table), which is not a field of the record"
								return
							}
							items = append(items, it)
						}
						return
					}
				}
			}
			if name == "gob.Encoder.EncodeValue" {
				if x.Op == "call" && x.Name == "reflect.ValueOf" {
					x = x.Args[0]
				} else {
					why = "EncodeValue of " + x.String()
					return
				}
			}
			for x.Op == "iface" {
				x = x.Args[0]
			}
			it := gobItem{in: in, guards: guardsOf(in)}
			if ps, ok := subjPath(x); ok {
				it.kind, it.name = "field", ps
			} else if x.Op == "len" {
				if ps, ok := subjPath(x.Args[0]); ok {
					it.kind, it.name = "len", ps
				}
			} else if x.Op == "call" && x.Name == "bytes.Buffer.Bytes" {
				// the buffer a genome was written to
				for _, gwc := range CallsTo(fn, c.p.Func(PkgG, "Genome.Write")) {
					if stripPtr(gwc.Common().Args[1]) == stripPtr(ci.Call.Args[1].(*ssa.MakeInterface).X.(*ssa.Call).Call.Args[0]) {
						if ps, ok := subjPath(tm.Of(gwc.Common().Args[0])); ok && instrBefore(gwc, in) {
							it.kind, it.name = "genome", ps
						}
					}
				}
			}
			if it.kind == "" {
				why = "encodes " + x.String() + ", which is not a field of the record"
				return
			}
			if inLoop != nil {
				why = "a scalar is encoded inside a loop"
			}
			items = append(items, it)
		case !enc && name == "gob.Decoder.Decode":
			target := ci.Call.Args[1]
			if mi, ok := target.(*ssa.MakeInterface); ok {
				target = mi.X
			}
			it := gobItem{in: in, guards: guardsOf(in)}
			if al, ok := target.(*ssa.Alloc); ok {
				it.kind, it.name = localRole(al)
			} else if ps, ok := subjPath(tm.Of(target)); ok {
				it.kind, it.name = "field", ps
			}
			if it.kind == "" {
				why = "decodes into " + tm.Of(target).String() + ", which is neither a field of the record nor a length/id/genome local"
				return
			}
			items = append(items, it)
		default:
			cal := ci.Call.StaticCallee()
			if cal == nil || !InRepo(cal) {
				return
			}
			cn := cal.Name()
			isNested := (enc && (cn == "Encode" || cn == "encodeOrganism")) || (!enc && (cn == "Decode" || cn == "decodeOrganism"))
			if !isNested {
				return
			}
			it := gobItem{in: in, guards: guardsOf(in), callee: recvTypeName(cal) + cn}
			if enc {
				var obj *Term
				if cal.Signature.Recv() != nil {
					obj = tm.Of(ci.Call.Args[0])
				} else {
					obj = tm.Of(ci.Call.Args[1])
				}
				if obj.Op == "un" && obj.Name == "&" {
					obj = obj.Args[0]
				}
				if obj.Op == "elem" {
					if ps, ok := subjPath(obj.Args[0]); ok && inLoop != nil {
						it.kind, it.name = "each", ps
					}
				} else if ps, ok := subjPath(obj); ok {
					it.kind, it.name = "nested", ps
				}
			} else {
				// where does the decoded object go?
				if cal.Signature.Recv() != nil {
					// local.Decode(dec): the local is later stored into subj.F[i]
					if ia, ok := ci.Call.Args[0].(*ssa.IndexAddr); ok {
						// subj.F[i].Decode(dec): decoded in place (also through a local list that becomes subj.F as a whole)
						ps, ok := subjPath(tm.Of(ia.X))
						if !ok {
							ps = c15LocalListOfSubject(tm, ia.X, subjPath)
							ok = ps != ""
						}
						if ok && inLoop != nil {
							if idx, _, okc := countsUp(inLoop); okc && ia.Index == idx {
								it.kind, it.name = "each", ps
							}
						}
					} else if al, ok := ci.Call.Args[0].(*ssa.Alloc); ok {
						for _, ref := range *al.Referrers() {
							if u, ok := ref.(*ssa.UnOp); ok && u.Op == token.MUL {
								for _, use := range *u.Referrers() {
									if st, ok := use.(*ssa.Store); ok {
										if ia, ok := st.Addr.(*ssa.IndexAddr); ok {
											if ps, ok := subjPath(tm.Of(ia.X)); ok && inLoop != nil {
												it.kind, it.name = "each", ps
											}
										}
									}
								}
							}
						}
					}
				} else if res := firstResult(ci); res != nil {
					for _, ref := range *res.Referrers() {
						if st, ok := ref.(*ssa.Store); ok {
							if ps, ok := subjPath(tm.Of(st.Addr)); ok {
								it.kind, it.name = "nested", ps
							}
						}
					}
				}
			}
			if it.kind == "" {
				why = "nested " + cn + " call whose object is not a field (or list element) of the record"
				return
			}
			items = append(items, it)
		}
	})
	if why != "" {
		return nil, why
	}
	// order by dominance. The values of a table loop are ordered by their table index; an operation outside the loop comes
	// after all of them when it can only be reached by leaving the loop (the header dominates it) and not by the error exit.
	before := func(a, b gobItem) bool {
		if a.in == b.in {
			return a.sub < b.sub
		}
		if a.loop != nil && !a.loop.Blocks[b.in.Block()] && a.loop.Header.Dominates(b.in.Block()) {
			return true
		}
		return instrBefore(a.in, b.in)
	}
	for i := range items {
		for j := range items {
			if i == j {
				continue
			}
			if items[i].loop != nil && items[i].in != items[j].in && items[i].errOut[items[j].in.Block()] {
				return nil, "a wire operation is reachable after the value-table loop was left on an encoding error"
			}
			if !before(items[i], items[j]) && !before(items[j], items[i]) {
				return nil, "two wire operations are not ordered by dominance (branching encoders are not supported)"
			}
		}
	}
	sort.SliceStable(items, func(i, j int) bool { return before(items[i], items[j]) })
	return items, ""
}

// countsUp: the loop runs its counter over 0, 1, .. while counter < bound. Returns the value that is the counter
// inside the body and the bound. Two forms: `for i := 0; i < B; i++` (phi[0, phi+1], test phi < B) and the
// index form of `for i := range xs` (phi[-1, inc], inc = phi+1, test inc < len). The test is read as the fact
// that holds on the edge that stays in the loop (CmpFact), so `B > i`, `!(i >= B)` and a swapped branch are the same test.
func countsUp(l *Loop) (idx ssa.Value, bound ssa.Value, ok bool) {
	iff, isIf := l.Header.Instrs[len(l.Header.Instrs)-1].(*ssa.If)
	if !isIf || l.Blocks[l.Header.Succs[0]] == l.Blocks[l.Header.Succs[1]] {
		return nil, nil, false
	}
	cx, cy, op, okc := CmpFact(iff.Cond, l.Blocks[l.Header.Succs[0]])
	if !okc {
		return nil, nil, false
	}
	switch op {
	case token.LSS:
	case token.GTR:
		cx, cy = cy, cx
	default:
		return nil, nil, false
	}
	isOne := func(v ssa.Value) bool {
		k, isC := v.(*ssa.Const)
		return isC && k.Value != nil && k.Value.ExactString() == "1"
	}
	plusOne := func(v ssa.Value, ph *ssa.Phi) bool {
		bo, isBo := v.(*ssa.BinOp)
		if !isBo || bo.Op != token.ADD {
			return false
		}
		return (bo.X == ssa.Value(ph) && isOne(bo.Y)) || (bo.Y == ssa.Value(ph) && isOne(bo.X))
	}
	phiOK := func(ph *ssa.Phi, init string, next ssa.Value) bool {
		if ph.Block() != l.Header {
			return false
		}
		okInit, okStep := false, false
		for i, e := range ph.Edges {
			if !l.Blocks[ph.Block().Preds[i]] {
				k, isC := e.(*ssa.Const)
				if !isC || k.Value == nil || k.Value.ExactString() != init {
					return false
				}
				okInit = true
			} else {
				if next != nil {
					if e != next {
						return false
					}
				} else if !plusOne(e, ph) {
					return false
				}
				okStep = true
			}
		}
		return okInit && okStep
	}
	switch x := cx.(type) {
	case *ssa.Phi:
		if phiOK(x, "0", nil) {
			return x, cy, true
		}
	case *ssa.BinOp:
		if x.Op == token.ADD && x.Block() == l.Header {
			for _, o := range []ssa.Value{x.X, x.Y} {
				if ph, isPhi := o.(*ssa.Phi); isPhi && plusOne(x, ph) && phiOK(ph, "-1", x) {
					return x, cy, true
				}
			}
		}
	}
	return nil, nil, false
}

// stripAmp removes the `&` wrappers the termer puts around local copies (t := xs[i]).
func stripAmp(t *Term) *Term {
	for t != nil && t.Op == "un" && t.Name == "&" {
		t = t.Args[0]
	}
	return t
}

func recvTypeName(fn *ssa.Function) string {
	if rv := fn.Signature.Recv(); rv != nil {
		if n, ok := deref(rv.Type()).(*types.Named); ok {
			return n.Obj().Name() + "."
		}
	}
	return ""
}

func (c *c15) gobPairs() {
	p, r := c.p, c.r
	type pr struct {
		label      string
		enc, dec   string
		encS, decS int
	}
	pairs := []pr{
		{"gob.Experiment", "Experiment.Encode", "Experiment.Decode", 0, 0},
		{"gob.Trial", "Trial.Encode", "Trial.Decode", 0, 0},
		{"gob.Generation", "Generation.Encode", "Generation.Decode", 0, 0},
		{"gob.organism", "encodeOrganism", "decodeOrganism", 1, -1},
	}
	nestedPair := map[string]string{"Trial.Encode": "Trial.Decode", "Generation.Encode": "Generation.Decode", "encodeOrganism": "decodeOrganism"}
	// guards accepted on the encoding side without a counterpart, one symbol each, with the reason
	acceptedGuard := map[string]string{
		"gob.organism/nonnil:Genotype": "an organism always carries a genotype (NewOrganism dereferences it), so the guard is never false for a recorded champion",
	}
	for _, x := range pairs {
		ef, df := p.Func(PkgE, x.enc), p.Func(PkgE, x.dec)
		r.Fn(FuncName(ef), FuncName(df))
		es, why1 := c.gobSeq(ef, true, x.encS)
		ds, why2 := c.gobSeq(df, false, x.decS)
		if why1 != "" || why2 != "" {
			r.Undecided(x.label+".sequence", p.Pos(ef.Pos()), strings.TrimSpace(x.enc+": "+why1+" "+x.dec+": "+why2))
			continue
		}
		r.Check(len(es) == len(ds), x.label+".length", p.Pos(df.Pos()), fmt.Sprintf("%d values encoded, %d decoded", len(es), len(ds)),
			fmt.Sprintf("%s encodes %d values but %s decodes %d: %v vs %v", x.enc, len(es), x.dec, len(ds), es, ds))
		for i := 0; i < len(es) && i < len(ds); i++ {
			e, d := es[i], ds[i]
			cons := fmt.Sprintf("%s.#%d:%s", x.label, i, e.name)
			if e.kind != d.kind || e.name != d.name {
				r.Bad(cons, p.Pos(d.in.Pos()), fmt.Sprintf("position %d of the stream: %s writes %s, %s reads %s", i, x.enc, e, x.dec, d))
				continue
			}
			if e.callee != "" && nestedPair[e.callee] != d.callee {
				r.Bad(cons, p.Pos(d.in.Pos()), fmt.Sprintf("position %d: encoded by %s, decoded by %s", i, e.callee, d.callee))
				continue
			}
			// guards
			bad := ""
			for _, g := range e.guards {
				has := false
				for _, dg := range d.guards {
					if dg == g {
						has = true
					}
				}
				if !has {
					if _, ok := acceptedGuard[x.label+"/"+g]; ok {
						continue
					}
					bad = g
				}
			}
			if bad != "" {
				cond := strings.TrimPrefix(bad, "nonnil:") + " != nil"
				if strings.HasPrefix(bad, "isnil:") {
					cond = strings.TrimPrefix(bad, "isnil:") + " == nil"
				}
				cons := x.label + ".guard:" + e.name
				if strings.HasPrefix(bad, "isnil:") {
					cons = x.label + ".guard-inverted:" + e.name // (a different fact than a presence guard without counterpart)
				}
				r.Bad(cons, p.Pos(e.in.Pos()), fmt.Sprintf("%s is encoded only when %s, but decoded unconditionally: a record without it cannot be read back (the decoder runs into the next value or EOF)", e.name, cond))
				continue
			}
			for _, g := range d.guards {
				has := false
				for _, eg := range e.guards {
					if eg == g {
						has = true
					}
				}
				if !has {
					bad = g
				}
			}
			if bad != "" {
				r.Bad(x.label+".guard:"+e.name, p.Pos(d.in.Pos()), fmt.Sprintf("%s is decoded only under %s but always encoded", e.name, bad))
				continue
			}
			r.OK(cons, p.Pos(d.in.Pos()), fmt.Sprintf("position %d: %s on both sides", i, e))
		}
		// loops: encoder ranges over the whole list; decoder runs 0..n-1 with n the decoded length
		for _, it := range ds {
			if it.kind != "each" {
				continue
			}
			l := InnermostLoop(Loops(df), it.in.Block())
			ok := false
			if l != nil {
				if _, bound, okc := countsUp(l); okc {
					// bound = the decoded length local, or the length of the list that was allocated with that length
					isLenLocal := func(v ssa.Value) bool {
						u, isU := v.(*ssa.UnOp)
						if !isU {
							return false
						}
						al, isA := u.X.(*ssa.Alloc)
						if !isA {
							return false
						}
						for _, li := range ds {
							if li.kind == "len" && li.name == it.name {
								if tgt := li.in.(*ssa.Call).Call.Args[1]; stripPtr(tgt) == ssa.Value(al) {
									return true
								}
							}
						}
						return false
					}
					if isLenLocal(bound) {
						ok = true
					} else if ms, isMS := c15LenOfMake(bound); isMS && isLenLocal(ms.Len) {
						// len(list), list := make(T, n) with n the decoded length (a local list that becomes subj.F, see gobSeq)
						ok = true
					} else if bt := NewTermer(df).Of(bound); bt.Op == "len" {
						// len(subj.F) where every store into subj.F is make(T, n) with n the decoded length
						base, path := bt.Args[0].FieldPath()
						if base != nil && strings.Join(path, ".") == it.name && ((x.decS >= 0 && isParamIdx(base, x.decS)) || (x.decS < 0 && base.Op == "new")) {
							if fobj, isVar := bt.Args[0].Obj.(*types.Var); isVar {
								sts := FieldStores(df, fobj)
								ok = len(sts) > 0
								for _, st := range sts {
									v := st.Val
									if ct, isCT := v.(*ssa.ChangeType); isCT {
										v = ct.X
									}
									ms, isMS := v.(*ssa.MakeSlice)
									if !isMS || !isLenLocal(ms.Len) || !instrBefore(st, it.in) {
										ok = false
									}
								}
							}
						}
					}
				}
			}
			r.Check(ok, x.label+".each:"+it.name, p.Pos(it.in.Pos()), "decoded for i = 0..n-1 with n the decoded length", "the list "+it.name+" is not decoded for every index 0..n-1 of the decoded length")
		}
		for _, it := range es {
			if it.kind != "each" {
				continue
			}
			l := InnermostLoop(Loops(ef), it.in.Block())
			ok := false
			if l != nil {
				// the loop counts 0..len(subj.F)-1 (any spelling of the test)
				if _, bound, okc := countsUp(l); okc {
					bt := NewTermer(ef).Of(bound)
					ok = bt.Op == "len" && strings.HasSuffix(bt.Args[0].String(), "."+it.name)
				}
			}
			r.Check(ok, x.label+".each-enc:"+it.name, p.Pos(it.in.Pos()), "every element is encoded", "not every element of "+it.name+" is encoded")
		}
	}
	r.Floor("gob encode/decode pairs", len(pairs), 4)
	// Write/Read wrap Encode/Decode
	for _, x := range [][3]string{{"Experiment.Write", "Experiment.Encode", "gob.NewEncoder"}, {"Experiment.Read", "Experiment.Decode", "gob.NewDecoder"}} {
		fn := p.Func(PkgE, x[0])
		ok := len(CallsTo(fn, p.Func(PkgE, x[1]))) == 1 && len(CallsNamed(fn, x[2])) == 1
		r.Check(ok, x[0], p.Pos(fn.Pos()), x[0]+" delegates to "+x[1], x[0]+" does not delegate to "+x[1]+" over a fresh gob stream")
	}
}

// ---------------------------------------------------------------------------
// fast solver model

func (c *c15) solverModel() {
	p, r := c.p, c.r
	label := "fmns"
	mk := p.Func(PkgN, "newFastModularNetworkSolverData")
	rd := p.Func(PkgN, "ReadFMNSModel")
	ctor := p.Func(PkgN, "NewFastModularNetworkSolver")
	wm := p.Func(PkgN, "FastModularNetworkSolver.WriteModel")
	r.Fn(FuncName(mk), FuncName(rd), FuncName(ctor), FuncName(wm))
	// WriteModel encodes the holder built from the receiver
	wtm := NewTermer(wm)
	okW := false
	for _, ci := range CallsNamed(wm, "json.Encoder.Encode") {
		t := wtm.Of(ci.Common().Args[1])
		for t.Op == "iface" {
			t = t.Args[0]
		}
		okW = isCallTo(t, mk) && t.Args[0].Op == "recv"
	}
	r.Check(okW, label+".WriteModel", p.Pos(wm.Pos()), "WriteModel JSON-encodes the holder built from the solver", "WriteModel does not encode newFastModularNetworkSolverData(receiver)")
	dsm := c.sums.Ctor(mk)
	csm := c.sums.Ctor(ctor)
	if dsm.Why != "" || csm.Why != "" {
		r.Undecided(label+".summaries", p.Pos(mk.Pos()), "holder: "+dsm.Why+" constructor: "+csm.Why)
		return
	}
	// holder field <- solver field
	holderOf := map[string]string{} // solver field -> holder field
	for f, t := range dsm.Fields {
		if b, path := t.FieldPath(); b != nil && isParamIdx(b, 0) && len(path) == 1 {
			if prev, dup := holderOf[path[0]]; dup {
				r.Bad(label+".holder.dup:"+path[0], p.Pos(mk.Pos()), fmt.Sprintf("solver field %s is stored in two holder fields (%s, %s)", path[0], prev, f.Name()))
			}
			holderOf[path[0]] = f.Name()
		}
	}
	// element-wise holders: ActivationFunctions[i] = NodeActivator{v}, Modules = append(...)
	mtm := NewTermer(mk)
	listStores := map[*ssa.Store]string{} // element stores into a list of the holder -> holder field
	aligned := map[*ssa.Store]bool{}      // .. those that put the element built from n.<f>[i] at index i
	Instrs(mk, func(_ *ssa.BasicBlock, _ int, in ssa.Instruction) {
		st, ok := in.(*ssa.Store)
		if !ok {
			return
		}
		at := mtm.Of(st.Addr)
		vt := mtm.Of(st.Val)
		// el is an element of a list of the holder being built (its field, or a local list that becomes its field)
		ofHolder := func(el *Term) string {
			hf := c15HolderListField(mtm, el)
			if hf != "" && el.Args[0].Op == "field" && el.Args[0].Args[0].Op != "new" {
				return ""
			}
			return hf
		}
		if hf := ofHolder(at); hf != "" {
			listStores[st] = hf
		} else if at.Op == "field" && at.Args[0].Op == "elem" {
			if hf := ofHolder(at.Args[0]); hf != "" {
				listStores[st] = hf
			}
		}
		// data.<HF>[i] = NodeActivator{NodeActivation: n.<f>[i]} (the element is built in a temporary)
		if hf := c15HolderListField(mtm, at); hf != "" {
			if u, ok := st.Val.(*ssa.UnOp); ok {
				if tmp, ok := u.X.(*ssa.Alloc); ok {
					for _, ref := range *tmp.Referrers() {
						fa, ok := ref.(*ssa.FieldAddr)
						if !ok {
							continue
						}
						for _, r2 := range *fa.Referrers() {
							if st2, ok := r2.(*ssa.Store); ok && st2.Addr == fa {
								v2 := mtm.Of(st2.Val)
								if v2.Op == "elem" && v2.Args[0].Op == "field" && isParamIdx(v2.Args[0].Args[0], 0) && len(v2.Args) > 1 && v2.Args[1].V == at.Args[1].V {
									holderOf[v2.Args[0].Name] = hf + "[i]." + fieldOf(fa.X.Type(), fa.Field).Name()
									aligned[st] = true
								}
							}
						}
					}
				}
			}
		}
		// data.<HF>[i].<G> = n.<f>[i]: the element's field is set in place (same index value on both sides)
		if at.Op == "field" && at.Args[0].Op == "elem" && len(at.Args[0].Args) > 1 {
			el := at.Args[0]
			inHolder := el.Args[0].Op == "field" && el.Args[0].Args[0].Op == "new"
			hf := ""
			if inHolder {
				hf = el.Args[0].Name
			} else if el.Args[0].Op != "field" {
				hf = c15HolderListField(mtm, el) // a local list that becomes the holder field as a whole
			}
			if hf != "" && vt.Op == "elem" && vt.Args[0].Op == "field" && isParamIdx(vt.Args[0].Args[0], 0) && len(vt.Args) > 1 && vt.Args[1].V == el.Args[1].V {
				holderOf[vt.Args[0].Name] = hf + "[i]." + at.Name
				aligned[st] = true
			}
		}
	})
	// nothing else writes into the list that carries the activation types: an element written a second time (or at
	// another index) would replace what the aligned store saved
	if h := holderOf["activationFunctions"]; strings.Contains(h, "[i].") {
		hf := h[:strings.Index(h, "[i].")]
		for st, f := range listStores {
			if f == hf && !aligned[st] {
				r.Undecided(label+".activationFunctions.stores", p.Pos(st.Pos()), "an element of holder."+hf+" is also written by a store that is not `holder."+hf+"[i] <- activationFunctions[i]`")
			}
		}
	}
	// reader: constructor arguments and later stores, as holder fields
	rtm := NewTermer(rd)
	calls := CallsTo(rd, ctor)
	if len(calls) != 1 {
		r.Undecided(label+".reader", p.Pos(rd.Pos()), fmt.Sprintf("%d constructor calls in ReadFMNSModel", len(calls)))
		return
	}
	args := callArgTerms(rtm, calls[0].Common())
	holderPath := func(t *Term) string {
		// make([]T, 0, n) grown by append(list, data.F[i].G) / append(list, &T{..}) for every i
		if ph, isPhi := t.V.(*ssa.Phi); isPhi && isAppendBuilt(ph) {
			elem, src, idx, why := appendLoop(rd, rtm, ph)
			if why != "" || src.Op != "field" {
				return "?" + t.String()
			}
			hf := src.Name
			vt := rtm.Of(elem)
			if vt.Op == "field" {
				el := stripAmp(vt.Args[0])
				if el.Op == "elem" && el.Args[0].Op == "field" && el.Args[0].Name == hf && len(el.Args) > 1 && el.Args[1].V == idx {
					return hf + "[i]." + vt.Name
				}
			}
			if vt.Op == "new" || (vt.Op == "un" && vt.Name == "&") {
				return hf + "[i]{}"
			}
			return hf + "[?]"
		}
		// data.<F> where data is the decoded local
		for _, a := range t.Alternatives() {
			if a.Op == "nil" {
				continue
			}
			if a.Op == "field" && (a.Args[0].Op == "new" || a.Args[0].Op == "un" || a.Args[0].Op == "const") {
				return a.Name
			}
			// make([]T, len(data.F)) filled from data.F[i].NodeActivation
			if a.Op == "make" && len(a.Args) == 1 && a.Args[0].Op == "len" && a.Args[0].Args[0].Op == "field" {
				hf := a.Args[0].Args[0].Name
				for _, st := range elemStoresInto(rd, a.V) {
					vt := rtm.Of(st.Val)
					ia := st.Addr.(*ssa.IndexAddr)
					if vt.Op == "field" {
						el := stripAmp(vt.Args[0])
						if el.Op == "elem" && el.Args[0].Op == "field" && el.Args[0].Name == hf && len(el.Args) > 1 && el.Args[1].V == ia.Index {
							return hf + "[i]." + vt.Name
						}
					}
					if vt.Op == "new" || (vt.Op == "un" && vt.Name == "&") {
						return hf + "[i]{}"
					}
				}
				return hf + "[?]"
			}
		}
		return "?" + t.String()
	}
	restored := map[string]string{} // solver field -> holder field it is restored from
	for f, t := range csm.Fields {
		if t.Op == "param" && t.Idx < len(args) {
			restored[f.Name()] = holderPath(args[t.Idx])
		}
	}
	solver := calls[0].Value()
	Instrs(rd, func(_ *ssa.BasicBlock, _ int, in ssa.Instruction) {
		if st, ok := in.(*ssa.Store); ok {
			if fa, ok := st.Addr.(*ssa.FieldAddr); ok && fa.X == ssa.Value(solver) {
				restored[fieldOf(fa.X.Type(), fa.Field).Name()] = holderPath(rtm.Of(st.Val))
			}
		}
	})
	model := []string{"Id", "Name", "biasNeuronCount", "inputNeuronCount", "outputNeuronCount", "totalNeuronCount", "activationFunctions", "biasList", "connections"}
	for _, f := range model {
		r.FieldsChecked++
		h, okH := holderOf[f]
		rs, okR := restored[f]
		r.Check(okH && okR && h == rs, label+"."+f, p.Pos(rd.Pos()), fmt.Sprintf("%s -> holder.%s -> %s", f, h, f),
			fmt.Sprintf("solver field %s is saved in holder field %q but restored from %q", f, h, rs))
	}
	// a restored list reaches the constructor as decoded: nothing sorts, appends to or otherwise rewrites it in between
	var dataAlloc ssa.Value
	Instrs(rd, func(_ *ssa.BasicBlock, _ int, in ssa.Instruction) {
		if ci, ok := in.(ssa.CallInstruction); ok {
			if n, _ := calleeName(ci.Common()); n == "json.Decoder.Decode" {
				dataAlloc = stripPtr(ci.Common().Args[1])
			}
		}
	})
	if dataAlloc != nil {
		Instrs(rd, func(_ *ssa.BasicBlock, _ int, in ssa.Instruction) {
			u, ok := in.(*ssa.UnOp)
			if !ok || u.Op != token.MUL {
				return
			}
			fa, ok := u.X.(*ssa.FieldAddr)
			if !ok || fa.X != dataAlloc {
				return
			}
			if _, isSlice := u.Type().Underlying().(*types.Slice); !isSlice {
				return
			}
			fname := fieldOf(fa.X.Type(), fa.Field).Name()
			var follow func(v ssa.Value, depth int)
			follow = func(v ssa.Value, depth int) {
				if depth > 4 || v.Referrers() == nil {
					return
				}
				for _, ref := range *v.Referrers() {
					switch x := ref.(type) {
					case ssa.CallInstruction:
						cal := x.Common().StaticCallee()
						if cal == ctor {
							continue
						}
						if b, isB := x.Common().Value.(*ssa.Builtin); isB && (b.Name() == "len" || b.Name() == "cap") {
							continue
						}
						n, _ := calleeName(x.Common())
						r.Bad(label+".untouched:"+fname, p.Pos(x.Pos()), "the decoded list "+fname+" is handed to "+n+" before the solver is built: the restored solver does not see the list in the saved order/content (summation order changes the outputs)")
					case *ssa.MakeInterface:
						follow(x, depth+1)
					case *ssa.Phi:
						follow(x, depth+1)
					case *ssa.Slice:
						follow(x, depth+1)
					case *ssa.Store:
						if x.Val == v {
							if al, isAlloc := x.Addr.(*ssa.Alloc); !isAlloc {
								r.Bad(label+".untouched:"+fname, p.Pos(x.Pos()), "the decoded list "+fname+" is stored elsewhere before the solver is built")
							} else {
								// a local variable (possibly captured by a closure): follow what is read back from it
								for _, ar := range *al.Referrers() {
									if ld, isLd := ar.(*ssa.UnOp); isLd && ld.Op == token.MUL {
										follow(ld, depth+1)
									}
								}
							}
						}
					case *ssa.IndexAddr:
						for _, r2 := range *x.Referrers() {
							if st, isSt := r2.(*ssa.Store); isSt && st.Addr == ssa.Value(x) {
								r.Bad(label+".untouched:"+fname, p.Pos(st.Pos()), "an element of the decoded list "+fname+" is overwritten before the solver is built")
							}
						}
					}
				}
			}
			follow(u, 0)
		})
		r.OK(label+".untouched", p.Pos(rd.Pos()), "decoded lists are inspected for rewriting between decoding and construction")
	}
	// modules: element-wise struct mapping both ways
	c.solverModules(mk, rd, restored["modules"])
	// the element-wise copies out of the decoded holder run whenever the holder's lists are there: with every test of
	// len(holder.F) / holder.F against 0 / nil decided for a non-empty list, no path that returns without an error skips
	// one of the copy loops (`if len(data.Modules) > 0` inverted restores a solver without its modules)
	{
		rtm := NewTermer(rd)
		fixed := c15PresenceFacts(rd, rtm, func(t *Term) bool {
			b, path := t.FieldPath()
			return b != nil && b.Op == "new" && len(path) == 1
		})
		bad := ""
		var badPath []string
		rloops := Loops(rd)
		for _, l := range rloops {
			if len(OuterLoops(rloops, l.Header)) != 1 {
				continue
			}
			l := l
			if path := c15SuccessPath(p, c15SuccessQuery{fn: rd, fixed: fixed, explored: &r.PathsExplored, avoid: func(i ssa.Instruction) bool { return i.Block() == l.Header }}); path != nil && bad == "" {
				pos := firstBlockPos(l.Header)
				for b := range l.Blocks {
					if bp := firstBlockPos(b); bp.IsValid() && (!pos.IsValid() || bp < pos) {
						pos = bp
					}
				}
				bad, badPath = p.Pos(pos), path
			}
		}
		r.Check(bad == "", label+".lists-copied", p.Pos(rd.Pos()), "every copy loop over a list of the decoded holder runs when that list is not empty",
			"the loop at "+bad+" that copies a list of the decoded holder can be skipped although the list is not empty: that part of the solver is not restored", badPath...)
	}
	// derived field
	sn := csm.Fields[p.Field(PkgN, "FastModularNetworkSolver", "sensorNeuronCount")]
	r.Check(sn != nil && sn.Op == "bin" && sn.Name == "+" && ((sn.Args[0].String() == "p0" && sn.Args[1].String() == "p1") || (sn.Args[0].String() == "p1" && sn.Args[1].String() == "p0")),
		label+".sensorNeuronCount", p.Pos(ctor.Pos()), "sensor count = bias + input (derived, not read)", fmt.Sprintf("sensorNeuronCount is %v, expected bias + input neuron counts", sn))
	// JSON tags of the holder are distinct and exported
	holder := p.Named(PkgN, "fastModularNetworkSolverData").Underlying().(*types.Struct)
	tags := map[string]int{}
	for i := 0; i < holder.NumFields(); i++ {
		tag := holder.Tag(i)
		name := holder.Field(i).Name()
		if j := strings.Index(tag, `json:"`); j >= 0 {
			t := tag[j+6:]
			t = t[:strings.Index(t, `"`)]
			if k := strings.Index(t, ","); k >= 0 {
				t = t[:k]
			}
			if t != "" {
				name = t
			}
		}
		tags[name]++
		if !holder.Field(i).Exported() || name == "-" {
			r.Bad(label+".holder.unexported:"+holder.Field(i).Name(), p.Pos(holder.Field(i).Pos()), "holder field "+holder.Field(i).Name()+" is not visible to encoding/json")
		}
	}
	dups := []string{}
	for k, n := range tags {
		if n > 1 {
			dups = append(dups, k)
		}
	}
	sort.Strings(dups)
	r.Check(len(dups) == 0, label+".holder.tags", p.Pos(mk.Pos()), fmt.Sprintf("%d distinct JSON names", len(tags)), "JSON names used twice in the holder: "+strings.Join(dups, ", ")+" (encoding/json drops both)")
	// NodeActivator text form: inverse through the registry names (C15.5)
	mt, ut := p.Func(PkgN, "NodeActivator.MarshalText"), p.Func(PkgN, "NodeActivator.UnmarshalText")
	okM := len(CallsTo(mt, p.Func(PkgM, "NodeActivatorsFactory.ActivationNameFromType"))) == 1
	okU := false
	utm := NewTermer(ut)
	for _, st := range FieldStores(ut, p.Field(PkgN, "NodeActivator", "NodeActivation")) {
		v := utm.Of(st.Val)
		if v.Op == "extract" && v.Idx == 0 && strings.HasSuffix(v.Args[0].Name, "ActivationTypeFromName") {
			okU = true
		}
	}
	r.Check(okM && okU, label+".NodeActivator.text", p.Pos(mt.Pos()), "activation types travel as registry names", "NodeActivator's text form is not the registry name both ways")
}

func (c *c15) solverModules(mk, rd *ssa.Function, restoredFrom string) {
	p, r := c.p, c.r
	label := "fmns.modules"
	want := []string{"ActivationType", "InputIndexes", "OutputIndexes"}
	// writer: append(data.Modules, fastControlNodeData{ActivationType: {v.ActivationType}, InputIndexes: v.InputIndexes, ...}) for v in n.modules
	mtm := NewTermer(mk)
	wmap := map[string]string{}
	Instrs(mk, func(_ *ssa.BasicBlock, _ int, in ssa.Instruction) {
		st, ok := in.(*ssa.Store)
		if !ok {
			return
		}
		at, vt := mtm.Of(st.Addr), mtm.Of(st.Val)
		_, ap := at.FieldPath()
		vb, vp := vt.FieldPath()
		if len(ap) == 0 || len(vp) != 1 || vb == nil {
			return
		}
		// source must be an element of n.modules
		if vb.Op == "elem" && vb.Args[0].Op == "field" && vb.Args[0].Name == "modules" {
			wmap[ap[0]] = vp[0]
		}
	})
	// a holder element placed by index (make + data.Modules[i] = ...) sits at the index of the module it is built from
	// (append keeps the order by itself)
	var srcIdx []*ssa.IndexAddr
	Instrs(mk, func(_ *ssa.BasicBlock, _ int, in ssa.Instruction) {
		if ia, ok := in.(*ssa.IndexAddr); ok {
			if t := mtm.Of(ia.X); t.Op == "field" && t.Name == "modules" && isParamIdx(t.Args[0], 0) {
				srcIdx = append(srcIdx, ia)
			}
		}
	})
	mloops := Loops(mk)
	Instrs(mk, func(b *ssa.BasicBlock, _ int, in ssa.Instruction) {
		st, ok := in.(*ssa.Store)
		if !ok {
			return
		}
		ia, ok := st.Addr.(*ssa.IndexAddr)
		if !ok {
			return
		}
		// the list is the holder's field, or a local list that is installed as that field as a whole
		if t := mtm.Of(ia.X); !(t.Op == "field" && t.Name == "Modules" && t.Args[0].Op == "new") && c15LocalListField(mtm, ia.X) != "Modules" {
			return
		}
		l := InnermostLoop(mloops, b)
		same, other := 0, 0
		for _, si := range srcIdx {
			if l == nil || !l.Blocks[si.Block()] {
				continue
			}
			if si.Index == ia.Index {
				same++
			} else {
				other++
			}
		}
		r.Check(same > 0 && other == 0, label+".position", p.Pos(st.Pos()), "holder.Modules[i] is built from modules[i]",
			"a holder module is stored at an index that is not the index of the module it is built from: the modules are restored in another order")
	})
	rtm := NewTermer(rd)
	rmap := map[string]string{}
	Instrs(rd, func(_ *ssa.BasicBlock, _ int, in ssa.Instruction) {
		st, ok := in.(*ssa.Store)
		if !ok {
			return
		}
		fa, ok := st.Addr.(*ssa.FieldAddr)
		if !ok {
			return
		}
		if n, ok := deref(fa.X.Type()).(*types.Named); !ok || n.Obj().Name() != "FastControlNode" {
			return
		}
		vt := rtm.Of(st.Val)
		// (&data.Modules[i]).<F>[.NodeActivation]
		var chain []string
		x := vt
		for x != nil && x.Op == "field" {
			chain = append([]string{x.Name}, chain...)
			x = stripAmp(x.Args[0])
		}
		if x != nil && x.Op == "elem" && x.Args[0].Op == "field" && x.Args[0].Name == "Modules" && len(chain) >= 1 {
			rmap[fieldOf(fa.X.Type(), fa.Field).Name()] = chain[0]
		}
	})
	for _, f := range want {
		r.FieldsChecked++
		r.Check(wmap[f] == f && rmap[f] == f, label+"."+f, p.Pos(rd.Pos()), "module."+f+" saved and restored under the same holder field",
			fmt.Sprintf("module field %s: holder.%s <- module.%s on writing, module.%s <- holder.%s on reading", f, f, wmap[f], f, rmap[f]))
	}
	r.Check(strings.HasPrefix(restoredFrom, "Modules"), label+".list", p.Pos(rd.Pos()), "modules restored element-wise from holder.Modules", "the solver's modules are restored from "+restoredFrom)
}

// c15LenOfMake: v is len(s) of a list made here with make.
func c15LenOfMake(v ssa.Value) (*ssa.MakeSlice, bool) {
	cl, ok := v.(*ssa.Call)
	if !ok {
		return nil, false
	}
	if b, isB := cl.Call.Value.(*ssa.Builtin); !isB || b.Name() != "len" || len(cl.Call.Args) != 1 {
		return nil, false
	}
	ms, ok := stripPtr(cl.Call.Args[0]).(*ssa.MakeSlice)
	return ms, ok
}

// gobListsUntouched: see rule C15.13 (seed r5 C15/m3: Trial.Decode sorted the restored generations by execution
// time, which permutes them whenever the recorded times are not monotone in the order written).
func (c *c15) gobListsUntouched() {
	p, r := c.p, c.r
	n := 0
	for _, name := range []string{"Experiment.Encode", "Experiment.Decode", "Trial.Encode", "Trial.Decode", "Generation.Encode", "Generation.Decode", "encodeOrganism", "decodeOrganism"} {
		fn := p.Func(PkgE, name)
		r.Fn(FuncName(fn))
		// values that are (views of) a slice-typed field of a repository struct loaded in this function
		isListLoad := func(v ssa.Value) bool {
			ld, ok := v.(*ssa.UnOp)
			if !ok || ld.Op != token.MUL {
				return false
			}
			if _, ok := ld.X.(*ssa.FieldAddr); !ok {
				return false
			}
			_, isSlice := ld.Type().Underlying().(*types.Slice)
			return isSlice
		}
		var view func(v ssa.Value, d int) bool
		view = func(v ssa.Value, d int) bool {
			if d > 6 {
				return false
			}
			if isListLoad(v) {
				return true
			}
			switch x := v.(type) {
			case *ssa.ChangeType:
				return view(x.X, d+1)
			case *ssa.Convert:
				return view(x.X, d+1)
			case *ssa.MakeInterface:
				return view(x.X, d+1)
			case *ssa.ChangeInterface:
				return view(x.X, d+1)
			case *ssa.Slice:
				return view(x.X, d+1)
			case *ssa.Phi:
				for _, e := range x.Edges {
					if view(e, d+1) {
						return true
					}
				}
			case *ssa.Call:
				// sort.Reverse(x), sort.Sort(byX(list)) ...: a wrapper built from the list is still the list
				if cal := x.Call.StaticCallee(); cal != nil && cal.Pkg != nil && !strings.HasPrefix(cal.Pkg.Pkg.Path(), Mod) {
					for _, a := range x.Call.Args {
						if view(a, d+1) {
							return true
						}
					}
				}
			}
			return false
		}
		bad := ""
		var badPos token.Pos
		Instrs(fn, func(_ *ssa.BasicBlock, _ int, in ssa.Instruction) {
			ci, ok := in.(ssa.CallInstruction)
			if !ok {
				return
			}
			com := ci.Common()
			if _, isB := com.Value.(*ssa.Builtin); isB {
				return
			}
			external := false
			if cal := com.StaticCallee(); cal != nil {
				external = cal.Pkg != nil && !strings.HasPrefix(cal.Pkg.Pkg.Path(), Mod) || cal.Pkg == nil && cal.Object() != nil && cal.Object().Pkg() != nil && !strings.HasPrefix(cal.Object().Pkg().Path(), Mod)
			} else if com.IsInvoke() {
				external = false
			}
			if !external {
				return
			}
			cn, _ := calleeName(com)
			// library functions that rearrange or rewrite the list they are given; readers (reflect.ValueOf for
			// EncodeValue, the gob operations themselves, sort.IsSorted, slices.Contains ...) are not among them
			rewrites := false
			for _, pre := range []string{"sort.Sort", "sort.Stable", "sort.Slice", "sort.SliceStable", "sort.Ints", "sort.Float64s", "sort.Strings",
				"slices.Sort", "slices.SortFunc", "slices.SortStableFunc", "slices.Reverse", "slices.Compact", "slices.CompactFunc", "slices.Delete", "slices.DeleteFunc", "slices.Insert", "slices.Replace",
				"rand.Shuffle"} {
				if cn == pre {
					rewrites = true
				}
			}
			if !rewrites {
				return
			}
			for _, a := range com.Args {
				if view(a, 0) {
					n++
					if bad == "" {
						bad, badPos = cn, in.Pos()
					}
				}
			}
		})
		if bad != "" {
			r.Bad(name+".lists-as-decoded", p.Pos(badPos), name+" hands a list field of the record to "+bad+": the list is rearranged (or otherwise rewritten) by code outside the codec, so what is read back is not what was written in the order it was written")
		} else {
			r.OK(name+".lists-as-decoded", p.Pos(fn.Pos()), "no list field of the record is handed to code outside the repository")
		}
	}
	_ = n
}
