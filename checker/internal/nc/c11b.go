package nc

import (
	"strings"

	"golang.org/x/tools/go/ssa"
)

// c11GraphLookups decides the structural part of the graph queries that the
// delegation rule C11.4 leaves open: how edgeBetween finds its two endpoints
// how its control-node case consults both link lists, and how From/To add the control nodes wired to an ordinary node.
func (r *Run) c11GraphLookups() {
	p := r.P
	eb := p.Func(PkgN, "Network.edgeBetween")
	r.Fn(FuncName(eb))
	tm := NewTermer(eb)
	loops := Loops(eb)

	// --- endpoint lookup: `ID(allNodes[*]) == uid` and `== vid` are tested independently
	var tests [3]*ssa.If // by parameter index 1, 2
	for _, b := range eb.Blocks {
		iff, ok := b.Instrs[len(b.Instrs)-1].(*ssa.If)
		if !ok {
			continue
		}
		ct := tm.Of(iff.Cond)
		if ct.Op != "bin" || ct.Name != "==" {
			continue
		}
		l := InnermostLoop(loops, b)
		if l == nil || !loopRangesOver(tm, l, "recv.allNodes") {
			continue
		}
		a, c := ct.Args[0], ct.Args[1]
		if a.Op == "param" {
			a, c = c, a
		}
		if a.Op == "call" && strings.HasSuffix(a.Name, "NNode.ID") && a.Args[0].String() == "recv.allNodes[*]" {
			for _, idx := range []int{1, 2} {
				if isParamIdx(c, idx) {
					tests[idx] = iff
				}
			}
		}
	}
	pos := p.Pos(eb.Pos())
	if tests[1] == nil || tests[2] == nil {
		r.Bad("edgeBetween.endpoints", pos, "edgeBetween does not look both ids up in allNodes by `np.ID() == uid` / `np.ID() == vid` inside one scan; the endpoint rule cannot be matched")
	} else {
		indep := true
		for _, pair := range [][2]int{{1, 2}, {2, 1}} {
			for _, g := range Guards(tests[pair[0]].Block()) {
				if g.Cond == tests[pair[1]].Cond {
					indep = false
				}
			}
		}
		r.Check(indep, "edgeBetween.endpoints", p.Pos(tests[2].Cond.Pos()), "every node is compared with uid and with vid (a node may be both ends: self-loop)",
			"the comparison with one id is only made when the comparison with the other id failed, so for uid == vid (a self-loop query) only one endpoint is found and the link is not reported")
		// the scan may stop early only when both were found
		l := InnermostLoop(loops, tests[1].Block())
		okStop := true
		for b := range l.Blocks {
			if b == l.Header {
				continue
			}
			for si, s := range b.Succs {
				if l.Blocks[s] {
					continue
				}
				// leaving: the conditions on the way must say u != nil && v != nil
				n := 0
				gs := append(Guards(b), Guard{})
				if iff, ok := b.Instrs[len(b.Instrs)-1].(*ssa.If); ok {
					gs[len(gs)-1] = Guard{iff.Cond, si == 0, b}
				}
				for _, g := range gs {
					if g.Cond == nil || !l.Blocks[g.At] {
						continue
					}
					if bo, ok := g.Cond.(*ssa.BinOp); ok && bo.Op.String() == "!=" && g.True {
						if c, ok := bo.Y.(*ssa.Const); ok && c.Value == nil {
							n++
						}
					}
				}
				if n < 2 {
					okStop = false
				}
			}
		}
		r.Check(okStop, "edgeBetween.scan-complete", p.Pos(tests[1].Cond.Pos()), "the node scan ends early only when both endpoints were found", "the node scan can stop before both endpoints were looked for")
	}

	// --- control-node case: both link lists of the control node are consulted before "no edge" is answered.
	// A node may be input and output of the same module; the scan of one list must not answer nil for the other.
	var scanIn, scanOut *Loop
	for _, l := range loops {
		if loopRangesOver(tm, l, "recv.controlNodes[*].Incoming") {
			scanIn = l
		}
		if loopRangesOver(tm, l, "recv.controlNodes[*].Outgoing") {
			scanOut = l
		}
	}
	if scanIn == nil || scanOut == nil {
		r.Bad("edgeBetween.control.both-lists", pos, "edgeBetween does not scan both the Incoming and the Outgoing links of the matching control node")
	} else {
		first, second := scanIn, scanOut
		if scanOut.Header.Dominates(scanIn.Header) {
			first, second = scanOut, scanIn
		}
		var where string
		// a `return nil` reachable from inside the first scan without entering the second one
		seen := map[*ssa.BasicBlock]bool{}
		var stack []*ssa.BasicBlock
		for b := range first.Blocks {
			if b != first.Header {
				stack = append(stack, b)
				seen[b] = true
			}
		}
		for len(stack) > 0 {
			b := stack[len(stack)-1]
			stack = stack[:len(stack)-1]
			if ret, ok := b.Instrs[len(b.Instrs)-1].(*ssa.Return); ok {
				if c, isC := ret.Results[0].(*ssa.Const); isC && c.Value == nil {
					where = p.Pos(ret.Pos())
				}
			}
			for _, sx := range b.Succs {
				if sx == first.Header || sx == second.Header || seen[sx] {
					continue
				}
				seen[sx] = true
				stack = append(stack, sx)
			}
		}
		r.Check(where == "", "edgeBetween.control.both-lists", p.Pos(first.Header.Instrs[0].Pos()), "no `return nil` is reachable from the first link scan without the second scan having run",
			"the scan of the control node's first link list answers `no edge` ("+where+") before the other list was looked at: for a node that is input and output of the same module the directed edge control->node exists in the second list and is not reported (From/To list it, Edge/HasEdgeFromTo/Weight deny it)")
	}

	// --- From / To: every control node wired to the id is listed
	for _, name := range []string{"From", "To"} {
		fn := p.Func(PkgN, "Network."+name)
		r.Fn(FuncName(fn))
		tf := NewTermer(fn)
		ls := Loops(fn)
		side, end := "Incoming", "InNode" // From(id): control nodes that take id as input
		if name == "To" {
			side, end = "Outgoing", "OutNode"
		}
		found, okGuard, okAll := false, false, true
		Instrs(fn, func(b *ssa.BasicBlock, _ int, in ssa.Instruction) {
			c, ok := in.(*ssa.Call)
			if !ok {
				return
			}
			_, elems, isApp := appendCall(c)
			if !isApp || len(elems) != 1 {
				return
			}
			if tf.Of(elems[0]).String() != "iface(recv.controlNodes[*])" && tf.Of(elems[0]).String() != "recv.controlNodes[*]" {
				return
			}
			found = true
			want := "NNode.ID(recv.controlNodes[*]." + side + "[*]." + end + ")"
			for _, g := range Guards(b) {
				gt := tf.Of(g.Cond)
				if gt.Op == "bin" && gt.Name == "==" && g.True {
					x, y := gt.Args[0], gt.Args[1]
					if isParamIdx(x, 1) {
						x, y = y, x
					}
					if isParamIdx(y, 1) && strings.HasSuffix(x.String(), want) {
						okGuard = true
					}
				}
			}
			// the loop over the control nodes runs to exhaustion
			var outer *Loop
			for _, l := range OuterLoops(ls, b) {
				if loopRangesOver(tf, l, "recv.controlNodes") {
					outer = l
				}
			}
			if outer == nil {
				okAll = false
				return
			}
			for x := range outer.Blocks {
				if x == outer.Header {
					continue
				}
				for _, s := range x.Succs {
					if !outer.Blocks[s] {
						okAll = false
					}
				}
			}
		})
		pf := p.Pos(fn.Pos())
		if !found {
			r.Bad("graph."+name+".control-nodes", pf, name+" does not append the control nodes of recv.controlNodes itself; that every control node wired to the id is listed cannot be established (a helper that returns the first match lists at most one)")
			continue
		}
		r.Check(okGuard, "graph."+name+".control-nodes", pf, "a control node is listed when one of its "+side+" links has the id at its "+end, name+" lists control nodes under a different condition than `"+end+" of one of its "+side+" links has the id`")
		r.Check(okAll, "graph."+name+".control-nodes.all", pf, "the loop over the control nodes runs to exhaustion, so every wired control node is listed", name+" stops looking at control nodes after the first match")
	}
}
