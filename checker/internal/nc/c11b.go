package nc

import (
	"fmt"
	"go/constant"
	"go/token"
	"strings"

	"golang.org/x/tools/go/ssa"
)

// c11GraphLookups decides the structural part of the graph queries that the
// delegation rule C11.4 leaves open: how edgeBetween finds its two endpoints
// how its control-node case consults both link lists, and how From/To add the control nodes wired to an ordinary node.
func (r *Run) c11GraphLookups() {
	p := r.P
	eb := p.Func(PkgN, "Network.edgeBetween")
	r.Fn(FuncName(eb))
	tm := NewTermer(eb)
	loops := Loops(eb)

	// --- endpoint lookup: `ID(allNodes[*]) == uid` and `== vid` are tested independently
	var tests [3]*ssa.If // by parameter index 1, 2
	for _, b := range eb.Blocks {
		iff, ok := b.Instrs[len(b.Instrs)-1].(*ssa.If)
		if !ok {
			continue
		}
		if len(b.Succs) != 2 || b.Succs[0] == b.Succs[1] {
			continue
		}
		l := InnermostLoop(loops, b)
		if l == nil || !loopRangesOver(tm, l, "recv.allNodes") {
			continue
		}
		// the comparison of the node's id with a parameter, on whichever outcome it means "equal"
		// (`np.ID() == uid`, `uid == np.ID()`, `!(np.ID() != uid)` ...)
		for _, outcome := range []bool{true, false} {
			a, c, isEq := eqCond(tm, Guard{iff.Cond, outcome, b})
			if !isEq {
				continue
			}
			if a.Op == "param" {
				a, c = c, a
			}
			if a.Op == "call" && strings.HasSuffix(a.Name, "NNode.ID") && a.Args[0].String() == "recv.allNodes[*]" {
				for _, idx := range []int{1, 2} {
					if isParamIdx(c, idx) {
						tests[idx] = iff
					}
				}
			}
		}
	}
	pos := p.Pos(eb.Pos())
	if tests[1] == nil || tests[2] == nil {
		r.Bad("edgeBetween.endpoints", pos, "edgeBetween does not look both ids up in allNodes by `np.ID() == uid` / `np.ID() == vid` inside one scan; the endpoint rule cannot be matched")
	} else {
		indep := true
		for _, pair := range [][2]int{{1, 2}, {2, 1}} {
			for _, g := range Guards(tests[pair[0]].Block()) {
				if g.Cond == tests[pair[1]].Cond {
					indep = false
				}
			}
		}
		r.Check(indep, "edgeBetween.endpoints", p.Pos(tests[2].Cond.Pos()), "every node is compared with uid and with vid (a node may be both ends: self-loop)",
			"the comparison with one id is only made when the comparison with the other id failed, so for uid == vid (a self-loop query) only one endpoint is found and the link is not reported")
		// the scan may stop early only when both were found
		l := InnermostLoop(loops, tests[1].Block())
		okStop := true
		for b := range l.Blocks {
			if b == l.Header {
				continue
			}
			for si, s := range b.Succs {
				if l.Blocks[s] {
					continue
				}
				// leaving: the conditions on the way must say u != nil && v != nil, in whatever form the two
				// facts are tested (`x != nil` taken, `x == nil` / `nil == x` not taken, e.g. a loop condition
				// `... && (u == nil || v == nil)`), about two different variables
				var found []ssa.Value
				for _, g := range c11CondsLeaving(b, si) {
					if g.Cond == nil || !l.Blocks[g.At] {
						continue
					}
					if v := c11NonNilFact(g); v != nil {
						found = append(found, v)
					}
				}
				if !c11TwoVariables(found) {
					okStop = false
				}
			}
		}
		r.Check(okStop, "edgeBetween.scan-complete", p.Pos(tests[1].Cond.Pos()), "the node scan ends early only when both endpoints were found", "the node scan can stop before both endpoints were looked for")
	}

	// --- control-node case: both link lists of the control node are consulted before "no edge" is answered.
	// A node may be input and output of the same module; the scan of one list must not answer nil for the other.
	var scanIn, scanOut *Loop
	for _, l := range loops {
		if loopRangesOver(tm, l, "recv.controlNodes[*].Incoming") {
			scanIn = l
		}
		if loopRangesOver(tm, l, "recv.controlNodes[*].Outgoing") {
			scanOut = l
		}
	}
	if scanIn == nil || scanOut == nil {
		r.Bad("edgeBetween.control.both-lists", pos, "edgeBetween does not scan both the Incoming and the Outgoing links of the matching control node")
	} else {
		first, second := scanIn, scanOut
		if scanOut.Header.Dominates(scanIn.Header) {
			first, second = scanOut, scanIn
		}
		var where string
		// a `return nil` reachable from inside the first scan without entering the second one
		seen := map[*ssa.BasicBlock]bool{}
		var stack []*ssa.BasicBlock
		for b := range first.Blocks {
			if b != first.Header {
				stack = append(stack, b)
				seen[b] = true
			}
		}
		for len(stack) > 0 {
			b := stack[len(stack)-1]
			stack = stack[:len(stack)-1]
			if ret, ok := b.Instrs[len(b.Instrs)-1].(*ssa.Return); ok {
				if c, isC := ret.Results[0].(*ssa.Const); isC && c.Value == nil {
					where = p.Pos(ret.Pos())
				}
			}
			for _, sx := range b.Succs {
				if sx == first.Header || sx == second.Header || seen[sx] {
					continue
				}
				seen[sx] = true
				stack = append(stack, sx)
			}
		}
		r.Check(where == "", "edgeBetween.control.both-lists", p.Pos(first.Header.Instrs[0].Pos()), "no `return nil` is reachable from the first link scan without the second scan having run",
			"the scan of the control node's first link list answers `no edge` ("+where+") before the other list was looked at: for a node that is input and output of the same module the directed edge control->node exists in the second list and is not reported (From/To list it, Edge/HasEdgeFromTo/Weight deny it)")
	}

	// --- From / To: every control node wired to the id is listed
	nw := p.FuncOpt(PkgN, "Network.nodeWithID") // nil: the search is inlined / written out (c11Lookup)
	for _, name := range []string{"From", "To"} {
		fn := p.Func(PkgN, "Network."+name)
		r.Fn(FuncName(fn))
		tf := NewTermer(fn)
		ls := Loops(fn)
		side, end := "Incoming", "InNode" // From(id): control nodes that take id as input
		if name == "To" {
			side, end = "Outgoing", "OutNode"
		}
		pf := p.Pos(fn.Pos())
		// the listing sites: append(list, controlNodes[*])
		var apps []*ssa.Call
		Instrs(fn, func(b *ssa.BasicBlock, _ int, in ssa.Instruction) {
			c, ok := in.(*ssa.Call)
			if !ok {
				return
			}
			_, elems, isApp := appendCall(c)
			if !isApp || len(elems) != 1 {
				return
			}
			if s := tf.Of(elems[0]).String(); s != "iface(recv.controlNodes[*])" && s != "recv.controlNodes[*]" {
				return
			}
			apps = append(apps, c)
		})
		if len(apps) == 0 {
			r.Bad("graph."+name+".control-nodes", pf, name+" does not append the control nodes of recv.controlNodes itself; that every control node wired to the id is listed cannot be established (a helper that returns the first match lists at most one)")
			continue
		}
		isApp := func(in ssa.Instruction) bool {
			for _, a := range apps {
				if in == ssa.Instruction(a) {
					return true
				}
			}
			return false
		}
		// the loop over the control nodes: one loop carries every listing site
		var outer *Loop
		okAll := true
		for _, a := range apps {
			var o *Loop
			for _, l := range OuterLoops(ls, a.Block()) {
				if loopRangesOver(tf, l, "recv.controlNodes") {
					o = l
				}
			}
			if o == nil || (outer != nil && o != outer) {
				okAll = false
				continue
			}
			outer = o
		}
		if outer == nil {
			r.Bad("graph."+name+".control-nodes", pf, name+" does not list the control nodes inside a loop over recv.controlNodes; the listing condition cannot be established")
			r.Bad("graph."+name+".control-nodes.all", pf, name+" does not list the control nodes inside a loop over recv.controlNodes")
			continue
		}
		// ... and runs to exhaustion
		for x := range outer.Blocks {
			if x == outer.Header {
				continue
			}
			for _, s := range x.Succs {
				if !outer.Blocks[s] {
					okAll = false
				}
			}
		}
		// the match test: the edges on which `ID(controlNodes[*].<side>[*].<end>) == id` is known to hold,
		// made inside a scan of that control node's <side> links
		want := "NNode.ID(recv.controlNodes[*]." + side + "[*]." + end + ")"
		type edge [2]*ssa.BasicBlock
		matchEdges := map[edge]bool{}
		scans := map[*Loop]bool{}
		for b := range outer.Blocks {
			iff, ok := b.Instrs[len(b.Instrs)-1].(*ssa.If)
			if !ok || b.Succs[0] == b.Succs[1] {
				continue
			}
			for si, outcome := range []bool{true, false} {
				x, y, isEq := eqCond(tf, Guard{iff.Cond, outcome, b})
				if !isEq {
					continue
				}
				if isParamIdx(x, 1) {
					x, y = y, x
				}
				if !isParamIdx(y, 1) || !strings.HasSuffix(x.String(), want) {
					continue
				}
				in := InnermostLoop(ls, b)
				if in == nil || in == outer || !loopRangesOver(tf, in, "recv.controlNodes[*]."+side) {
					continue
				}
				matchEdges[edge{b, b.Succs[si]}] = true
				scans[in] = true
			}
		}
		isMatch := func(from, to *ssa.BasicBlock) bool { return matchEdges[edge{from, to}] }
		endsIteration := func(_, to *ssa.BasicBlock) bool { return to == outer.Header || !outer.Blocks[to] }
		var bodies []*ssa.BasicBlock
		for _, s := range outer.Header.Succs {
			if outer.Blocks[s] {
				bodies = append(bodies, s)
			}
		}
		explored := 0
		// (only-if) within one iteration of the loop over the control nodes the listing site is not reachable
		// unless the match test succeeded in that iteration. Path search with flag tracking: a result flag of an
		// inlined helper (`found`) is followed; an undecidable branch is taken both ways.
		var onlyIf []string
		if len(matchEdges) > 0 {
			for _, body := range bodies {
				if w := FindPath(p, PathQuery{Fn: fn, StartEdge: [2]*ssa.BasicBlock{outer.Header, body}, Target: isApp, Explored: &explored,
					AvoidEdge: func(from, to *ssa.BasicBlock) bool { return isMatch(from, to) || endsIteration(from, to) }}); w != nil {
					onlyIf = w
				}
			}
		}
		r.Check(len(matchEdges) > 0 && onlyIf == nil, "graph."+name+".control-nodes", pf, "a control node is listed only when one of its "+side+" links has the id at its "+end+" (no path of one iteration reaches the listing site without the match)",
			name+" lists control nodes under a different condition than `"+end+" of one of its "+side+" links has the id`", onlyIf...)
		if len(matchEdges) == 0 {
			r.Check(okAll, "graph."+name+".control-nodes.all", pf, "the loop over the control nodes runs to exhaustion, so every wired control node is listed", name+" stops looking at control nodes after the first match")
			continue
		}
		// (if) once the match test succeeded, the iteration cannot end without the control node having been listed
		var ifMatch []string
		for e := range matchEdges {
			if w := FindPath(p, PathQuery{Fn: fn, StartEdge: [2]*ssa.BasicBlock{e[0], e[1]}, Avoid: isApp, Target: IsReturn, TargetEdge: endsIteration, Explored: &explored}); w != nil {
				ifMatch = w
			}
		}
		r.Check(ifMatch == nil, "graph."+name+".control-nodes.on-match", pf, "after a successful match the iteration does not end before the control node is listed",
			name+" can finish the iteration for a control node whose "+side+" link matched the id without listing that control node", ifMatch...)
		// (once) after the control node was listed the iteration ends without listing it again (a node wired to the
		// module by two links is still one neighbour)
		var twice []string
		for _, a := range apps {
			if w := FindPath(p, PathQuery{Fn: fn, StartAfter: a, Target: isApp, AvoidEdge: endsIteration, Explored: &explored}); w != nil {
				twice = w
			}
		}
		r.Check(twice == nil, "graph."+name+".control-nodes.once", pf, "a control node is listed at most once", name+" can list the same control node more than once (the scan of its "+side+" links goes on after a match)", twice...)
		// (scan) an iteration ends only after a match or after the scan of the control node's links was exhausted:
		// no control node is skipped, and no link of it is left unlooked-at, on account of anything else
		var skipped []string
		for _, body := range bodies {
			if w := FindPath(p, PathQuery{Fn: fn, StartEdge: [2]*ssa.BasicBlock{outer.Header, body}, Target: IsReturn, TargetEdge: endsIteration, Explored: &explored,
				AvoidEdge: func(from, to *ssa.BasicBlock) bool {
					if isMatch(from, to) {
						return true
					}
					for in := range scans {
						if from == in.Header && !in.Blocks[to] {
							return true
						}
					}
					return false
				}}); w != nil {
				skipped = w
			}
		}
		r.Check(skipped == nil, "graph."+name+".control-nodes.scan", pf, "every "+side+" link of every control node is compared with the id until one matches",
			name+" can pass over a control node without having compared all of its "+side+" links with the id: a module wired to the node is then missing from the result although Edge/HasEdgeFromTo report the edge", skipped...)
		// (reached) for a present node every result comes after the loop over the control nodes has run to its end
		lk := newC11Lookup(fn, tf, nw)
		absent := func(gs []Guard) bool {
			for _, g := range gs {
				if lk.absent(g) {
					return true
				}
			}
			return false
		}
		// (a result: per return instruction, or per edge entering a return block shared by several results - robust_c11.go, c11Results)
		resTarget, resEdge := c11ResultTargets(absent)
		unreached := FindPath(p, PathQuery{Fn: fn, Explored: &explored,
			Target: resTarget, TargetEdge: resEdge,
			AvoidEdge: func(from, to *ssa.BasicBlock) bool { return from == outer.Header && !outer.Blocks[to] }})
		r.Check(unreached == nil, "graph."+name+".control-nodes.reached", pf, "for a node that is present, no result is returned before the loop over the control nodes ran to its end",
			name+" can return for a present node without having looked at the control nodes (for instance only nodes of one role are checked): a module wired to a sensor or an output node is missing from the successors/predecessors although the edge queries report it", unreached...)
		r.PathsExplored += explored
		r.Check(okAll, "graph."+name+".control-nodes.all", pf, "the loop over the control nodes runs to exhaustion, so every wired control node is listed", name+" stops looking at control nodes after the first match")
	}
}

// assertsEmptyLen: taking the branch `outcome` of cond establishes len(v) == 0 for a v accepted by isList
// (`len(v) == 0`, `len(v) < 1`, `len(v) <= 0`, the mirrored forms and the negated forms on the other branch).
func assertsEmptyLen(cond ssa.Value, outcome bool, isList func(ssa.Value) bool) bool {
	bo, ok := cond.(*ssa.BinOp)
	if !ok {
		return false
	}
	lenOf := func(v ssa.Value) ssa.Value {
		c, ok := v.(*ssa.Call)
		if !ok {
			return nil
		}
		if b, isB := c.Call.Value.(*ssa.Builtin); isB && b.Name() == "len" && len(c.Call.Args) == 1 {
			return c.Call.Args[0]
		}
		return nil
	}
	op := bo.Op
	l, k := lenOf(bo.X), bo.Y
	if l == nil {
		l, k = lenOf(bo.Y), bo.X
		switch op { // mirror: k op len  ==  len op' k
		case token.LSS:
			op = token.GTR
		case token.GTR:
			op = token.LSS
		case token.LEQ:
			op = token.GEQ
		case token.GEQ:
			op = token.LEQ
		}
	}
	if l == nil || !isList(l) {
		return false
	}
	kc, ok := k.(*ssa.Const)
	if !ok || kc.Value == nil || kc.Value.Kind() != constant.Int {
		return false
	}
	n, exact := constant.Int64Val(kc.Value)
	if !exact {
		return false
	}
	if !outcome {
		switch op {
		case token.EQL:
			op = token.NEQ
		case token.NEQ:
			op = token.EQL
		case token.LSS:
			op = token.GEQ
		case token.GEQ:
			op = token.LSS
		case token.GTR:
			op = token.LEQ
		case token.LEQ:
			op = token.GTR
		default:
			return false
		}
	}
	return (op == token.EQL && n == 0) || (op == token.LSS && n == 1) || (op == token.LEQ && n == 0)
}

// c11GenesisFailures: Genesis may refuse a genome only for a reason the property excludes from its domain -
// no connection genes at all, or no output node. In particular a failure must not depend on which genes are
// enabled: a genome whose genes are all disabled is expressed as a network without links.
// Decided by path search: no feasible path from the entry reaches a return with a non-nil error (or an edge on
// which the error result receives a non-nil value) without having taken a branch that establishes
// len(recv.Genes) == 0 or len(<output list handed to the network constructor>) == 0.
func (r *Run) c11GenesisFailures(gen *ssa.Function, tm *Termer, outList ssa.Value) {
	p := r.P
	isNilConst := func(v ssa.Value) bool {
		c, ok := v.(*ssa.Const)
		return ok && c.Value == nil
	}
	res := gen.Signature.Results()
	errIdx := res.Len() - 1
	failRet := map[ssa.Instruction]bool{}
	type edge [2]*ssa.BasicBlock
	failEdge := map[edge]bool{}
	sites := 0
	for _, b := range gen.Blocks {
		ret, ok := b.Instrs[len(b.Instrs)-1].(*ssa.Return)
		if !ok || errIdx >= len(ret.Results) {
			continue
		}
		v := ret.Results[errIdx]
		if isNilConst(v) {
			continue
		}
		if _, isPhi := v.(*ssa.Phi); !isPhi {
			failRet[ret] = true
			sites++
			continue
		}
		for ph := range phiWeb(v).Phis {
			for i, e := range ph.Edges {
				if _, inner := e.(*ssa.Phi); inner || isNilConst(e) {
					continue
				}
				failEdge[edge{ph.Block().Preds[i], ph.Block()}] = true
				sites++
			}
		}
	}
	pos := p.Pos(gen.Pos())
	if sites == 0 {
		r.OK("Genesis.failure", pos, "Genesis has no failing result")
		return
	}
	// the output list: the value handed to the constructor, or any other read of the same finished list (a list kept
	// in a field of a struct-valued local is read anew wherever it is used, robust_c11.go c11ListVar)
	outV := c11ListVarOf(gen, structLocals(gen), Loops(gen), outList)
	isList := func(v ssa.Value) bool {
		return v == outList || (outV != nil && outV.final(v)) || tm.Of(v).String() == "recv.Genes"
	}
	explored := 0
	w := FindPath(p, PathQuery{Fn: gen, Explored: &explored,
		Target:     func(in ssa.Instruction) bool { return failRet[in] },
		TargetEdge: func(from, to *ssa.BasicBlock) bool { return failEdge[edge{from, to}] },
		AvoidEdge: func(from, to *ssa.BasicBlock) bool {
			iff, ok := from.Instrs[len(from.Instrs)-1].(*ssa.If)
			if !ok || from.Succs[0] == from.Succs[1] {
				return false
			}
			return assertsEmptyLen(iff.Cond, from.Succs[0] == to, isList)
		}})
	r.PathsExplored += explored
	r.Check(w == nil, "Genesis.failure", pos, fmt.Sprintf("%d failing result(s), each only for a genome without genes or without output nodes", sites),
		"Genesis can fail for a genome that has connection genes and output nodes: such a genome (for instance one whose genes are all disabled, which must be expressed as a network without links) gets an error instead of its network", w...)
}
