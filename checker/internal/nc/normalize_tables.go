package nc

import (
	"fmt"
	"go/ast"
	"go/token"
	"go/types"

	"golang.org/x/tools/go/packages"
	"golang.org/x/tools/go/types/typeutil"
)

// Source normalisation, part 3: calls through an immutable table of functions.
//
// Two sibling functions that differ only in WHICH field they read are sometimes merged into one new helper that
// takes the difference as a parameter - a small struct of function values (`type side struct { links func(*NNode)
// []*Link; peer func(*Link) *NNode }`), of which the package keeps one value per direction in a package-level
// variable (`var downstream = side{links: outgoingLinks, peer: targetNode}`) - and the siblings become
// `return n.helper(id, downstream, upstream)`. The normaliser inlines the helper (it is new), but inside the
// inlined body the calls `own.links(node)` are calls of a function VALUE: no rule can see which field is read.
//
// At such a call site the value is known, though:
//
//	(table)  the argument is the bare name of a package-level variable V of struct type that is declared with a
//	         composite literal whose function-typed fields are set to declared package-level functions, and V is
//	         never written: every mention of V anywhere in the module is a by-value read of the whole variable or
//	         of one of its fields (no assignment to V or a field of it, no &V / &V.f, no ++/--, no range
//	         assignment, no method called on it, no deeper selection / indexing / slicing through a struct- or
//	         array-typed field, which could take an address). V therefore holds its declared value whenever the
//	         call runs - assuming the call does not run while the package's own variables are still being
//	         initialised through a reference the compiler's initialisation order cannot see (a function reached
//	         only through an interface from another initialiser); the value is non-nil by construction.
//	(param)  the helper never writes the parameter either (same conditions, checked on its body), so every
//	         `p.f` in the inlined body reads field f of V's declared value.
//
// A call `p.f(args)` in the body being inlined is then the static call `F(args)` of the function F the literal puts
// into f: findSite treats it as such (F, when new, is inlined like any other new helper - arguments bound in order,
// body spliced in front of the statement; reading the function value itself has no effect and cannot fail); when F
// is a function of the pinned tree the callee expression is respelled `F`, so that the SSA form has a static call.
// Everything is per call site: the same helper inlined with another table resolves to other functions.
// A parameter or table that does not meet the conditions is left alone (the call stays a dynamic call and the
// rules report what they reported before).

type funcTable struct {
	v     *types.Var
	funcs map[*types.Var]*types.Func // field -> the declared function the literal stores there
}

// calleeOf: the named target of a call, with calls through an immutable function table resolved.
func (nz *normalizer) calleeOf(info *types.Info, call *ast.CallExpr) types.Object {
	if fn := nz.tableCallee(info, call); fn != nil {
		return fn
	}
	return typeutil.Callee(info, call)
}

// tableCallee: call is `p.f(..)` with p a parameter bound to an immutable function table at the site being
// expanded; returns the function stored in field f.
func (nz *normalizer) tableCallee(info *types.Info, call *ast.CallExpr) *types.Func {
	if len(nz.tables) == 0 {
		return nil
	}
	sel, ok := ast.Unparen(call.Fun).(*ast.SelectorExpr)
	if !ok {
		return nil
	}
	id, ok := ast.Unparen(sel.X).(*ast.Ident)
	if !ok {
		return nil
	}
	tab := nz.tables[info.Uses[id]]
	if tab == nil {
		return nil
	}
	si, has := info.Selections[sel]
	if !has || si.Kind() != types.FieldVal || len(si.Index()) != 1 {
		return nil
	}
	fld, _ := si.Obj().(*types.Var)
	return tab.funcs[fld]
}

// tableArg: the immutable function table an argument names (nil: none).
func (nz *normalizer) tableArg(info *types.Info, a ast.Expr) *funcTable {
	var id *ast.Ident
	switch x := ast.Unparen(a).(type) {
	case *ast.Ident:
		id = x
	case *ast.SelectorExpr:
		if pid, ok := x.X.(*ast.Ident); ok {
			if _, isPkg := info.Uses[pid].(*types.PkgName); isPkg {
				id = x.Sel
			}
		}
	}
	if id == nil {
		return nil
	}
	if t := nz.tables[info.Uses[id]]; t != nil {
		return t // a parameter of the enclosing helper that is itself bound to a table, handed on
	}
	v, ok := info.Uses[id].(*types.Var)
	if !ok || v.Pkg() == nil || v.Parent() != v.Pkg().Scope() || v.IsField() {
		return nil
	}
	if nz.tableMemo == nil {
		nz.tableMemo = map[*types.Var]*funcTable{}
	}
	if t, done := nz.tableMemo[v]; done {
		return t
	}
	t := nz.buildTable(v)
	nz.tableMemo[v] = t
	return t
}

func (nz *normalizer) buildTable(v *types.Var) *funcTable {
	st, ok := v.Type().Underlying().(*types.Struct)
	if !ok {
		return nil
	}
	// the declaration
	var lit *ast.CompositeLit
	var declInfo *types.Info
	for _, pk := range nz.pkgs {
		if pk.Types != v.Pkg() {
			continue
		}
		for _, f := range pk.Syntax {
			for _, d := range f.Decls {
				gd, isGen := d.(*ast.GenDecl)
				if !isGen || gd.Tok != token.VAR {
					continue
				}
				for _, sp := range gd.Specs {
					vs, isVS := sp.(*ast.ValueSpec)
					if !isVS {
						continue
					}
					for i, n := range vs.Names {
						if pk.TypesInfo.Defs[n] != types.Object(v) {
							continue
						}
						if len(vs.Values) != len(vs.Names) {
							return nil
						}
						cl, isLit := ast.Unparen(vs.Values[i]).(*ast.CompositeLit)
						if !isLit || !types.Identical(pk.TypesInfo.TypeOf(cl), v.Type()) {
							return nil
						}
						lit, declInfo = cl, pk.TypesInfo
					}
				}
			}
		}
	}
	if lit == nil {
		return nil
	}
	t := &funcTable{v: v, funcs: map[*types.Var]*types.Func{}}
	for i, el := range lit.Elts {
		var fld *types.Var
		val := el
		if kv, isKV := el.(*ast.KeyValueExpr); isKV {
			kid, isId := kv.Key.(*ast.Ident)
			if !isId {
				return nil
			}
			for j := 0; j < st.NumFields(); j++ {
				if st.Field(j).Name() == kid.Name {
					fld = st.Field(j)
				}
			}
			val = kv.Value
		} else if i < st.NumFields() {
			fld = st.Field(i)
		}
		if fld == nil {
			return nil
		}
		if _, isSig := fld.Type().Underlying().(*types.Signature); !isSig {
			continue
		}
		var fid *ast.Ident
		switch x := ast.Unparen(val).(type) {
		case *ast.Ident:
			fid = x
		case *ast.SelectorExpr:
			if pid, ok := x.X.(*ast.Ident); ok {
				if _, isPkg := declInfo.Uses[pid].(*types.PkgName); isPkg {
					fid = x.Sel
				}
			}
		}
		if fid == nil {
			continue
		}
		fn, isFn := declInfo.Uses[fid].(*types.Func)
		if !isFn || fn.Type().(*types.Signature).Recv() != nil || fn.Type().(*types.Signature).TypeParams().Len() > 0 {
			continue
		}
		if d := nz.decl[fn]; d == nil || d.Body == nil {
			continue
		}
		t.funcs[fld] = fn
	}
	if len(t.funcs) == 0 {
		return nil
	}
	// never written, anywhere in the module
	for _, pk := range nz.pkgs {
		for _, f := range pk.Syntax {
			if !readOnlyUses(pk.TypesInfo, f, v) {
				nz.Log = append(nz.Log, fmt.Sprintf("function table %s: not immutable (written, or its address taken, in %s)", v.Name(), pk.PkgPath))
				return nil
			}
		}
	}
	return t
}

// readOnlyUses: every mention of variable v below root reads v, or one field of v, by value.
func readOnlyUses(info *types.Info, root ast.Node, v *types.Var) bool {
	ok := true
	var stack []ast.Node
	// parentOf(i): the nearest ancestor of stack[i] that is not a parenthesis, and its index
	parentOf := func(i int) (ast.Node, int) {
		for j := i - 1; j >= 0; j-- {
			if _, isP := stack[j].(*ast.ParenExpr); !isP {
				return stack[j], j
			}
		}
		return nil, -1
	}
	// written: the expression stack[i] is used as a destination or has its address taken
	written := func(i int) bool {
		e := stack[i]
		for i > 0 {
			if _, isP := stack[i-1].(*ast.ParenExpr); !isP {
				break
			}
			i--
			e = stack[i]
		}
		par, _ := parentOf(i)
		switch x := par.(type) {
		case *ast.UnaryExpr:
			return x.Op == token.AND
		case *ast.AssignStmt:
			for _, l := range x.Lhs {
				if l == e {
					return true
				}
			}
		case *ast.IncDecStmt:
			return true
		case *ast.RangeStmt:
			return x.Key == e || x.Value == e
		}
		return false
	}
	ast.Inspect(root, func(n ast.Node) bool {
		if n == nil {
			stack = stack[:len(stack)-1]
			return true
		}
		stack = append(stack, n)
		id, isId := n.(*ast.Ident)
		if !isId || !ok || info.Uses[id] != types.Object(v) {
			return ok
		}
		i := len(stack) - 1
		// pkg.V: the qualified name is the expression
		if par, pi := parentOf(i); pi >= 0 {
			if sel, isSel := par.(*ast.SelectorExpr); isSel && sel.Sel == id {
				i = pi
			}
		}
		if written(i) {
			ok = false
			return false
		}
		par, pi := parentOf(i)
		if sel, isSel := par.(*ast.SelectorExpr); isSel && ast.Unparen(sel.X) == stack[i] {
			// V.f: a field, read by value, and nothing reached THROUGH a struct or array held in it
			si, has := info.Selections[sel]
			if !has || si.Kind() != types.FieldVal || len(si.Index()) != 1 {
				ok = false
				return false
			}
			if written(pi) {
				ok = false
				return false
			}
			gp, _ := parentOf(pi)
			deeper := false
			switch x := gp.(type) {
			case *ast.SelectorExpr:
				deeper = ast.Unparen(x.X) == stack[pi]
			case *ast.IndexExpr:
				deeper = ast.Unparen(x.X) == stack[pi]
			case *ast.SliceExpr:
				deeper = ast.Unparen(x.X) == stack[pi]
			}
			if deeper {
				// a method of the field's type may be called on its address, an array is indexed / sliced in place
				switch si.Obj().Type().Underlying().(type) {
				case *types.Pointer, *types.Interface:
				case *types.Slice, *types.Map, *types.Basic:
					if _, isSel := gp.(*ast.SelectorExpr); isSel {
						ok = false
					}
				default:
					ok = false
				}
			}
			return ok
		}
		// the whole variable: only where a copy is made
		switch x := par.(type) {
		case *ast.CallExpr:
			for _, a := range x.Args {
				if a == stack[i] || ast.Unparen(a) == stack[i] {
					return true
				}
			}
			ok = false
		case *ast.AssignStmt, *ast.ValueSpec, *ast.ReturnStmt, *ast.KeyValueExpr, *ast.CompositeLit, *ast.BinaryExpr:
			// (a destination was excluded above; a literal's key position cannot hold a struct variable of this kind
			// except as a map key, which is a copy as well)
		default:
			ok = false
		}
		return ok
	})
	return ok
}

// bindTables: at the site being expanded, the parameters of callee that are bound to an immutable function table.
// The returned function removes the bindings again.
func (nz *normalizer) bindTables(pk *packages.Package, site *inlineSite, sig, tsig *types.Signature) func() {
	if sig != tsig || sig.Params().Len() != len(site.call.Args) {
		return func() {}
	}
	d := nz.decl[site.callee]
	cpk := nz.declPkg[site.callee]
	if d == nil || cpk == nil || d.Body == nil {
		return func() {}
	}
	var bound []types.Object
	for i, a := range site.call.Args {
		p := sig.Params().At(i)
		if p.Name() == "" || p.Name() == "_" {
			continue
		}
		tab := nz.tableArg(pk.TypesInfo, a)
		if tab == nil || !types.Identical(p.Type(), tab.v.Type()) || !readOnlyUses(cpk.TypesInfo, d.Body, p) {
			continue
		}
		if nz.tables == nil {
			nz.tables = map[types.Object]*funcTable{}
		}
		if _, busy := nz.tables[p]; busy {
			continue
		}
		nz.tables[p] = tab
		bound = append(bound, p)
		nz.Log = append(nz.Log, fmt.Sprintf("calls through parameter %s of %s resolved with the immutable function table %s at %s", p.Name(), objName(site.callee), tab.v.Name(), nz.fset.Position(site.call.Pos())))
	}
	return func() {
		for _, p := range bound {
			delete(nz.tables, p)
		}
	}
}

// tableRespell: edits that respell `p.f` as the pinned function it denotes, for the calls in body that resolve
// through a table but are not inlined (the function is part of the pinned tree and declared in the same package).
func (nz *normalizer) tableRespell(pk *packages.Package, body ast.Node) []textEdit {
	if len(nz.tables) == 0 {
		return nil
	}
	var edits []textEdit
	ast.Inspect(body, func(n ast.Node) bool {
		c, ok := n.(*ast.CallExpr)
		if !ok {
			return true
		}
		fn := nz.tableCallee(pk.TypesInfo, c)
		if fn == nil || nz.liftable(fn) || fn.Pkg() != pk.Types {
			return true
		}
		if sc := pk.Types.Scope().Innermost(c.Pos()); sc != nil {
			if _, o := sc.LookupParent(fn.Name(), c.Pos()); o != types.Object(fn) {
				return true // the name means something else here
			}
		}
		edits = append(edits, textEdit{nz.off(c.Fun.Pos()), nz.off(c.Fun.End()), fn.Name(), 500})
		return true
	})
	return edits
}
