package nc

import (
	"fmt"
	"go/constant"
	"go/types"
	"strings"

	"golang.org/x/tools/go/ssa"
)

// Fourth-round obligations of C11.6: the graph view of two ORDINARY nodes.
//
// The five queries of the view must agree with each other on every ordered pair of ids: From(u) lists v exactly
// when To(v) lists u exactly when Edge / WeightedEdge / Weight / HasEdgeFromTo(u, v) report a link. Genesis wires
// every expressed link into the Outgoing list of its source and into the Incoming list of its target (C11.1), so
// the structure to be reported is "u -> v iff some link of u.Outgoing has OutNode v (iff some link of v.Incoming
// has InNode u)". Two facts are needed for that and are decided here:
//
//   (neighbours)  From(u) lists the OutNode of EVERY link of u.Outgoing, To(v) the InNode of EVERY link of
//                 v.Incoming: one listing per link, the scan runs over the whole list, nothing is returned for a
//                 present node before the scan has run. A link that is left out for whatever reason (its recurrence
//                 flag, its weight ...) is an edge that Edge/To report and From denies.
//   (lookup)      edgeBetween, asked about two ordinary nodes, answers "no edge" (nil) only after a list that holds
//                 every link of the asked direction has been compared completely, every candidate with the asked
//                 id: a candidate that matches never lets the scan go on, and no nil result is reachable without
//                 the scan having been exhausted. With links in both directions between two nodes (a forward and a
//                 recurrent gene) the first link found between them is not necessarily the one asked for; giving up
//                 on it denies an edge that From/To list.

// ---------------------------------------------------------------------------
// Path search whose target sees the values known on the path (FindPath of cfgx.go with an environment-aware target).

type c11EnvQuery struct {
	Fn        *ssa.Function
	Init      pathEnv
	AvoidEdge func(from, to *ssa.BasicBlock) bool
	Target    func(in ssa.Instruction, env pathEnv) bool
	// NonNil (optional): values that are never nil by construction (elements of a link list); a variable that
	// receives one is known to be non-nil on that path.
	NonNil   func(v ssa.Value) bool
	Explored *int
}

func c11FindPathEnv(p *Prog, q c11EnvQuery) []string {
	seen := map[string]bool{}
	var found *stateNode
	var walk func(b, from *ssa.BasicBlock, env pathEnv, par *stateNode) bool
	walk = func(b, from *ssa.BasicBlock, env pathEnv, par *stateNode) bool {
		node := &stateNode{b: b, par: par}
		newVals := map[ssa.Value]envVal{}
		if from != nil {
			for _, in := range b.Instrs {
				phi, ok := in.(*ssa.Phi)
				if !ok {
					break
				}
				for i, pr := range b.Preds {
					if pr == from {
						newVals[phi] = env.eval(phi.Edges[i])
						if !newVals[phi].known && q.NonNil != nil && q.NonNil(phi.Edges[i]) {
							newVals[phi] = envVal{known: true, nonNil: true}
						}
						break
					}
				}
			}
		}
		for _, in := range b.Instrs {
			if v, ok := in.(ssa.Value); ok {
				delete(env, v)
			}
		}
		for k, v := range newVals {
			if v.known {
				env[k] = v
			}
		}
		k := fmt.Sprintf("%d|%s", b.Index, env.key())
		if seen[k] {
			return false
		}
		seen[k] = true
		if q.Explored != nil {
			*q.Explored++
		}
		for _, in := range b.Instrs {
			if q.Target(in, env) {
				node.hit = in
				found = node
				return true
			}
		}
		type nxt struct {
			s       *ssa.BasicBlock
			assume  bool
			outcome bool
		}
		var nexts []nxt
		last := b.Instrs[len(b.Instrs)-1]
		if iff, ok := last.(*ssa.If); ok && b.Succs[0] != b.Succs[1] {
			dec := env.eval(iff.Cond)
			if dec.known && dec.c != nil && dec.c.Kind() == constant.Bool {
				if constant.BoolVal(dec.c) {
					nexts = append(nexts, nxt{b.Succs[0], true, true})
				} else {
					nexts = append(nexts, nxt{b.Succs[1], true, false})
				}
			} else {
				nexts = append(nexts, nxt{b.Succs[0], true, true}, nxt{b.Succs[1], true, false})
			}
		} else {
			for _, s := range b.Succs {
				nexts = append(nexts, nxt{s, false, false})
			}
		}
		for _, n := range nexts {
			if q.AvoidEdge != nil && q.AvoidEdge(b, n.s) {
				continue
			}
			e2 := env.clone()
			if n.assume {
				e2.assume(last.(*ssa.If).Cond, n.outcome)
			}
			if walk(n.s, b, e2, node) {
				return true
			}
		}
		return false
	}
	env := pathEnv{}
	for k, v := range q.Init {
		env[k] = v
	}
	walk(q.Fn.Blocks[0], nil, env, nil)
	if found == nil {
		return nil
	}
	var out []string
	for n := found; n != nil; n = n.par {
		out = append([]string{describeBlock(p, n.b, n.hit)}, out...)
	}
	return out
}

// ---------------------------------------------------------------------------
// Scans of a link list

// c11ListScan: loop l is continued by the test `idx < len(list)` at its header; list is the term of the slice.
func c11ListScan(tm *Termer, l *Loop) (list *Term, idx ssa.Value, ok bool) {
	h := l.Header
	iff, isIf := h.Instrs[len(h.Instrs)-1].(*ssa.If)
	if !isIf || len(h.Succs) != 2 || h.Succs[0] == h.Succs[1] {
		return nil, nil, false
	}
	var stay bool
	switch {
	case l.Blocks[h.Succs[0]] && !l.Blocks[h.Succs[1]]:
		stay = true
	case !l.Blocks[h.Succs[0]] && l.Blocks[h.Succs[1]]:
		stay = false
	default:
		return nil, nil, false
	}
	x, y, isLess := c13LessThan(iff.Cond, stay)
	if !isLess {
		return nil, nil, false
	}
	yt := tm.Of(y)
	if yt.Op != "len" || len(yt.Args) != 1 {
		return nil, nil, false
	}
	return yt.Args[0], x, true
}

// c11LinkEnd: t is `<list>[idx].<end>` - the far end (InNode / OutNode) of the link the scan over list is at.
func c11LinkEnd(t *Term, list string, idx ssa.Value) (end string, ok bool) {
	for t != nil && t.Op == "iface" && len(t.Args) == 1 {
		t = t.Args[0]
	}
	if t == nil || t.Op != "field" || len(t.Args) != 1 || (t.Name != "InNode" && t.Name != "OutNode") {
		return "", false
	}
	el := t.Args[0]
	if el.Op != "elem" || len(el.Args) < 2 || el.Args[0].String() != list || el.Args[1].V != idx {
		return "", false
	}
	return t.Name, true
}

// ---------------------------------------------------------------------------
// (neighbours) From / To list every link of the node

func (r *Run) c11NeighbourLists() {
	p := r.P
	nw := p.FuncOpt(PkgN, "Network.nodeWithID")
	for _, name := range []string{"From", "To"} {
		fn := p.Func(PkgN, "Network."+name)
		r.Fn(FuncName(fn))
		side, end, other := "Outgoing", "OutNode", "To"
		if name == "To" {
			side, end, other = "Incoming", "InNode", "From"
		}
		explored := 0
		why, witness := c11EveryLinkListed(p, fn, side, end, nw, &explored)
		r.PathsExplored += explored
		r.Check(why == "", "graph."+name+".neighbours.every-link", p.Pos(fn.Pos()),
			"every iteration of the scan over the node's "+side+" links lists that link's "+end+" once, the scan covers the whole list, and no result for a present node is returned before it ran",
			name+" does not list the "+end+" of EVERY "+side+" link of the node ("+why+"): a link that is left out is an edge that Edge/HasEdgeFromTo/Weight and "+other+" report but "+name+" denies", witness...)
	}
}

// c11EveryLinkListed returns "" when fn (From / To) provably lists <end> of every link of <node>.<side>.
func c11EveryLinkListed(p *Prog, fn *ssa.Function, side, end string, nw *ssa.Function, explored *int) (string, []string) {
	tf := NewTermer(fn)
	lk := newC11Lookup(fn, tf, nw)
	loops := Loops(fn)
	why, tried := "", 0
	var witness []string
	for _, l := range loops {
		lt, idx, ok := c11ListScan(tf, l)
		if !ok || lt.Op != "field" || lt.Name != side || len(lt.Args) != 1 || !lk.is(lt.Args[0].V) {
			continue
		}
		tried++
		w, wit := c11ScanListsAll(p, fn, tf, lk, loops, l, lt.String(), idx, end, explored)
		if w == "" {
			return "", nil
		}
		if why == "" {
			why, witness = w, wit
		}
	}
	if tried == 0 {
		return "there is no loop over the " + side + " links of the node found by the id lookup", nil
	}
	return why, witness
}

func c11ScanListsAll(p *Prog, fn *ssa.Function, tf *Termer, lk *c11Lookup, loops []*Loop, l *Loop, list string, idx ssa.Value, end string, explored *int) (string, []string) {
	return c11ScanLists(p, fn, tf, lk, l, list, idx, "the link's "+end, func(t *Term) bool {
		e, isEnd := c11LinkEnd(t, list, idx)
		return isEnd && e == end
	}, explored)
}

// c11ScanLists: every iteration of loop l (a scan `idx < len(list)`) lists the value accepted by `listed` exactly once -
// appended to the list the loop carries, or stored in slot idx of a list made with len(list) slots -, the loop visits
// every element of list, what is returned (for a present node, when lk != nil) is the list that was filled, and no
// result is returned before the loop ran to its end.
func c11ScanLists(p *Prog, fn *ssa.Function, tf *Termer, lk *c11Lookup, l *Loop, list string, idx ssa.Value, what string, listed func(*Term) bool, explored *int) (string, []string) {
	end := what
	paths, complete := EnumIterPaths(fn, l, 200)
	if !complete {
		return "the scan has too many paths to enumerate", nil
	}
	*explored += len(paths)
	hps := HeaderPhis(l)
	var carriers []ssa.Value
	var at *ssa.BasicBlock
	nBack := 0
	for _, ip := range paths {
		if ip.End != "back" {
			continue
		}
		nBack++
		nListed := 0
		for _, b := range ip.Blocks[:len(ip.Blocks)-1] {
			for _, in := range b.Instrs {
				st, ok := in.(*ssa.Store)
				if !ok {
					continue
				}
				ia, isIA := st.Addr.(*ssa.IndexAddr)
				if !isIA {
					continue
				}
				if !listed(tf.Of(st.Val)) {
					continue
				}
				var carrier ssa.Value
				if al, isAl := ia.X.(*ssa.Alloc); isAl {
					// the argument array of an append: the append runs on this path and its result is what the
					// loop carries on as the list
					for _, ref := range *al.Referrers() {
						sl, isSl := ref.(*ssa.Slice)
						if !isSl {
							continue
						}
						for _, r2 := range *sl.Referrers() {
							c, isCall := r2.(*ssa.Call)
							if !isCall || !ip.OnPath(c) {
								continue
							}
							base, elems, isApp := appendCall(c)
							if !isApp || len(elems) != 1 || elems[0] != st.Val {
								continue
							}
							sub := &IterPath{Blocks: ip.Blocks[:len(ip.Blocks)-1], End: "partial"}
							for _, hp := range hps {
								if ip.NextValue(hp) == ssa.Value(c) && sub.Resolve(base) == ssa.Value(hp) {
									carrier = hp
								}
							}
						}
					}
				} else if ms, isMake := ia.X.(*ssa.MakeSlice); isMake && ia.Index == idx && tf.Of(ms.Len).String() == "len("+list+")" {
					carrier = ia.X // slot idx of a list made with one slot per element
				}
				if carrier == nil {
					continue
				}
				nListed++
				carriers = append(carriers, carrier)
				at = st.Block()
			}
		}
		if nListed != 1 {
			return fmt.Sprintf("an iteration of the scan lists %s %d times", end, nListed), ip.Describe(p)
		}
	}
	if nBack == 0 {
		return "the scan never goes on to a second link", nil
	}
	sum := newC11Sum(fn, tf, nil)
	if w := sum.fullTraversal(sum.headerLoop(l.Header), idx, list, at); w != "" {
		return "the scan over " + list + " " + w, nil
	}
	// after fullTraversal: one block of the loop has the only exit
	var test *ssa.BasicBlock
	for b := range l.Blocks {
		for _, s := range b.Succs {
			if !l.Blocks[s] {
				test = b
			}
		}
	}
	absent := func(gs []Guard) bool {
		if lk == nil {
			return false
		}
		for _, g := range gs {
			if lk.absent(g) {
				return true
			}
		}
		return false
	}
	// the list that was filled is what is returned (results: robust_c11.go, c11Results)
	for _, res := range c11Results(fn, 0) {
		if absent(res.conds) {
			continue
		}
		for _, c := range carriers {
			if !c11FlowsFrom(res.v, c) {
				return "the list the links are collected in is not what is returned at " + p.Pos(res.ret.Pos()), nil
			}
		}
	}
	resTarget, resEdge := c11ResultTargets(absent)
	w := FindPath(p, PathQuery{Fn: fn, Explored: explored,
		Target: resTarget, TargetEdge: resEdge,
		AvoidEdge: func(from, to *ssa.BasicBlock) bool {
			if from == test && !l.Blocks[to] {
				return true
			}
			if iff, ok := from.Instrs[len(from.Instrs)-1].(*ssa.If); ok && len(from.Succs) == 2 && from.Succs[0] != from.Succs[1] {
				return condImpliesEmpty(tf, Guard{iff.Cond, from.Succs[0] == to, from}, list)
			}
			return false
		}})
	if w != nil {
		return "a result for a present node can be returned without the scan having run to its end", w
	}
	return "", nil
}

// c11FlowsFrom: src is among the values v is computed from (through phis, conversions, slicing and call arguments).
func c11FlowsFrom(v, src ssa.Value) bool {
	seen := map[ssa.Value]bool{}
	var visit func(x ssa.Value) bool
	visit = func(x ssa.Value) bool {
		if x == src {
			return true
		}
		if x == nil || seen[x] {
			return false
		}
		seen[x] = true
		switch y := x.(type) {
		case *ssa.Phi:
			for _, e := range y.Edges {
				if visit(e) {
					return true
				}
			}
		case *ssa.MakeInterface:
			return visit(y.X)
		case *ssa.ChangeInterface:
			return visit(y.X)
		case *ssa.ChangeType:
			return visit(y.X)
		case *ssa.Convert:
			return visit(y.X)
		case *ssa.Slice:
			return visit(y.X)
		case *ssa.Extract:
			return visit(y.Tuple)
		case *ssa.Call:
			for _, a := range y.Call.Args {
				if visit(a) {
					return true
				}
			}
		}
		return false
	}
	return visit(v)
}

// ---------------------------------------------------------------------------
// (lookup) edgeBetween for two ordinary nodes

// c11Ends classifies the values of edgeBetween that hold an endpoint found in allNodes: a variable (phi web) that
// receives, besides nil, only elements of recv.allNodes, each on an edge on which that element's id is known to
// equal uid (class 1) or vid (class 2).
type c11Ends struct {
	tm   *Termer
	memo map[ssa.Value]int
}

func (e *c11Ends) classOf(v ssa.Value) int {
	if c, ok := e.memo[v]; ok {
		return c
	}
	e.memo[v] = 0
	root, ok := v.(*ssa.Phi)
	if !ok {
		return 0
	}
	can := map[int]bool{1: true, 2: true}
	n := 0
	seen := map[*ssa.Phi]bool{}
	var walk func(ph *ssa.Phi)
	walk = func(ph *ssa.Phi) {
		if seen[ph] {
			return
		}
		seen[ph] = true
		for i, x := range ph.Edges {
			if in, isPhi := x.(*ssa.Phi); isPhi {
				walk(in)
				continue
			}
			if c11IsNilConst(x) {
				continue
			}
			n++
			asserted := map[int]bool{}
			if t := e.tm.Of(x); t.Op == "elem" && t.String() == "recv.allNodes[*]" {
				for _, g := range c11EdgeConds(ph.Block().Preds[i], ph.Block()) {
					a, b, isEq := eqCond(e.tm, g)
					if !isEq {
						continue
					}
					for _, pr := range [][2]*Term{{a, b}, {b, a}} {
						if s := c11IdSubject(pr[0]); s != nil && (s.V == x || sameElem(s, t)) {
							for _, k := range []int{1, 2} {
								if isParamIdx(pr[1], k) {
									asserted[k] = true
								}
							}
						}
					}
				}
			}
			for _, k := range []int{1, 2} {
				if !asserted[k] {
					delete(can, k)
				}
			}
		}
	}
	walk(root)
	c := 0
	if n > 0 && len(can) == 1 {
		for k := range can {
			c = k
		}
	}
	e.memo[v] = c
	return c
}

// idOf: t denotes the id of endpoint 1 (uid, or the id of the node found for it) or 2; 0 otherwise.
func (e *c11Ends) idOf(t *Term) int {
	for t != nil && t.Op == "conv" && len(t.Args) == 1 {
		t = t.Args[0]
	}
	for _, k := range []int{1, 2} {
		if isParamIdx(t, k) {
			return k
		}
	}
	if s := c11IdSubject(t); s != nil && s.V != nil {
		return e.classOf(s.V)
	}
	return 0
}

// idOfUnder: idOf in the case flag == val: an id variable selected by the flag stands for the id the case selects.
func (e *c11Ends) idOfUnder(t *Term, flag *ssa.Parameter, val bool) int {
	for t != nil && t.Op == "conv" && len(t.Args) == 1 {
		t = t.Args[0]
	}
	return e.idOf(c11TermUnderFlag(e.tm, t, flag, val))
}

type c11Match struct {
	iff *ssa.If
	eq  bool // the outcome on which the candidate's far end has the asked id
}

// c11OrdScan: a loop of edgeBetween over the links of one endpoint, comparing the far end of each with the other id.
type c11OrdScan struct {
	l        *Loop
	list     string // the term of the scanned slice as the loop names it
	shown    string // the list that is scanned in the case looked at
	from, to int    // the scan looks for a link from endpoint `from` to endpoint `to`
	tests    []c11Match
}

func (r *Run) c11OrdinaryScans() {
	p := r.P
	eb := p.Func(PkgN, "Network.edgeBetween")
	r.Fn(FuncName(eb))
	tm := NewTermer(eb)
	loops := Loops(eb)
	ends := &c11Ends{tm: tm, memo: map[ssa.Value]int{}}
	pos := p.Pos(eb.Pos())
	if len(eb.Params) < 4 {
		r.Undecided("edgeBetween.ordinary", pos, "edgeBetween does not have the parameters (uid, vid, directed)")
		return
	}
	directed := eb.Params[3]

	// The scans are classified per value of the direction flag: a loop whose list and compared id are variables
	// selected by the flag (`list, id := v.Incoming, uid; if !directed { list, id = u.Incoming, vid }`) is, within one
	// case, the scan of the one list with the one id the case selects (robust_c11.go, c11UnderFlag). Where nothing
	// depends on the flag both cases see the same scans.
	scansUnder := func(flag bool) []*c11OrdScan {
		var scans []*c11OrdScan
		for _, l := range loops {
			lt0, idx, ok := c11ListScan(tm, l)
			if !ok {
				continue
			}
			lt := c11TermUnderFlag(tm, lt0, directed, flag)
			if lt.Op != "field" || len(lt.Args) != 1 || (lt.Name != "Incoming" && lt.Name != "Outgoing") || lt.Args[0].V == nil {
				continue
			}
			ce := ends.classOf(lt.Args[0].V)
			if ce == 0 {
				continue
			}
			sc := &c11OrdScan{l: l, list: lt0.String(), shown: lt.String()}
			for _, b := range eb.Blocks {
				if !l.Blocks[b] || InnermostLoop(loops, b) != l {
					continue
				}
				iff, isIf := b.Instrs[len(b.Instrs)-1].(*ssa.If)
				if !isIf || len(b.Succs) != 2 || b.Succs[0] == b.Succs[1] {
					continue
				}
				for _, outcome := range []bool{true, false} {
					x, y, isEq := eqCond(tm, Guard{iff.Cond, outcome, b})
					if !isEq {
						continue
					}
					for _, pr := range [][2]*Term{{x, y}, {y, x}} {
						s := c11IdSubject(pr[0])
						if s == nil {
							continue
						}
						end, isEnd := c11LinkEnd(s, sc.list, idx)
						co := ends.idOfUnder(pr[1], directed, flag)
						if !isEnd || co == 0 {
							continue
						}
						var from, to int
						switch {
						case lt.Name == "Outgoing" && end == "OutNode":
							from, to = ce, co
						case lt.Name == "Incoming" && end == "InNode":
							from, to = co, ce
						default:
							continue
						}
						if sc.from != 0 && (sc.from != from || sc.to != to) {
							continue
						}
						sc.from, sc.to = from, to
						sc.tests = append(sc.tests, c11Match{iff, outcome})
					}
				}
			}
			if sc.from != 0 && sc.from != sc.to {
				scans = append(scans, sc)
			}
		}
		return scans
	}

	// what a return yields on a path: nil when the value is known to be nil; a value that is not known counts as a
	// link only when everything the result variable can receive besides nil is an element of a link list
	onlyLinks := map[ssa.Value]bool{}
	// an element of a node's link list (or of a variable holding nothing but such lists): never nil (Genesis appends constructor results)
	isLink := func(v ssa.Value) bool { return c11IsLinkElem(tm, v) }
	isLinkOrNil := func(v ssa.Value) bool {
		if ok, done := onlyLinks[v]; done {
			return ok
		}
		ok := true
		for _, f := range phiWeb(v).Feeders {
			if !isLink(f) {
				ok = false
			}
		}
		if len(phiWeb(v).Consts) > 0 {
			ok = false
		}
		onlyLinks[v] = ok
		return ok
	}
	nilResult := func(in ssa.Instruction, env pathEnv) bool {
		ret, ok := in.(*ssa.Return)
		if !ok || len(ret.Results) == 0 {
			return false
		}
		v := ret.Results[0]
		ev := env.eval(v)
		switch {
		case ev.known && ev.isNil:
			return true
		case ev.known && ev.nonNil:
			return false
		}
		return !isLinkOrNil(v)
	}
	endpointAbsent := func(from, to *ssa.BasicBlock) bool {
		iff, ok := from.Instrs[len(from.Instrs)-1].(*ssa.If)
		if !ok || len(from.Succs) != 2 || from.Succs[0] == from.Succs[1] {
			return false
		}
		return c11GuardImplies(Guard{iff.Cond, from.Succs[0] == to, from}, func(g Guard) bool {
			return GuardNilness(g, func(v ssa.Value) bool { return ends.classOf(v) != 0 }) == 1
		})
	}

	type need struct {
		id       string
		directed bool
		from, to int
		what     string
		breaks   string
	}
	needs := []need{
		{"edgeBetween.ordinary.directed", true, 1, 2, "directed query (u, v)",
			"Edge/WeightedEdge/Weight/HasEdgeFromTo deny an edge u->v that From(u) and To(v) list - for instance when the two nodes are also linked the other way round (forward gene plus recurrent gene) and the v->u link is found first"},
		{"edgeBetween.ordinary.undirected.forward", false, 1, 2, "undirected query {x, y}, link x->y",
			"HasEdgeBetween denies an edge that From/To list"},
		{"edgeBetween.ordinary.undirected.backward", false, 2, 1, "undirected query {x, y}, link y->x",
			"HasEdgeBetween denies an edge that From/To list"},
	}
	name := map[int]string{1: "u", 2: "v"}
	for _, nd := range needs {
		lists := fmt.Sprintf("%s.Outgoing compared on OutNode with the id of %s, or %s.Incoming compared on InNode with the id of %s", name[nd.from], name[nd.to], name[nd.to], name[nd.from])
		why, tried := "", 0
		var witness []string
		okAny := false
		for _, sc := range scansUnder(nd.directed) {
			if sc.from != nd.from || sc.to != nd.to {
				continue
			}
			tried++
			explored := 0
			w, wit := r.c11DecisiveScan(eb, sc, directed, nd.directed, nilResult, isLink, endpointAbsent, &explored)
			r.PathsExplored += explored
			if w == "" {
				okAny = true
				break
			}
			if why == "" {
				why, witness = w, wit
			}
		}
		if tried == 0 {
			why = "there is no scan of the links from " + name[nd.from] + " to " + name[nd.to] + " (" + lists + ")"
		}
		r.Check(okAny, nd.id, pos,
			nd.what+", both nodes ordinary: nil is answered only after a complete scan of a list holding every such link ("+lists+") in which no candidate matched",
			nd.what+", both nodes ordinary: edgeBetween can answer nil although a link "+name[nd.from]+"->"+name[nd.to]+" exists ("+why+"): "+nd.breaks, witness...)
	}
}

// c11DecisiveScan: with the direction flag fixed and both endpoints found, (c) a candidate of scan sc that matches
// never lets the scan go on, (b) no nil result is reachable unless sc was exhausted. Then a matching link in the
// list excludes a nil answer.
func (r *Run) c11DecisiveScan(eb *ssa.Function, sc *c11OrdScan, directed *ssa.Parameter, flag bool,
	nilResult func(ssa.Instruction, pathEnv) bool, isLink func(ssa.Value) bool, endpointAbsent func(from, to *ssa.BasicBlock) bool, explored *int) (string, []string) {
	p := r.P
	paths, complete := EnumIterPaths(eb, sc.l, 200)
	if !complete {
		return "the scan over " + sc.shown + " has too many paths to enumerate", nil
	}
	*explored += len(paths)
	for _, ip := range paths {
		if ip.End != "back" || c11FindsLinkNil(ip, isLink) {
			continue
		}
		mismatch := false
		for _, g := range ip.Conds {
			for _, m := range sc.tests {
				if g.Cond == m.iff.Cond && g.At == m.iff.Block() && g.True != m.eq {
					mismatch = true
				}
			}
		}
		if !mismatch {
			return "the scan over " + sc.shown + " can go on to the next link without the current one having been compared with the id and found different", ip.Describe(p)
		}
	}
	w := c11FindPathEnv(p, c11EnvQuery{Fn: eb, Explored: explored,
		Init:   pathEnv{directed: envVal{known: true, c: constant.MakeBool(flag)}},
		Target: nilResult,
		NonNil: isLink,
		AvoidEdge: func(from, to *ssa.BasicBlock) bool {
			return (from == sc.l.Header && !sc.l.Blocks[to]) || endpointAbsent(from, to)
		}})
	if w != nil {
		return "a nil result is reachable without the scan over " + strings.TrimSpace(sc.shown) + " having been exhausted", w
	}
	return "", nil
}

// ---------------------------------------------------------------------------
// Nodes(): one entry per element of allNodesMIMO

func (r *Run) c11NodesComplete() {
	p := r.P
	fn := p.Func(PkgN, "Network.Nodes")
	tf := NewTermer(fn)
	why, tried := "", 0
	var witness []string
	explored := 0
	for _, l := range Loops(fn) {
		lt, idx, ok := c11ListScan(tf, l)
		if !ok || lt.String() != "recv.allNodesMIMO" {
			continue
		}
		tried++
		list := lt.String()
		w, wit := c11ScanLists(p, fn, tf, nil, l, list, idx, "the node", func(t *Term) bool {
			for t != nil && t.Op == "iface" && len(t.Args) == 1 {
				t = t.Args[0]
			}
			return t != nil && t.Op == "elem" && len(t.Args) >= 2 && t.Args[0].String() == list && t.Args[1].V == idx
		}, &explored)
		if w == "" {
			why = ""
			break
		}
		if why == "" {
			why, witness = w, wit
		}
	}
	if tried == 0 {
		why = "there is no loop over recv.allNodesMIMO"
	}
	r.PathsExplored += explored
	r.Check(why == "", "graph.Nodes.every-node", p.Pos(fn.Pos()), "every element of allNodesMIMO is listed once (appended, or stored in its slot of a list with len(allNodesMIMO) slots) and that list is returned",
		"Nodes() does not list every node of allNodesMIMO exactly once ("+why+"): the node set of the graph view differs from the expressed nodes (or the call panics for a network with control nodes)", witness...)
}

// ---------------------------------------------------------------------------
// The boolean / weight answers of the edge queries

// c11TruthIsNonNil: the boolean v, used where conds hold, is true exactly when the looked-up edge is not nil:
// `edge != nil` in any spelling, or a constant under the matching nil test, or a variable that receives such values.
func c11TruthIsNonNil(v ssa.Value, conds []Guard, isLookup func(ssa.Value) bool, depth int) bool {
	switch x := v.(type) {
	case *ssa.Const:
		if x.Value == nil || x.Value.Kind() != constant.Bool {
			return false
		}
		want := constant.BoolVal(x.Value)
		for _, g := range conds {
			switch GuardNilness(g, isLookup) {
			case -1:
				if want {
					return true
				}
			case 1:
				if !want {
					return true
				}
			}
		}
		return false
	case *ssa.Phi:
		if depth > 4 {
			return false
		}
		for i, e := range x.Edges {
			if !c11TruthIsNonNil(e, c11EdgeConds(x.Block().Preds[i], x.Block()), isLookup, depth+1) {
				return false
			}
		}
		return true
	}
	a, b, op, ok := CmpFact(v, true)
	return ok && op.String() == "!=" && isLookup(a) && c11IsNilConst(b)
}

func (r *Run) c11QueryResults() {
	p := r.P
	eb := p.Func(PkgN, "Network.edgeBetween")
	lookups := map[*ssa.Function]bool{eb: true, p.Func(PkgN, "Network.Edge"): true, p.Func(PkgN, "Network.WeightedEdge"): true}
	isLookup := func(v ssa.Value) bool {
		c, ok := v.(*ssa.Call)
		if !ok {
			return false
		}
		callee := c.Call.StaticCallee()
		return callee != nil && lookups[callee]
	}
	for _, name := range []string{"HasEdgeFromTo", "HasEdgeBetween"} {
		fn := p.Func(PkgN, "Network."+name)
		ok, n := true, 0
		for _, b := range fn.Blocks {
			ret, isRet := b.Instrs[len(b.Instrs)-1].(*ssa.Return)
			if !isRet || len(ret.Results) != 1 {
				continue
			}
			n++
			if !c11TruthIsNonNil(ret.Results[0], Guards(b), isLookup, 0) {
				ok = false
			}
		}
		r.Check(ok && n > 0, "graph."+name+".answer", p.Pos(fn.Pos()), "true exactly when the edge lookup found a link", name+" does not answer `the looked-up edge is not nil`: an existing edge is denied or an absent one reported")
	}
	// Weight: (weight of the link found, true) / (_, false)
	fn := p.Func(PkgN, "Network.Weight")
	tf := NewTermer(fn)
	ok, n := true, 0
	why := ""
	for _, b := range fn.Blocks {
		ret, isRet := b.Instrs[len(b.Instrs)-1].(*ssa.Return)
		if !isRet || len(ret.Results) != 2 {
			continue
		}
		// one case per way the two results are set together
		type rcase struct {
			w, ok ssa.Value
			conds []Guard
		}
		cases := []rcase{{ret.Results[0], ret.Results[1], Guards(b)}}
		if pw, isPhi := ret.Results[0].(*ssa.Phi); isPhi {
			if po, isPhi2 := ret.Results[1].(*ssa.Phi); isPhi2 && po.Block() == pw.Block() {
				cases = nil
				for i := range pw.Edges {
					cases = append(cases, rcase{pw.Edges[i], po.Edges[i], c11EdgeConds(pw.Block().Preds[i], pw.Block())})
				}
			}
		}
		for _, c := range cases {
			n++
			if !c11TruthIsNonNil(c.ok, c.conds, isLookup, 0) {
				ok, why = false, "the flag is not `an edge was found`"
				continue
			}
			if k, isK := c.ok.(*ssa.Const); isK && k.Value != nil && k.Value.Kind() == constant.Bool && !constant.BoolVal(k.Value) {
				continue // no edge: the weight is unspecified
			}
			t := tf.Of(c.w)
			isW := (t.Op == "call" && len(t.Args) == 1 && (t.Name == "Weight" || strings.HasSuffix(t.Name, ".Weight")) && isLookup(t.Args[0].V)) ||
				(t.Op == "field" && t.Name == "ConnectionWeight" && len(t.Args) == 1 && isLookup(t.Args[0].V))
			if !isW {
				ok, why = false, "the weight returned with `true` is "+t.String()+", not the weight of the link found"
			}
		}
	}
	r.Check(ok && n > 0, "graph.Weight.answer", p.Pos(fn.Pos()), "(weight of the link found, true) when the lookup found a link, (_, false) otherwise", "Weight does not answer (weight of the link found, true) exactly when the edge exists: "+why)
}

// ---------------------------------------------------------------------------
// (lookup) edgeBetween when exactly one id is an ordinary node: the other end may be a control node
//
// A module is wired only on the control node's side: its inputs are the InNodes of the control node's Incoming
// links, its outputs the OutNodes of its Outgoing links. So with o the ordinary node and c the other id:
//   o -> c exists iff some control node with id c has an Incoming link whose InNode has id o,
//   c -> o exists iff some control node with id c has an Outgoing link whose OutNode has id o
// (these are the edges From/To list, C11.6 control-nodes.*). For each case (direction flag, which of u / v is the
// ordinary node) and each list that holds links of an asked direction the following makes a nil answer impossible
// while such a link exists (control node ids being unique):
//   (P1) the link scan runs only for a control node whose id was compared equal with the id that is NOT an ordinary node,
//   (P2) a candidate whose far end matches the ordinary node's id never lets the link scan go on,
//   (P3) no nil result is reachable unless that link scan, or the scan over all control nodes, was exhausted,
//   (P4) the scan over the control nodes goes on to the next one only on an id mismatch or after the link scan was exhausted.

type c11CtlCase struct {
	directed bool
	found    int // 1: u is the ordinary node (v is not), 2: v is
}

type c11Ctl struct {
	r        *Run
	eb       *ssa.Function
	tm       *Termer
	loops    []*Loop
	ends     *c11Ends
	directed *ssa.Parameter
}

// directedFact: what the branch outcome g says about the direction flag (ok false: nothing).
func (c *c11Ctl) directedFact(g Guard) (val, ok bool) {
	cond, neg := c13StripNot(g.Cond)
	if cond == ssa.Value(c.directed) {
		return g.True != neg, true
	}
	if x, y, op, isCmp := CmpFact(g.Cond, g.True); isCmp && x == ssa.Value(c.directed) {
		if k, isK := y.(*ssa.Const); isK && k.Value != nil && k.Value.Kind() == constant.Bool {
			switch op.String() {
			case "==":
				return constant.BoolVal(k.Value), true
			case "!=":
				return !constant.BoolVal(k.Value), true
			}
		}
	}
	return false, false
}

// contradicts: the branch outcome g cannot be taken in case cs.
func (c *c11Ctl) contradicts(g Guard, cs c11CtlCase) bool {
	// a branch on a short-circuit condition kept in a boolean (the case of a tagless switch): excluded when every way
	// of giving the boolean that value is (robust_c11.go, c11GuardCases)
	if _, isPhi := g.Cond.(*ssa.Phi); isPhi {
		return c11GuardImplies(g, func(x Guard) bool { return c.contradicts1(x, cs) })
	}
	return c.contradicts1(g, cs)
}

func (c *c11Ctl) contradicts1(g Guard, cs c11CtlCase) bool {
	if d, ok := c.directedFact(g); ok {
		return d != cs.directed
	}
	absent := 3 - cs.found
	if GuardNilness(g, func(v ssa.Value) bool { return c.ends.classOf(v) == cs.found }) == 1 {
		return true
	}
	if GuardNilness(g, func(v ssa.Value) bool { return c.ends.classOf(v) == absent }) == -1 {
		return true
	}
	return false
}

func (c *c11Ctl) edgeContradicts(from, to *ssa.BasicBlock, cs c11CtlCase) bool {
	iff, ok := from.Instrs[len(from.Instrs)-1].(*ssa.If)
	if !ok || len(from.Succs) != 2 || from.Succs[0] == from.Succs[1] {
		return false
	}
	return c.contradicts(Guard{iff.Cond, from.Succs[0] == to, from}, cs)
}

// idIn: which endpoint's id the term denotes in case cs (1 / 2; 0: not decided). A variable that holds uid on some
// paths and vid on others (cid / oid) is resolved through the assignments that can be reached in the case.
func (c *c11Ctl) idIn(t *Term, cs c11CtlCase, depth int) int {
	for t != nil && t.Op == "conv" && len(t.Args) == 1 {
		t = t.Args[0]
	}
	if t == nil || depth > 4 {
		return 0
	}
	if k := c.ends.idOf(t); k != 0 {
		return k
	}
	ph, ok := t.V.(*ssa.Phi)
	if !ok {
		return 0
	}
	res := 0
	for i, e := range ph.Edges {
		infeasible := false
		for _, g := range c11EdgeConds(ph.Block().Preds[i], ph.Block()) {
			if c.contradicts(g, cs) {
				infeasible = true
			}
		}
		if infeasible {
			continue
		}
		k := c.idIn(c.tm.Of(e), cs, depth+1)
		if k == 0 || (res != 0 && res != k) {
			return 0
		}
		res = k
	}
	return res
}

func (r *Run) c11ControlScans() {
	p := r.P
	eb := p.Func(PkgN, "Network.edgeBetween")
	pos := p.Pos(eb.Pos())
	if len(eb.Params) < 4 {
		return
	}
	tm := NewTermer(eb)
	c := &c11Ctl{r: r, eb: eb, tm: tm, loops: Loops(eb), ends: &c11Ends{tm: tm, memo: map[ssa.Value]int{}}, directed: eb.Params[3]}
	isLink := func(v ssa.Value) bool { return c11IsLinkElem(tm, v) }
	nilResult := func(in ssa.Instruction, env pathEnv) bool {
		ret, ok := in.(*ssa.Return)
		if !ok || len(ret.Results) == 0 {
			return false
		}
		v := ret.Results[0]
		ev := env.eval(v)
		switch {
		case ev.known && ev.isNil:
			return true
		case ev.known && ev.nonNil:
			return false
		}
		w := phiWeb(v)
		for _, f := range w.Feeders {
			if !isLink(f) {
				return true
			}
		}
		return len(w.Consts) > 0
	}
	name := map[int]string{1: "u", 2: "v"}
	type need struct {
		cs   c11CtlCase
		side string // the list of the control node that holds the asked links
	}
	var needs []need
	for _, found := range []int{1, 2} {
		// directed: u ordinary -> the link u->c is among c.Incoming; v ordinary -> c->v among c.Outgoing
		side := "Incoming"
		if found == 2 {
			side = "Outgoing"
		}
		needs = append(needs, need{c11CtlCase{true, found}, side})
		needs = append(needs, need{c11CtlCase{false, found}, "Incoming"}, need{c11CtlCase{false, found}, "Outgoing"})
	}
	for _, nd := range needs {
		end := "InNode"
		if nd.side == "Outgoing" {
			end = "OutNode"
		}
		dir := "undirected"
		if nd.cs.directed {
			dir = "directed"
		}
		id := fmt.Sprintf("edgeBetween.control.%s.%s-ordinary.%s", dir, name[nd.cs.found], nd.side)
		explored := 0
		why, witness := c.decisive(nd.cs, nd.side, end, nilResult, isLink, &explored)
		r.PathsExplored += explored
		what := fmt.Sprintf("%s query, only %s is an ordinary node", dir, name[nd.cs.found])
		r.Check(why == "", id, pos,
			what+": nil is answered only after the "+nd.side+" links of the control node with the other id were all compared ("+end+" id against the ordinary node's id) without a match, or after all control nodes were looked at",
			what+": edgeBetween can answer nil although the control node with the other id has a matching "+nd.side+" link ("+why+"): an edge between a node and a module that From/To list is denied by Edge/HasEdgeFromTo/HasEdgeBetween/Weight", witness...)
	}
}

func (c *c11Ctl) decisive(cs c11CtlCase, side, end string, nilResult func(ssa.Instruction, pathEnv) bool, isLink func(ssa.Value) bool, explored *int) (string, []string) {
	absent := 3 - cs.found
	why := "there is no scan over recv.controlNodes that selects the control node by the id that is not an ordinary node and compares the " + end + " of its " + side + " links with the ordinary node's id"
	var witness []string
	for _, o := range c.loops {
		ot, oidx, ok := c11ListScan(c.tm, o)
		if !ok || ot.String() != "recv.controlNodes" {
			continue
		}
		// the selection test of the control node
		var filters []c11Match
		for _, b := range c.eb.Blocks {
			if !o.Blocks[b] || InnermostLoop(c.loops, b) != o {
				continue
			}
			iff, isIf := b.Instrs[len(b.Instrs)-1].(*ssa.If)
			if !isIf || len(b.Succs) != 2 || b.Succs[0] == b.Succs[1] {
				continue
			}
			for _, outcome := range []bool{true, false} {
				x, y, isEq := eqCond(c.tm, Guard{iff.Cond, outcome, b})
				if !isEq {
					continue
				}
				for _, pr := range [][2]*Term{{x, y}, {y, x}} {
					s := c11IdSubject(pr[0])
					if s == nil || s.Op != "elem" || len(s.Args) < 2 || s.Args[0].String() != "recv.controlNodes" || s.Args[1].V != oidx {
						continue
					}
					if c.idIn(pr[1], cs, 0) == absent {
						filters = append(filters, c11Match{iff, outcome})
					}
				}
			}
		}
		if len(filters) == 0 {
			continue
		}
		for _, in := range c.loops {
			if in == o || !o.Blocks[in.Header] {
				continue
			}
			lt, idx, ok := c11ListScan(c.tm, in)
			if !ok || lt.Op != "field" || lt.Name != side || len(lt.Args) != 1 {
				continue
			}
			if cn := lt.Args[0]; cn.Op != "elem" || len(cn.Args) < 2 || cn.Args[0].String() != "recv.controlNodes" || cn.Args[1].V != oidx {
				continue
			}
			var tests []c11Match
			for _, b := range c.eb.Blocks {
				if !in.Blocks[b] || InnermostLoop(c.loops, b) != in {
					continue
				}
				iff, isIf := b.Instrs[len(b.Instrs)-1].(*ssa.If)
				if !isIf || len(b.Succs) != 2 || b.Succs[0] == b.Succs[1] {
					continue
				}
				for _, outcome := range []bool{true, false} {
					x, y, isEq := eqCond(c.tm, Guard{iff.Cond, outcome, b})
					if !isEq {
						continue
					}
					for _, pr := range [][2]*Term{{x, y}, {y, x}} {
						s := c11IdSubject(pr[0])
						if s == nil {
							continue
						}
						if e, isEnd := c11LinkEnd(s, lt.String(), idx); !isEnd || e != end {
							continue
						}
						if c.idIn(pr[1], cs, 0) == cs.found {
							tests = append(tests, c11Match{iff, outcome})
						}
					}
				}
			}
			if len(tests) == 0 {
				continue
			}
			w, wit := c.check(cs, o, in, lt.String(), filters, tests, nilResult, isLink, explored)
			if w == "" {
				return "", nil
			}
			why, witness = w, wit
		}
	}
	return why, witness
}

func c11HasOutcome(conds []Guard, ms []c11Match, equal bool) bool {
	for _, g := range conds {
		for _, m := range ms {
			if g.Cond == m.iff.Cond && g.At == m.iff.Block() && (g.True == m.eq) == equal {
				return true
			}
		}
	}
	return false
}

func (c *c11Ctl) check(cs c11CtlCase, o, in *Loop, list string, filters, tests []c11Match, nilResult func(ssa.Instruction, pathEnv) bool, isLink func(ssa.Value) bool, explored *int) (string, []string) {
	p := c.r.P
	// (P1)
	if !c11HasOutcome(Guards(in.Header), filters, true) {
		return "the scan over " + list + " is not confined to the control node whose id was compared equal with the id that is not an ordinary node", nil
	}
	infeasible := func(ip *IterPath) bool {
		for _, g := range ip.Conds {
			if c.contradicts(g, cs) {
				return true
			}
		}
		return c11FindsLinkNil(ip, isLink)
	}
	// (P2)
	paths, complete := EnumIterPaths(c.eb, in, 200)
	if !complete {
		return "the scan over " + list + " has too many paths to enumerate", nil
	}
	*explored += len(paths)
	for _, ip := range paths {
		if ip.End != "back" || infeasible(ip) {
			continue
		}
		if !c11HasOutcome(ip.Conds, tests, false) {
			return "the scan over " + list + " can go on to the next link without the current one having been compared with the ordinary node's id and found different", ip.Describe(p)
		}
	}
	// (P4)
	opaths, complete := EnumIterPaths(c.eb, o, 400)
	if !complete {
		return "the scan over the control nodes has too many paths to enumerate", nil
	}
	*explored += len(opaths)
	for _, ip := range opaths {
		if ip.End != "back" || infeasible(ip) {
			continue
		}
		if c11HasOutcome(ip.Conds, filters, false) {
			continue
		}
		exhausted := false
		for i := 0; i+1 < len(ip.Blocks); i++ {
			if ip.Blocks[i] == in.Header && !in.Blocks[ip.Blocks[i+1]] {
				exhausted = true
			}
		}
		if !exhausted {
			return "the scan goes on to the next control node although the id matched and the scan over " + list + " was not exhausted", ip.Describe(p)
		}
	}
	// (P3)
	w := c11FindPathEnv(p, c11EnvQuery{Fn: c.eb, Explored: explored,
		Init:   pathEnv{c.directed: envVal{known: true, c: constant.MakeBool(cs.directed)}},
		Target: nilResult,
		NonNil: isLink,
		AvoidEdge: func(from, to *ssa.BasicBlock) bool {
			return (from == in.Header && !in.Blocks[to]) || (from == o.Header && !o.Blocks[to]) || c.edgeContradicts(from, to, cs)
		}})
	if w != nil {
		return "a nil result is reachable without the scan over " + list + " or the scan over the control nodes having been exhausted", w
	}
	return "", nil
}

// ---------------------------------------------------------------------------
// (positive answers) a link is returned only where it was compared and found to join the two ids in the asked direction

func (r *Run) c11PositiveAnswers() {
	p := r.P
	eb := p.Func(PkgN, "Network.edgeBetween")
	if len(eb.Params) < 4 {
		return
	}
	tm := NewTermer(eb)
	c := &c11Ctl{r: r, eb: eb, tm: tm, loops: Loops(eb), ends: &c11Ends{tm: tm, memo: map[ssa.Value]int{}}, directed: eb.Params[3]}
	type leaf struct {
		v     ssa.Value
		conds []Guard
		pos   string
	}
	var leaves []leaf
	for _, b := range eb.Blocks {
		ret, ok := b.Instrs[len(b.Instrs)-1].(*ssa.Return)
		if !ok || len(ret.Results) == 0 {
			continue
		}
		// the tests known where the value is returned: one set per way of reaching the return (a condition such as
		// `!directed || uNode != nil` reaches it over two edges, none of which dominates it)
		atReturn := c11CondAlternatives(b, 3)
		var visit func(v ssa.Value, alts [][]Guard, d int)
		visit = func(v ssa.Value, alts [][]Guard, d int) {
			if c11IsNilConst(v) {
				return
			}
			if ph, isPhi := v.(*ssa.Phi); isPhi && d < 6 {
				// what was tested when the variable received the value, together with what is tested before it is returned
				for i, e := range ph.Edges {
					var both [][]Guard
					for _, a := range c11EdgeAlternatives(ph.Block().Preds[i], ph.Block(), 3) {
						for _, r0 := range atReturn {
							both = append(both, append(append([]Guard{}, a...), r0...))
						}
					}
					if len(both) > 64 {
						both = c11EdgeAlternatives(ph.Block().Preds[i], ph.Block(), 3)
					}
					visit(e, both, d+1)
				}
				return
			}
			for _, conds := range alts {
				leaves = append(leaves, leaf{v, conds, p.Pos(ret.Pos())})
			}
		}
		visit(ret.Results[0], atReturn, 0)
	}
	bad := ""
	dirName := map[bool]string{true: "directed", false: "undirected"}
	for _, lf := range leaves {
		t := tm.Of(lf.v)
		if t.Op != "elem" || len(t.Args) < 2 || !c11IsLinkList(t.Args[0]) {
			bad = "the result at " + lf.pos + " is " + t.String() + ", not a link taken from a node's link list"
			break
		}
		// The two values of the direction flag are looked at separately: a case that a test made before the return
		// excludes is skipped; within a case a list / id variable selected by the flag stands for the one value the
		// case selects (robust_c11.go, c11UnderFlag), and the flag's value is known.
		for _, flag := range []bool{true, false} {
			excluded := false
			for _, g := range lf.conds {
				if d, isD := c.directedFact(g); isD && d != flag {
					excluded = true
				}
			}
			if excluded {
				continue
			}
			lt, idx := c11TermUnderFlag(tm, t.Args[0], c.directed, flag), t.Args[1].V
			if lt.Op != "field" || len(lt.Args) != 1 || (lt.Name != "Incoming" && lt.Name != "Outgoing") {
				bad = "the result at " + lf.pos + " is, in a " + dirName[flag] + " query, an element of " + lt.String() + ", which is not one node's link list"
				break
			}
			wantEnd := "InNode"
			if lt.Name == "Outgoing" {
				wantEnd = "OutNode"
			}
			var others []*Term
			for _, g := range lf.conds {
				x, y, isEq := eqCond(tm, g)
				if !isEq {
					continue
				}
				for _, pr := range [][2]*Term{{x, y}, {y, x}} {
					if s := c11IdSubject(pr[0]); s != nil {
						if e, isEnd := c11LinkEnd(s, t.Args[0].String(), idx); isEnd && e == wantEnd {
							others = append(others, pr[1])
						}
					}
				}
			}
			if len(others) == 0 {
				bad = "the link " + t.String() + " is returned at " + lf.pos + " without the id of its " + wantEnd + " having been compared equal with an id of the query"
				break
			}
			holder := lt.Args[0]
			if ce := c.ends.classOf(holder.V); ce != 0 {
				ok := false
				for _, o := range others {
					co := c.ends.idOfUnder(o, c.directed, flag)
					if co == 0 || co == ce {
						continue
					}
					from, to := ce, co
					if lt.Name == "Incoming" {
						from, to = co, ce
					}
					if (from == 1 && to == 2) || !flag { // the reverse link answers only the undirected query
						ok = true
					}
				}
				if !ok {
					bad = "the link " + lt.String() + "[*] returned at " + lf.pos + " is, in a " + dirName[flag] + " query, not known to lead from u to v (or, for an undirected query only, from v to u)"
					break
				}
				continue
			}
			if holder.Op != "elem" || len(holder.Args) < 2 || holder.Args[0].String() != "recv.controlNodes" {
				bad = "the link " + t.String() + " returned at " + lf.pos + " belongs neither to an endpoint found in allNodes nor to a control node"
				break
			}
			for _, found := range []int{1, 2} {
				directed := flag
				cs := c11CtlCase{directed, found}
				feasible := true
				for _, g := range lf.conds {
					if c.contradicts(g, cs) {
						feasible = false
					}
				}
				if !feasible {
					// the tests made exclude that exactly this id is the only ordinary node; with both ordinary (or none)
					// no control node has the id it is selected by, so this return is not reached
					continue
				}
				matchOK, filterOK := false, false
				for _, o := range others {
					if c.idIn(o, cs, 0) == found {
						matchOK = true
					}
				}
				for _, g := range lf.conds {
					x, y, isEq := eqCond(tm, g)
					if !isEq {
						continue
					}
					for _, pr := range [][2]*Term{{x, y}, {y, x}} {
						if s := c11IdSubject(pr[0]); s != nil && s.Op == "elem" && len(s.Args) >= 2 && s.Args[0].String() == "recv.controlNodes" && s.Args[1].V == holder.Args[1].V {
							if c.idIn(pr[1], cs, 0) == 3-found {
								filterOK = true
							}
						}
					}
				}
				dirOK := !directed || (lt.Name == "Incoming" && found == 1) || (lt.Name == "Outgoing" && found == 2)
				if !matchOK || !filterOK || !dirOK {
					name := map[int]string{1: "u", 2: "v"}
					bad = fmt.Sprintf("for a %s query in which only %s is an ordinary node the link %s can be returned at %s (far end compared with the ordinary node's id: %v; control node selected by the other id: %v; link leads from u to v: %v)", dirName[directed], name[found], t, lf.pos, matchOK, filterOK, dirOK)
				}
			}
			if bad != "" {
				break
			}
		}
		if bad != "" {
			break
		}
	}
	r.Check(bad == "" && len(leaves) > 0, "edgeBetween.positive", p.Pos(eb.Pos()), fmt.Sprintf("%d link results, each returned only after its far end was compared equal with the right id and, for a directed query, only when it leads from u to v", len(leaves)),
		"edgeBetween can return a link that does not join the two ids in the asked direction ("+bad+"): an absent edge is reported by Edge/HasEdgeFromTo/HasEdgeBetween/Weight")
}

// c11IsEmptyList: v is a list without elements: nil, make([]T, 0[, cap]) or an empty literal.
func c11IsEmptyList(v ssa.Value) bool {
	switch x := v.(type) {
	case *ssa.Const:
		return x.Value == nil
	case *ssa.MakeSlice:
		return c11IsZero(x.Len)
	case *ssa.Slice:
		// make([]T, 0, k) with constant arguments is compiled to a slice [:0] of a new array
		if al, ok := x.X.(*ssa.Alloc); ok {
			if x.High != nil && c11IsZero(x.High) {
				return true
			}
			if pt, isPtr := al.Type().Underlying().(*types.Pointer); isPtr && x.High == nil {
				if at, isArr := pt.Elem().Underlying().(*types.Array); isArr {
					return at.Len() == 0
				}
			}
		}
	}
	return false
}

// c11CondAlternatives: the branch outcomes known in b, one set per way of reaching b: where b has several
// predecessors (none of its entering edges dominates it) each entering edge is followed backwards, up to depth joins.
func c11CondAlternatives(b *ssa.BasicBlock, depth int) [][]Guard {
	if len(b.Preds) <= 1 || depth == 0 {
		return [][]Guard{Guards(b)}
	}
	var out [][]Guard
	for _, pr := range b.Preds {
		if b.Dominates(pr) { // a back edge: the facts of the loop body are not facts about reaching b
			return [][]Guard{Guards(b)}
		}
	}
	for _, pr := range b.Preds {
		out = append(out, c11EdgeAlternatives(pr, b, depth-1)...)
	}
	if len(out) > 32 {
		return [][]Guard{Guards(b)}
	}
	return out
}

// c11EdgeAlternatives: the same for control leaving pred towards succ.
func c11EdgeAlternatives(pred, succ *ssa.BasicBlock, depth int) [][]Guard {
	var own []Guard
	if iff, ok := pred.Instrs[len(pred.Instrs)-1].(*ssa.If); ok && len(pred.Succs) == 2 && pred.Succs[0] != pred.Succs[1] {
		own = append(own, Guard{iff.Cond, pred.Succs[0] == succ, pred})
	}
	var out [][]Guard
	for _, a := range c11CondAlternatives(pred, depth) {
		out = append(out, append(append([]Guard{}, a...), own...))
	}
	return out
}

// c11FindsLinkNil: some test on the path finds nil a variable that, on this path, holds an element of a link list
// (never nil): the path cannot be taken.
func c11FindsLinkNil(ip *IterPath, isLink func(ssa.Value) bool) bool {
	for _, g := range ip.Conds {
		x, y, op, ok := CmpFact(g.Cond, g.True)
		if !ok || op.String() != "==" || !c11IsNilConst(y) {
			continue
		}
		// the value x has where the test is made
		upto := -1
		for i, b := range ip.Blocks {
			if b == g.At {
				upto = i
			}
		}
		if upto < 0 {
			continue
		}
		sub := &IterPath{Blocks: ip.Blocks[:upto+1], End: "partial"}
		if v := sub.Resolve(x); v != x && isLink(v) {
			return true
		}
	}
	return false
}
