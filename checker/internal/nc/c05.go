package nc

import (
	"fmt"
	"go/token"
	"sort"
	"strings"

	"golang.org/x/tools/go/ssa"
)

func init() { register("C05", C05) }

// selectedUnderTests decides the flagged-selection protocol used by the
// structural mutators: a candidate is stored in a variable (web of `chosen`),
// a boolean flag (web of `flag`) records that it passed its tests, and the
// action is guarded by the flag.
//
//	N1 every edge on which the flag becomes true is taken only when the tests
//	   (given as predicates over the candidate value) hold for a candidate that feeds the variable;
//	N2 after the flag became true no new candidate is drawn before the action
//	   (flag-sensitive path search, so loop conditions on the flag are honoured);
//	N3 the action is guarded by the flag being true.
type candidateTest struct {
	name string
	ok   func(tm *Termer, g Guard, cand ssa.Value) bool
}

func (r *Run) selectedUnderTests(label string, fn *ssa.Function, tm *Termer, action ssa.Instruction, chosen ssa.Value, tests []candidateTest) (flag ssa.Value) {
	p := r.P
	web := phiWeb(chosen)
	// N3
	var want bool
	for _, g := range Guards(action.Block()) {
		if f, w, ok := boolFlagOf(g.Cond); ok && g.True == w {
			flag, want = f, true
		}
	}
	_ = want
	if flag == nil {
		// Equivalent protocol without a separate flag: the variable itself records the outcome (nil = nothing
		// selected, e.g. a lookup helper with early returns). The object acted on is then whatever candidate
		// flowed into the variable, so N1 is demanded on EVERY edge on which a candidate enters the variable's
		// phi web, for that very candidate; N2 is implied (a later draw can replace the selected object only
		// through another such edge, which is tested as well) and N3 is the nil test.
		sites, _ := ptrSites(chosen)
		if _, isPhi := stripCT(chosen).(*ssa.Phi); !isPhi || len(sites) == 0 || !nonNilGuarded(action.Block(), chosen) {
			r.Bad(label+".guarded-by-flag", p.Pos(action.Pos()), "the action is not guarded by the flag that records a successful selection")
			return nil
		}
		r.OK(label+".guarded-by-flag", p.Pos(action.Pos()), "the action runs only when the selection left a candidate (nil records a failed selection)")
		for _, s := range sites {
			conds := effCondsAt(s.From, s.To, s.Val)
			var missing []string
			for _, t := range tests {
				hit := false
				for _, g := range conds {
					if t.ok(tm, g, s.Val) {
						hit = true
					}
				}
				if !hit {
					missing = append(missing, t.name)
				}
			}
			r.Check(len(missing) == 0, label+".tests", p.Pos(firstBlockPos(s.From)), "a candidate becomes the selection only after it passed every test",
				"a candidate becomes the selection on a path where it was not tested for: "+strings.Join(missing, ", "), describeBlock(p, s.From, nil))
			r.OK(label+".final", p.Pos(firstBlockPos(s.From)), "the selection is carried by the variable itself: it can be replaced only by another tested candidate")
		}
		return nil
	}
	r.OK(label+".guarded-by-flag", p.Pos(action.Pos()), "the action runs only when the selection flag is true")
	// N1
	sites := flagSites(flag, true)
	if len(sites) == 0 {
		r.Bad(label+".flag-sites", p.Pos(fn.Pos()), "the selection flag is never set")
		return flag
	}
	for _, s := range sites {
		conds := condsAt(s.From, s.To)
		var okCand ssa.Value
		var missing []string
		for _, cand := range web.Feeders {
			missing = missing[:0]
			for _, t := range tests {
				hit := false
				for _, g := range conds {
					if t.ok(tm, g, cand) {
						hit = true
					}
				}
				if !hit {
					missing = append(missing, t.name)
				}
			}
			if len(missing) == 0 {
				okCand = cand
				break
			}
		}
		cons := label + ".tests"
		if okCand == nil {
			r.Bad(cons, p.Pos(firstBlockPos(s.From)), "the selection flag is set on a path where the candidate was not tested for: "+strings.Join(missing, ", "), describeBlock(p, s.From, nil))
			continue
		}
		r.OK(cons, p.Pos(firstBlockPos(s.From)), "flag set only after the candidate passed every test")
		// N2
		defs := map[ssa.Instruction]bool{}
		for _, f := range web.Feeders {
			if in := definingInstr(f); in != nil {
				defs[in] = true
			}
		}
		path := FindPath(p, PathQuery{Fn: fn, StartEdge: [2]*ssa.BasicBlock{s.From, s.To}, Explored: &r.PathsExplored,
			Target: func(in ssa.Instruction) bool { return defs[in] },
			Avoid:  func(in ssa.Instruction) bool { return in == action }})
		r.Check(path == nil, label+".final", p.Pos(firstBlockPos(s.From)),
			"once the flag is set no other candidate is drawn before the action",
			"after a candidate passed its tests the search can continue and replace it by an untested candidate while the flag stays set", path...)
	}
	return flag
}

// geneCtorArgs: the arguments of the NewGeneWithTrait calls feeding the value v.
type geneCall struct {
	call *ssa.Call
	args []ssa.Value
}

func geneFeeders(p *Prog, v ssa.Value) ([]geneCall, []ssa.Value) {
	ctor := p.Func(PkgG, "NewGeneWithTrait")
	var out []geneCall
	var other []ssa.Value
	// c05Web: the value may be carried by a field of a by-value struct local (robust_c05.go)
	for _, f := range c05Web(v).Feeders {
		if c, ok := f.(*ssa.Call); ok && c.Call.StaticCallee() == ctor {
			out = append(out, geneCall{c, c.Call.Args})
		} else {
			other = append(other, f)
		}
	}
	return out, other
}

func isConstFloat(v ssa.Value, f float64) bool {
	t := constTermOf(v)
	return t != nil && t.Op == "const" && t.Name == fmt.Sprintf("%g", f)
}

func constTermOf(v ssa.Value) *Term {
	if c, ok := v.(*ssa.Const); ok {
		return constTerm(c)
	}
	return nil
}

// checkGeneCtor: NewGeneWithTrait(trait, weight, in, out, recurrent, innov, mut) builds an enabled gene with those values.
func (r *Run) checkGeneCtor(sums *Summaries) {
	p := r.P
	fn := p.Func(PkgG, "NewGeneWithTrait")
	r.Fn(FuncName(fn))
	sm := sums.Ctor(fn)
	if sm.Why != "" {
		r.Undecided("NewGeneWithTrait", p.Pos(fn.Pos()), sm.Why)
		return
	}
	en := sm.Fields[p.Field(PkgG, "Gene", "IsEnabled")]
	in := sm.Fields[p.Field(PkgG, "Gene", "InnovationNum")]
	mu := sm.Fields[p.Field(PkgG, "Gene", "MutationNum")]
	lt := sm.Fields[p.Field(PkgG, "Gene", "Link")]
	ok := en != nil && en.String() == "true" && in != nil && isParamIdx(in, 5) && mu != nil && isParamIdx(mu, 6)
	okL := false
	if lt != nil {
		if c, isC := lt.V.(*ssa.Call); isC && c.Call.StaticCallee() != nil {
			inner := sums.Ctor(c.Call.StaticCallee())
			if inner.Why == "" {
				get := func(n string) *Term { return Subst(inner.Fields[p.Field(PkgN, "Link", n)], lt.Args) }
				w, a, b, rc, tr := get("ConnectionWeight"), get("InNode"), get("OutNode"), get("IsRecurrent"), get("Trait")
				okL = w != nil && isParamIdx(w, 1) && a != nil && isParamIdx(a, 2) && b != nil && isParamIdx(b, 3) && rc != nil && isParamIdx(rc, 4) && tr != nil && isParamIdx(tr, 0)
			}
		}
	}
	r.Check(ok && okL, "NewGeneWithTrait", p.Pos(fn.Pos()), "builds an enabled gene: (trait, weight, in, out, recurrent, innovation, mutation) land in the fields of the same name",
		fmt.Sprintf("NewGeneWithTrait does not build an enabled gene from its arguments position by position (IsEnabled=%v InnovationNum=%v MutationNum=%v link ok=%v)", en, in, mu, okL))
}

// C05 — structural and parametric mutations change exactly what they document.
func C05(p *Prog, r *Run) {
	r.Explanation = "Decided per mutator, on every path of its SSA form: add-node disables exactly one gene, the one selected under IsEnabled && in-node not bias (flagged selection: the flag is set only after the tests on the candidate, no new candidate is drawn afterwards, the action is guarded by the flag); the two new genes are built, on the reuse and on the novel path alike, as (trait, 1.0, a, n, old recurrence flag) and (trait, w, n, b, false) from the split gene's own link, n a new hidden node; success returns only after exactly two gene insertions and one node insertion. add-link inserts exactly one gene between two elements of the genome's node list, reachable only when the target was not rejected as a sensor and a full scan of the genes found no gene with the same (in id, out id, recurrence) - the scan's hit condition may only consist of those three equalities. connect-sensors creates genes from one sensor taken from the list of sensors without outgoing gene to the non-sensor nodes, skipping a target only when that link exists. Transitive write sets (which fields of objects reachable from the receiver a mutator stores to) are computed over the call graph and compared with the documented sets; toggle-enable disables only under (other gene, same in-node, enabled, different innovation); re-enable enables one disabled gene, the first in list order, and stops. Not decided: random choice distributions; that geneInsert keeps the order (C01)."
	sums := NewSummaries(p)
	enabledF := p.Field(PkgG, "Gene", "IsEnabled")
	geneInsert := p.Func(PkgG, "Genome.geneInsert")
	nodeInsert := p.Func(PkgG, "Genome.nodeInsert")

	r.Rule("C05.1", "add-node: one gene disabled, selected under IsEnabled and non-bias source; two genes (trait,1,a,n,recurrence) and (trait,w,n,b,false); success = two gene insertions + one node insertion; write set", func() {
		fn := p.Func(PkgG, "Genome.mutateAddNode")
		r.Fn(FuncName(fn))
		tm := NewTermer(fn)
		r.checkGeneCtor(sums)
		stores := FieldStores(fn, enabledF)
		if len(stores) != 1 || !IsConstBool(stores[0].Val, false) {
			r.Bad("add-node.disable", p.Pos(fn.Pos()), fmt.Sprintf("add-node contains %d stores to Gene.IsEnabled; exactly one store of false (the split gene) is expected", len(stores)))
			return
		}
		S := stores[0]
		G := S.Addr.(*ssa.FieldAddr).X
		web := phiWeb(G)
		okSrc := len(web.Feeders) > 0
		for _, f := range web.Feeders {
			if !isElemOfRecvField(tm.Of(f), "Genes") {
				okSrc = false
			}
		}
		r.Check(okSrc, "add-node.disable.target", p.Pos(S.Pos()), "the disabled gene is an element of the genome's gene list", "the gene that is disabled is not (only) an element of recv.Genes: "+tm.Of(G).String())
		bias := p.Const(PkgN, "BiasNeuron").Val().ExactString()
		r.selectedUnderTests("add-node.select", fn, tm, S, G, []candidateTest{
			{"gene.IsEnabled", func(tm *Termer, g Guard, c ssa.Value) bool { return boolFieldCond(tm, g, c, true, "IsEnabled") }},
			{"gene.Link.InNode.NeuronType != BiasNeuron", func(tm *Termer, g Guard, c ssa.Value) bool {
				a, b, ok := neqCond(tm, g)
				if !ok {
					return false
				}
				if b.Op != "const" {
					a, b = b, a
				}
				return b.Op == "const" && b.Name == bias && fieldChainOn(a, c, "Link", "InNode", "NeuronType")
			}},
		})
		// the success block
		gi, ni := CallsTo(fn, geneInsert), CallsTo(fn, nodeInsert)
		// C05 speaks about what is added, not where in the list: the plain append is accepted here (C01 demands the ordered helper)
		ni = append(ni, CallsTo(fn, p.Func(PkgG, "Genome.addNode"))...)
		if len(gi) != 2 || len(ni) != 1 {
			r.Bad("add-node.inserts", p.Pos(fn.Pos()), fmt.Sprintf("add-node has %d gene insertions and %d node insertions; a successful mutation adds exactly two genes and one node", len(gi), len(ni)))
			return
		}
		sort.Slice(gi, func(i, j int) bool { return instrBefore(gi[i], gi[j]) })
		same := gi[0].Block() == gi[1].Block() && gi[0].Block() == ni[0].Block()
		notLooped := InnermostLoop(Loops(fn), gi[0].Block()) == nil
		okRet, nTrue := true, 0
		for _, b := range fn.Blocks {
			if ret, ok := b.Instrs[len(b.Instrs)-1].(*ssa.Return); ok {
				if IsConstBool(ret.Results[0], true) {
					nTrue++
					if !(b == gi[0].Block() || gi[0].Block().Dominates(b)) {
						okRet = false
					}
				} else if !IsConstBool(ret.Results[0], false) {
					okRet = false
				} else if b == gi[0].Block() || gi[0].Block().Dominates(b) {
					okRet = false
				}
			}
		}
		r.Check(same && notLooped && okRet && nTrue > 0, "add-node.success-shape", p.Pos(gi[0].Pos()), "success is reported exactly on the path that inserts two genes and one node",
			fmt.Sprintf("success and the three insertions do not coincide (inserts in one block=%v, outside loops=%v, `true` returned exactly after them=%v)", same, notLooped, okRet))
		// the inserted objects are disabled-gene-guarded: inserts come after the disable store
		r.Check(instrBefore(S, gi[0]), "add-node.disable-before-insert", p.Pos(S.Pos()), "the split gene is disabled on the success path", "the success path does not pass the store that disables the split gene")
		// gene arguments
		hidden := p.Const(PkgN, "HiddenNeuron").Val().ExactString()
		nodes, otherN := c05Web(ni[0].Common().Args[1]).Feeders, 0
		for _, n := range nodes {
			c, ok := n.(*ssa.Call)
			if !ok || c.Call.StaticCallee() != p.Func(PkgN, "NewNNode") {
				otherN++
				continue
			}
			r.Check(constTermOf(c.Call.Args[1]) != nil && constTermOf(c.Call.Args[1]).Name == hidden, "add-node.node-role", p.Pos(c.Pos()), "the new node is hidden", "the new node is not created as a hidden neuron")
		}
		r.Check(otherN == 0 && len(nodes) >= 1, "add-node.node-origin", p.Pos(ni[0].Pos()), "the inserted node is a newly created node", "the inserted node is not (only) a node created by NewNNode")
		for k, call := range gi {
			gcs, other := geneFeeders(p, call.Common().Args[1])
			if len(other) > 0 || len(gcs) == 0 {
				r.Bad(fmt.Sprintf("add-node.gene%d.origin", k+1), p.Pos(call.Pos()), "an inserted gene is not built by NewGeneWithTrait in this function")
				continue
			}
			for _, gc := range gcs {
				a := gc.args
				cons := fmt.Sprintf("add-node.gene%d", k+1)
				tr := fieldChainOnWeb(tm.Of(a[0]), G, "Link", "Trait")
				isNode := func(v ssa.Value) bool {
					for _, n := range nodes {
						if n == v {
							return true
						}
					}
					if ph, ok := v.(*ssa.Phi); ok {
						for _, f := range phiWeb(ph).Feeders {
							for _, n := range nodes {
								if n == f {
									return true
								}
							}
						}
						return false
					}
					// a read of a field of a by-value struct local: every value the field can hold is one of the inserted nodes
					if w := c05Web(v); len(w.Feeders) > 0 && !(len(w.Feeders) == 1 && w.Feeders[0] == v) {
						for _, f := range w.Feeders {
							in := false
							for _, n := range nodes {
								in = in || n == f
							}
							if !in {
								return false
							}
						}
						return true
					}
					return false
				}
				var ok bool
				var want string
				if k == 0 {
					want = "(trait of the split link, 1.0, its in-node, the new node, its recurrence flag)"
					ok = tr && isConstFloat(a[1], 1) && fieldChainOnWeb(tm.Of(a[2]), G, "Link", "InNode") && isNode(a[3]) && fieldChainOnWeb(tm.Of(a[4]), G, "Link", "IsRecurrent")
				} else {
					want = "(trait of the split link, its weight, the new node, its out-node, false)"
					ok = tr && fieldChainOnWeb(tm.Of(a[1]), G, "Link", "ConnectionWeight") && isNode(a[2]) && fieldChainOnWeb(tm.Of(a[3]), G, "Link", "OutNode") && IsConstBool(a[4], false)
				}
				// both genes of one path use the same node
				r.Check(ok, cons, p.Pos(gc.call.Pos()), "gene "+fmt.Sprint(k+1)+" = "+want,
					fmt.Sprintf("gene %d of the split is built from (%s); expected %s of the gene being disabled", k+1, termsString(callArgTerms(tm, &gc.call.Call)[:5]), want))
			}
		}
		// per path the two genes share the node
		g1, _ := geneFeeders(p, gi[0].Common().Args[1])
		g2, _ := geneFeeders(p, gi[1].Common().Args[1])
		pairOK := len(g1) == len(g2)
		for _, a := range g1 {
			found := false
			for _, b := range g2 {
				if a.call.Block() == b.call.Block() && c05SameCellRead(a.args[3], b.args[2]) {
					found = true
				}
			}
			if !found {
				pairOK = false
			}
		}
		r.Check(pairOK, "add-node.same-node", p.Pos(fn.Pos()), "both genes of a split go through the same new node", "the two genes created on one path do not share the new node (a->n, n->b)")
		// write set
		ws, _ := p.writeSet(fn, 0)
		// Genome.Phenotype is the cache of the expressed network, not genetic material; what may be stored there is C11.8's (nil, or what Genesis built)
		allowed := map[string]string{"Gene.IsEnabled": "", "Genome.Genes": "", "Genome.Nodes": "", "mapupdate": "node index", "elem:Genes": "", "elem:Nodes": "", "Genome.Phenotype": "cache"}
		_ = nodeInsert
		bad := []string{}
		for _, k := range sortedKeys(ws) {
			if _, ok := allowed[k]; !ok {
				bad = append(bad, fmt.Sprintf("%s (at %s via %s)", k, p.Pos(ws[k].Pos), strings.Join(ws[k].Via, " -> ")))
			}
		}
		r.Check(len(bad) == 0, "add-node.write-set", p.Pos(fn.Pos()), "writes through the receiver: "+strings.Join(sortedKeys(ws), ", "), "add-node also modifies: "+strings.Join(bad, "; "))
	})

	r.Rule("C05.2", "add-link: exactly one gene between two elements of the node list, never into a sensor, never duplicating a link with the same endpoints and recurrence flag", func() {
		r.checkAddLink(sums)
	})

	r.Rule("C05.3", "connect-sensors: genes from one sensor without outgoing gene to the non-sensor nodes, a target skipped only when that link exists", func() {
		r.checkConnectSensors(sums)
	})

	r.Rule("C05.4", "write sets of the parametric mutators (transitive, through the receiver)", func() {
		want := map[string][]string{
			"mutateLinkWeights":  {"Link.ConnectionWeight", "Gene.MutationNum"},
			"mutateRandomTrait":  {"elem:Params"},
			"mutateLinkTrait":    {"Link.Trait"},
			"mutateNodeTrait":    {"NNode.Trait"},
			"mutateToggleEnable": {"Gene.IsEnabled"},
			"mutateGeneReEnable": {"Gene.IsEnabled"},
		}
		names := sortedKeys(want)
		for _, n := range names {
			fn := p.Func(PkgG, "Genome."+n)
			r.Fn(FuncName(fn))
			ws, _ := p.writeSet(fn, 0)
			allowed := map[string]bool{"Genome.Phenotype": true} // the cache of the expressed network may be dropped (C11.8 says what may be stored)
			for _, k := range want[n] {
				allowed[k] = true
			}
			var bad, missing []string
			for _, k := range sortedKeys(ws) {
				if !allowed[k] {
					bad = append(bad, fmt.Sprintf("%s (at %s)", k, p.Pos(ws[k].Pos)))
				}
			}
			for _, k := range want[n] {
				if _, ok := ws[k]; !ok {
					missing = append(missing, k)
				}
			}
			r.Check(len(bad) == 0, n+".write-set", p.Pos(fn.Pos()), "writes only "+strings.Join(want[n], ", "), n+" also writes "+strings.Join(bad, "; ")+": it must change nothing but "+strings.Join(want[n], ", "))
			r.Check(len(missing) == 0, n+".effect", p.Pos(fn.Pos()), "has its documented effect", n+" no longer writes "+strings.Join(missing, ", "))
		}
		// the dispatcher applies only these
		fn := p.Func(PkgG, "Genome.mutateAllNonstructural")
		ws, _ := p.writeSet(fn, 0)
		allowed := map[string]bool{"Genome.Phenotype": true}
		for _, v := range want {
			for _, k := range v {
				allowed[k] = true
			}
		}
		var bad []string
		for _, k := range sortedKeys(ws) {
			if !allowed[k] {
				bad = append(bad, k)
			}
		}
		r.Check(len(bad) == 0, "mutateAllNonstructural.write-set", p.Pos(fn.Pos()), "non-structural mutation writes only weights, mutation numbers, traits and enabled flags", "mutateAllNonstructural also writes "+strings.Join(bad, ", "))
	})

	r.Rule("C05.5", "toggle-enable disables a gene only when another enabled gene with a different innovation number leaves the same node", func() {
		fn := p.Func(PkgG, "Genome.mutateToggleEnable")
		r.Fn(FuncName(fn))
		tm := NewTermer(fn)
		n := 0
		for _, st := range FieldStores(fn, enabledF) {
			n++
			if !IsConstBool(st.Val, false) {
				r.Bad("toggle.store", p.Pos(st.Pos()), "toggle-enable stores something other than false into IsEnabled (enabling is re-enable's job, and an unguarded toggle can isolate a node)")
				continue
			}
			gene := st.Addr.(*ssa.FieldAddr).X
			r.Check(isElemOfRecvField(tm.Of(gene), "Genes"), "toggle.target", p.Pos(st.Pos()), "the toggled gene is an element of the gene list", "the toggled gene is "+tm.Of(gene).String())
			// outcomes known at the store, also those established by a boolean search result that guards it
			// (an extracted `has other enabled gene` helper): see effGuards for why they speak about this gene
			conds := effGuards(st.Block(), gene)
			var other ssa.Value
			sameNode, otherEnabled, differs, selfEnabled := false, false, false, false
			for _, g := range conds {
				if a, b, ok := eqCond(tm, g); ok {
					for _, pr := range [][2]*Term{{a, b}, {b, a}} {
						if fieldChainOn(pr[1], gene, "Link", "InNode", "Id") && pr[0].Op == "field" {
							if base, path := pr[0].FieldPath(); strings.Join(path, ".") == "Link.InNode.Id" && base.V != gene {
								sameNode, other = true, base.V
							}
						}
						// pointer comparison of the nodes themselves is equally good
						if fieldChainOn(pr[1], gene, "Link", "InNode") && pr[0].Op == "field" {
							if base, path := pr[0].FieldPath(); strings.Join(path, ".") == "Link.InNode" && base.V != gene {
								sameNode, other = true, base.V
							}
						}
					}
				}
			}
			for _, g := range conds {
				if other != nil && boolFieldCond(tm, g, other, true, "IsEnabled") {
					otherEnabled = true
				}
				if boolFieldCond(tm, g, gene, true, "IsEnabled") {
					selfEnabled = true
				}
				if a, b, ok := neqCond(tm, g); ok && other != nil {
					if (fieldChainOn(a, other, "InnovationNum") && fieldChainOn(b, gene, "InnovationNum")) || (fieldChainOn(b, other, "InnovationNum") && fieldChainOn(a, gene, "InnovationNum")) {
						differs = true
					}
					if (a.V == other && b.V == gene) || (a.V == gene && b.V == other) {
						differs = true
					}
				}
			}
			okOther := other != nil && isElemOfRecvField(tm.Of(other), "Genes")
			r.Check(sameNode && otherEnabled && differs && selfEnabled && okOther, "toggle.guard", p.Pos(st.Pos()),
				"disabled only if enabled and another enabled gene (different innovation number) leaves the same node",
				fmt.Sprintf("the store that disables a gene is not guarded by all of: gene enabled (%v), some other gene of the genome (%v) with the same in-node (%v), enabled (%v), different innovation number (%v)", selfEnabled, okOther, sameNode, otherEnabled, differs))
		}
		r.Floor("disable sites in toggle-enable", n, 1)
	})

	r.Rule("C05.6", "re-enable enables exactly one gene, the first disabled one in list order", func() {
		fn := p.Func(PkgG, "Genome.mutateGeneReEnable")
		r.Fn(FuncName(fn))
		tm := NewTermer(fn)
		loops := Loops(fn)
		n := 0
		for _, st := range FieldStores(fn, enabledF) {
			n++
			gene := st.Addr.(*ssa.FieldAddr).X
			okV := IsConstBool(st.Val, true)
			// The gene may be named directly (store inside the scan) or be the result of a lookup that yields
			// the found element or nil (store after the scan): one case per concrete candidate, each with the
			// branch outcomes established for it.
			cases := selCases(st.Block(), gene)
			okG, okLoop, okOnce := len(cases) > 0, len(cases) > 0, len(cases) > 0
			for _, c := range cases {
				g1 := false
				for _, g := range c.Conds {
					// the tested object may be named by a second load of the same element (`if xs[i].F {continue}; xs[i].F = ..`)
					if boolFieldCondSame(tm, g, c.Cand, false, "IsEnabled") || boolFieldCondSame(tm, g, gene, false, "IsEnabled") {
						g1 = true
					}
				}
				okG = okG && g1
				at := st.Block()
				if c.Site != nil {
					at = c.Site.From
				}
				l := scanLoopOf(loops, at)
				l1, o1 := false, false
				if l != nil {
					// ascending scan from index 0 over the whole list (range loop or counted loop, see scanFromZero):
					// the candidate is the element at the index of the current iteration
					if idx, bound, ok := scanFromZero(l); ok {
						l1 = tm.Of(bound).String() == "len(recv.Genes)" && isElemOfRecvField(tm.Of(c.Cand), "Genes") && elemIndexOf(c.Cand) == idx
					}
					backToScan := func(in ssa.Instruction) bool {
						return in.Block() == l.Header && instrIndex(in) == len(l.Header.Instrs)-1
					}
					path := FindPath(p, PathQuery{Fn: fn, StartAfter: st, FlagBlind: false, Explored: &r.PathsExplored, Target: backToScan})
					if path == nil && c.Site != nil {
						// the scan must also stop where the candidate is taken, not only after the store
						path = FindPath(p, PathQuery{Fn: fn, StartEdge: [2]*ssa.BasicBlock{c.Site.From, c.Site.To}, Explored: &r.PathsExplored, Target: backToScan})
					}
					o1 = path == nil
				}
				okLoop = okLoop && l1
				okOnce = okOnce && o1
			}
			r.Check(okV && okG && okLoop && okOnce, "re-enable.store", p.Pos(st.Pos()), "enables the first disabled gene of an ascending scan and stops",
				fmt.Sprintf("re-enable: stores true=%v, guarded by !IsEnabled of the same gene=%v, ascending scan over all genes=%v, scan stops after the first hit=%v", okV, okG, okLoop, okOnce))
		}
		r.Check(n == 1, "re-enable.sites", p.Pos(fn.Pos()), "one enabling store", fmt.Sprintf("%d stores to IsEnabled in re-enable", n))
	})
}

// checkAddLink implements C05.2.
func (r *Run) checkAddLink(sums *Summaries) {
	p := r.P
	fn := p.Func(PkgG, "Genome.mutateAddLink")
	r.Fn(FuncName(fn))
	tm := NewTermer(fn)
	geneInsert := p.Func(PkgG, "Genome.geneInsert")
	gi := CallsTo(fn, geneInsert)
	loops := Loops(fn)
	if len(gi) != 1 || InnermostLoop(loops, gi[0].Block()) != nil {
		r.Bad("add-link.inserts", p.Pos(fn.Pos()), fmt.Sprintf("add-link has %d gene insertions (or inserts in a loop); exactly one gene is added", len(gi)))
		return
	}
	r.OK("add-link.inserts", p.Pos(gi[0].Pos()), "one gene insertion, outside any loop")
	gcs, other := geneFeeders(p, gi[0].Common().Args[1])
	if len(other) > 0 || len(gcs) == 0 {
		r.Bad("add-link.gene.origin", p.Pos(gi[0].Pos()), "the inserted gene is not built by NewGeneWithTrait in this function")
		return
	}
	n1, n2, rec := gcs[0].args[2], gcs[0].args[3], gcs[0].args[4]
	for _, gc := range gcs {
		same := gc.args[2] == n1 && gc.args[3] == n2 && gc.args[4] == rec
		r.Check(same, "add-link.gene.args", p.Pos(gc.call.Pos()), "reuse path and novel path build the gene from the same node pair and recurrence flag", "the reuse path and the novel path build the gene from different nodes or recurrence flags")
	}
	for i, nv := range []ssa.Value{n1, n2} {
		ok := true
		w := phiWeb(nv)
		for _, f := range w.Feeders {
			if !isElemOfRecvField(tm.Of(f), "Nodes") {
				ok = false
			}
		}
		r.Check(ok && len(w.Feeders) > 0, fmt.Sprintf("add-link.endpoint%d", i+1), p.Pos(gi[0].Pos()), "endpoint is an element of the genome's node list", "an endpoint of the new gene is not an element of recv.Nodes: "+tm.Of(nv).String())
	}
	// the flag guarding the creation
	var flag ssa.Value
	for _, g := range Guards(gcs[0].call.Block()) {
		if f, w, ok := boolFlagOf(g.Cond); ok && g.True == w {
			// the flag that is set inside the search loop
			if len(flagSites(f, true)) > 0 {
				for _, s := range flagSites(f, true) {
					// (a site `found = true; break` lies in a block that left the natural loop: scanLoopOf counts it in)
					if scanLoopOf(loops, s.From) != nil {
						flag = f
					}
				}
			}
		}
	}
	if flag == nil {
		r.Bad("add-link.found-flag", p.Pos(gcs[0].call.Pos()), "the gene creation is not guarded by a flag set by the search for an open node pair")
		return
	}
	sites := flagSites(flag, true)
	// N2-style: once found, no new pair is drawn
	defs := map[ssa.Instruction]bool{}
	for _, nv := range []ssa.Value{n1, n2} {
		for _, f := range phiWeb(nv).Feeders {
			if in := definingInstr(f); in != nil {
				defs[in] = true
			}
		}
	}
	target := phiWeb(n2)
	for _, s := range sites {
		path := FindPath(p, PathQuery{Fn: fn, StartEdge: [2]*ssa.BasicBlock{s.From, s.To}, Explored: &r.PathsExplored,
			Target: func(in ssa.Instruction) bool { return defs[in] }, Avoid: func(in ssa.Instruction) bool { return in == gcs[0].call }})
		r.Check(path == nil, "add-link.final", p.Pos(firstBlockPos(s.From)), "once an open pair is found no other pair is drawn", "after an open node pair was found the search can continue and replace it by an unchecked pair", path...)
	}
	// (a) sensor target rejected: from every edge on which target.IsSensor() is true, the found-sites are unreachable without drawing a new pair
	isSensor := p.Func(PkgN, "NNode.IsSensor")
	nRej := 0
	Instrs(fn, func(b *ssa.BasicBlock, _ int, in ssa.Instruction) {
		iff, ok := in.(*ssa.If)
		if !ok {
			return
		}
		c, ok := iff.Cond.(*ssa.Call)
		if !ok || c.Call.StaticCallee() != isSensor {
			return
		}
		arg := c.Call.Args[0]
		inWeb := false
		for _, f := range target.Feeders {
			if f == arg {
				inWeb = true
			}
		}
		if ph, ok := arg.(*ssa.Phi); ok && target.Phis[ph] {
			inWeb = true
		}
		if !inWeb {
			return
		}
		nRej++
		path := FindPath(p, PathQuery{Fn: fn, StartEdge: [2]*ssa.BasicBlock{b, b.Succs[0]}, Explored: &r.PathsExplored,
			TargetEdge: func(from, to *ssa.BasicBlock) bool {
				for _, s := range sites {
					if s.From == from && s.To == to {
						return true
					}
				}
				return false
			},
			Avoid: func(in ssa.Instruction) bool { return defs[in] }})
		r.Check(path == nil, "add-link.sensor-target", p.Pos(c.Pos()), "a sensor target is rejected (flag-sensitive path search: no path from `target is a sensor` to `pair found`)", "a pair whose target node is a sensor can be accepted", path...)
	})
	if nRej == 0 {
		// The index offset `firstNonSensor + Intn(n - firstNonSensor)` only skips the sensors that lead the
		// node list. Nodes are ordered by id, not by role: a genome with inputs 1,2, output 3 and bias 4 has a
		// sensor behind a neuron, so the offset alone does not keep sensors from receiving a link.
		r.Bad("add-link.sensor-target", p.Pos(fn.Pos()), "the drawn target node is not tested with IsSensor(); the index offset past the leading sensors does not exclude a sensor whose id is larger than a neuron's (node lists are ordered by id), so the new link can end in an input or bias node")
	}
	// (b) existing-link scan
	linkF := func(t *Term, v ssa.Value, path ...string) bool { return fieldChainOnWeb(t, v, path...) }
	nScan := 0
	for _, l := range loops {
		if !loopRangesOver(tm, l, "recv.Genes") {
			continue
		}
		// hit edges: a boolean flag becomes true on leaving / inside this loop
		var hits []flagEdge
		var hitFlag ssa.Value
		Instrs(fn, func(b *ssa.BasicBlock, _ int, in ssa.Instruction) {
			if ph, ok := in.(*ssa.Phi); ok {
				for i, e := range ph.Edges {
					pred := ph.Block().Preds[i]
					if IsConstBool(e, true) && pred != l.Header && scanLoopOf(loops, pred) == l {
						hits = append(hits, flagEdge{pred, ph.Block(), ph})
						hitFlag = ph
					}
				}
			}
		})
		if len(hits) == 0 {
			continue
		}
		nScan++
		for _, h := range hits {
			conds := loopGuardsOnly(condsAt(h.From, h.To), l)
			var extra []string
			nEq := 0
			for _, g := range conds {
				if g.At == l.Header {
					continue
				}
				a, b, ok := eqCond(tm, g)
				okc := false
				if ok {
					for _, pr := range [][2]*Term{{a, b}, {b, a}} {
						ge := pr[0]
						base, path := ge.FieldPath()
						if base == nil || !isElemOfRecvField(base, "Genes") {
							continue
						}
						switch strings.Join(path, ".") {
						case "Link.InNode.Id":
							okc = linkF(pr[1], n1, "Id")
						case "Link.OutNode.Id":
							okc = linkF(pr[1], n2, "Id")
						case "Link.InNode":
							okc = fieldChainOnWeb(pr[1], n1)
						case "Link.OutNode":
							okc = fieldChainOnWeb(pr[1], n2)
						case "Link.IsRecurrent":
							okc = pr[1].V == rec || fieldChainOnWeb(pr[1], rec)
						}
					}
				}
				if okc {
					nEq++
				} else {
					extra = append(extra, tm.Of(g.Cond).String()+fmt.Sprintf("=%v", g.True))
				}
			}
			r.Check(len(extra) == 0 && nEq >= 1, "add-link.scan.condition", p.Pos(firstBlockPos(h.From)),
				fmt.Sprintf("a gene counts as the same link under %d of the equalities (in id, out id, recurrence) and nothing else", nEq),
				"the existing-link scan accepts a hit only under an additional condition ("+strings.Join(extra, "; ")+"): a link that exists but fails it is added a second time")
			// after a hit the pair is not accepted
			path := FindPath(p, PathQuery{Fn: fn, StartEdge: [2]*ssa.BasicBlock{h.From, h.To}, Explored: &r.PathsExplored,
				TargetEdge: func(from, to *ssa.BasicBlock) bool {
					for _, s := range sites {
						if s.From == from && s.To == to {
							return true
						}
					}
					return false
				},
				Avoid: func(in ssa.Instruction) bool { return defs[in] }})
			r.Check(path == nil, "add-link.scan.rejects", p.Pos(firstBlockPos(h.From)), "a pair that is already linked is not accepted", "a node pair for which the scan found an existing link can still be accepted", path...)
		}
		// the scan is left only by a hit or by exhaustion
		for b := range l.Blocks {
			for _, s := range b.Succs {
				if l.Blocks[s] || b == l.Header {
					continue
				}
				isHit := false
				for _, h := range hits {
					if h.From == b || h.From == s {
						isHit = true
					}
				}
				r.Check(isHit, "add-link.scan.exit", p.Pos(firstBlockPos(b)), "the scan ends early only on a hit", "the scan over the genes can be left before all genes were compared without having found the link")
			}
		}
		_ = hitFlag
	}
	r.Check(nScan >= 1, "add-link.scan", p.Pos(fn.Pos()), "a scan over all genes precedes acceptance", "there is no scan of the genome's genes for an already existing link")
	// every path to a found-site passes the scan's exhaustion (no bypass): from the pair draw to a found-site avoiding the scan header
	for _, l := range loops {
		iff, ok := l.Header.Instrs[len(l.Header.Instrs)-1].(*ssa.If)
		if !ok {
			continue
		}
		ct := tm.Of(iff.Cond)
		if !(ct.Op == "bin" && ct.Name == "<" && ct.Args[1].String() == "len(recv.Genes)") {
			continue
		}
		inTry := false
		for _, o := range loops {
			if o != l && o.Blocks[l.Header] {
				inTry = true
			}
		}
		if !inTry {
			continue
		}
		for in := range defs {
			path := FindPath(p, PathQuery{Fn: fn, StartAfter: in, Explored: &r.PathsExplored,
				TargetEdge: func(from, to *ssa.BasicBlock) bool {
					for _, s := range sites {
						if s.From == from && s.To == to {
							return true
						}
					}
					return false
				},
				Avoid: func(x ssa.Instruction) bool { return x.Block() == l.Header || (defs[x] && x != in) }})
			if path != nil {
				// drawing node1 precedes drawing node2; only report when no later draw lies between
				later := false
				for d := range defs {
					if d != in && instrBefore(in, d) {
						later = true
					}
				}
				if !later {
					r.Bad("add-link.scan.bypass", p.Pos(in.Pos()), "a drawn node pair can be accepted without passing the existing-link scan", path...)
				}
			}
		}
	}
	// write set
	ws, _ := p.writeSet(fn, 0)
	allowed := map[string]bool{"Genome.Genes": true, "elem:Genes": true, "Genome.Phenotype": true, "NNode.Incoming": true, "NNode.Outgoing": true, "NNode.PhenotypeAnalogue": true}
	var bad []string
	for _, k := range sortedKeys(ws) {
		if !allowed[k] {
			bad = append(bad, fmt.Sprintf("%s (at %s)", k, p.Pos(ws[k].Pos)))
		}
	}
	r.Check(len(bad) == 0, "add-link.write-set", p.Pos(fn.Pos()), "writes through the receiver: "+strings.Join(sortedKeys(ws), ", "), "add-link also modifies: "+strings.Join(bad, "; "))
}

// checkConnectSensors implements C05.3.
func (r *Run) checkConnectSensors(sums *Summaries) {
	p := r.P
	fn := p.Func(PkgG, "Genome.mutateConnectSensors")
	r.Fn(FuncName(fn))
	tm := NewTermer(fn)
	geneInsert := p.Func(PkgG, "Genome.geneInsert")
	isSensor := p.Func(PkgN, "NNode.IsSensor")
	gi := CallsTo(fn, geneInsert)
	if len(gi) != 1 {
		r.Bad("connect.inserts", p.Pos(fn.Pos()), fmt.Sprintf("%d gene insertion sites", len(gi)))
		return
	}
	gcs, other := geneFeeders(p, gi[0].Common().Args[1])
	if len(other) > 0 || len(gcs) == 0 {
		r.Bad("connect.gene.origin", p.Pos(gi[0].Pos()), "the inserted gene is not built by NewGeneWithTrait in this function")
		return
	}
	// classify the local lists by the appends that fill them
	type listInfo struct {
		sensorSide   bool // appended under IsSensor() true
		nonSensor    bool
		fromList     string // appended elements are elements of this list
		underNotFlag ssa.Value
		extra        []string
		elem         ssa.Value  // the appended element
		call         *ssa.Call  // the append
		scan         *scanGuard // appended only after a scan of the genome's genes ran to exhaustion (the form without a `connected` flag)
	}
	lists := map[string]*listInfo{} // keyed by the term string of the list's phi web root
	appendSites := 0
	Instrs(fn, func(b *ssa.BasicBlock, _ int, in ssa.Instruction) {
		c, ok := in.(*ssa.Call)
		if !ok {
			return
		}
		base, elems, ok := appendCall(c)
		if !ok || len(elems) != 1 {
			return
		}
		if _, isPtr := deref(elems[0].Type()).Underlying().(interface{ NumFields() int }); !isPtr {
			return
		}
		appendSites++
		_ = base
		key := fmt.Sprint(c.Pos())
		li := &listInfo{elem: elems[0], call: c}
		et := tm.Of(elems[0])
		if et.Op == "elem" {
			li.fromList = et.Args[0].String()
		}
		loopsHere := Loops(fn)
		own := InnermostLoop(loopsHere, b)
		hasFlag := false
		for _, g := range Guards(b) {
			if f, w, ok := boolFlagOf(g.Cond); ok && g.True != w && f != nil {
				hasFlag = true
			}
		}
		if !hasFlag {
			// `for genes { if gene leaves n { continue nodes } }; append(n)`: the append is reached only by exhausting the scan
			li.scan = r.exhaustedScanBefore(fn, tm, loopsHere, c, "recv.Genes", elems[0])
		}
		for _, g := range Guards(b) {
			if li.scan != nil && g.At == li.scan.L.Header {
				// the exhaustion of that scan, accounted for by connect.connected-test
				continue
			}
			if gc, ok := g.Cond.(*ssa.Call); ok && gc.Call.StaticCallee() == isSensor && gc.Call.Args[0] == elems[0] {
				if g.True {
					li.sensorSide = true
				} else {
					li.nonSensor = true
				}
				continue
			}
			if f, w, ok := boolFlagOf(g.Cond); ok && g.True != w {
				li.underNotFlag = f
				continue
			}
			// any further condition inside the same loop narrows the list (e.g. only output neurons)
			if own != nil && own.Blocks[g.At] && g.At != own.Header {
				li.extra = append(li.extra, tm.Of(g.Cond).String())
			}
		}
		lists[key] = li
	})
	// the source of every created gene: one value, drawn once, outside the target loop, from a list appended under `!connected`
	src, dst := gcs[0].args[2], gcs[0].args[3]
	for _, gc := range gcs {
		r.Check(gc.args[2] == src && gc.args[3] == dst && IsConstBool(gc.args[4], false), "connect.gene.args", p.Pos(gc.call.Pos()),
			"gene = (chosen sensor -> current target, not recurrent) on the reuse and the novel path", "the created gene does not go from the chosen sensor to the current target as a non-recurrent link on every path")
	}
	loops := Loops(fn)
	srcDef := definingInstr(src)
	okOnce := srcDef != nil && InnermostLoop(loops, srcDef.Block()) == nil
	r.Check(okOnce, "connect.one-sensor", p.Pos(gi[0].Pos()), "all genes of one call leave the same sensor", "the source node of the created genes is not a single value chosen once per call")
	// provenance chain: src ∈ D (appended under !connected from S), S appended from recv.Nodes under IsSensor; dst ∈ O appended under !IsSensor
	st, dt := tm.Of(src), tm.Of(dst)
	var dList, sList, oList *listInfo
	for _, li := range lists {
		unconnected := li.underNotFlag != nil || li.scan != nil
		switch {
		case unconnected && !li.sensorSide && !li.nonSensor:
			dList = li
		case li.sensorSide && unconnected && !li.nonSensor:
			// one loop over the nodes does both: `if !n.IsSensor() {..; continue}; scan; append(n)` - the list of
			// unconnected sensors is filled directly from the nodes that are sensors
			dList, sList = li, li
		case li.sensorSide:
			sList = li
		case li.nonSensor:
			oList = li
		}
	}
	// list identity: a value is drawn from the list a given append fills when the append belongs to the slice's phi web
	drawnFrom := func(v ssa.Value, li *listInfo) bool {
		u, ok := stripCT(v).(*ssa.UnOp)
		if !ok || li == nil {
			return false
		}
		ia, ok := u.X.(*ssa.IndexAddr)
		if !ok {
			return false
		}
		for _, f := range phiWeb(ia.X).Feeders {
			if f == ssa.Value(li.call) {
				return true
			}
		}
		return false
	}
	okChain := st.Op == "elem" && dt.Op == "elem" && dList != nil && sList != nil && oList != nil && sList.fromList == "recv.Nodes" && oList.fromList == "recv.Nodes" &&
		(r.Mode == "well-formed" || (len(sList.extra) == 0 && len(oList.extra) == 0))
	// the source is an element of the unconnected list, that list is filled from the sensor list, the target is an element of the target list
	okChain = okChain && drawnFrom(src, dList) && drawnFrom(dst, oList) && (dList == sList || drawnFrom(dList.elem, sList))
	if oList != nil && len(oList.extra) > 0 {
		r.Note("connect-sensors: the target list is filled only under %v", oList.extra)
	}
	r.Check(okChain, "connect.provenance", p.Pos(fn.Pos()), "sensor list and target list partition the genome's nodes by IsSensor; the source is drawn from the sensors that were found unconnected",
		fmt.Sprintf("cannot establish: sensors = nodes with IsSensor, targets = nodes without, source drawn from the unconnected sensors (source %s, target %s, lists found: unconnected=%v sensors=%v targets=%v)", st, dt, dList != nil, sList != nil, oList != nil))
	// every node is classified and every target is visited: the loop that fills the target list walks all of the
	// genome's nodes, the loop that holds the insertion walks all of the target list (a loop that starts at 1 or
	// stops one short leaves a non-sensor node without its gene). Not asked under C01: a genome with fewer new
	// genes is as well-formed as one with all of them.
	if r.Mode != "well-formed" && okChain {
		why := c05WholeWalk(tm, InnermostLoop(loops, oList.call.Block()), oList.elem, "recv.Nodes")
		r.Check(why == "", "connect.all-nodes", p.Pos(oList.call.Pos()), "the target list is filled by a walk over all the genome's nodes",
			"the loop that fills the target list does not look at every node of the genome: "+why)
		why = c05WholeWalk(tm, InnermostLoop(loops, gi[0].Block()), dst, "")
		r.Check(why == "", "connect.all-targets", p.Pos(gi[0].Pos()), "the loop that creates the genes walks the whole target list",
			"the loop that creates the genes does not visit every element of the target list: "+why)
	}
	// `connected` is set only under (gene.InNode == sensor) and the unconnected list is appended only when it is false after a full scan
	if dList != nil && (dList.underNotFlag != nil || dList.scan != nil) {
		var sites []flagEdge
		if dList.underNotFlag != nil {
			sites = flagSites(dList.underNotFlag, true)
		} else {
			// without a flag: the ways out of the scan's body are what marks the sensor connected
			sites = dList.scan.Hits
		}
		for _, s := range sites {
			okc := false
			var extra []string
			conds := condsAt(s.From, s.To)
			// inside the scan over the genes the hit may depend on nothing but `gene leaves the examined sensor`:
			// any further condition (e.g. only enabled genes) lets a sensor that has a gene pass as unconnected
			scan := scanLoopOf(loops, s.From)
			if scan != nil && !loopRangesOver(tm, scan, "recv.Genes") {
				scan = nil
			}
			if dList.underNotFlag == nil {
				scan = dList.scan.L
			}
			// `no gene leaves the sensor` is what the exhausted scan says only if it looked at every gene
			scanWhy := "it is not decided inside a scan of the genome's genes"
			if scan != nil {
				scanWhy = c05WholeWalk(tm, scan, nil, "recv.Genes")
			}
			scanIdx := c05ScanIndex(scan)
			for _, g := range conds {
				if scan != nil && (!scan.Blocks[g.At] || g.At == scan.Header) {
					continue
				}
				hit := false
				if a, b, ok := eqCond(tm, g); ok {
					for _, pr := range [][2]*Term{{a, b}, {b, a}} {
						base, path := pr[0].FieldPath()
						if base == nil || !isElemOfRecvField(base, "Genes") || !c05AtIndex(base, scanIdx) {
							continue
						}
						switch strings.Join(path, ".") {
						case "Link.InNode.Id":
							hit = hit || fieldChainOn(pr[1], dList.elem, "Id")
						case "Link.InNode":
							hit = hit || pr[1].V == dList.elem
						}
					}
				}
				if hit {
					okc = true
				} else if scan != nil {
					extra = append(extra, fmt.Sprintf("%s=%v", tm.Of(g.Cond), g.True))
				}
			}
			bad := "a sensor is marked connected without a gene leaving it"
			if okc && len(extra) > 0 {
				bad = "a gene leaving the sensor marks it connected only under a further condition (" + strings.Join(extra, "; ") + "): a sensor that has genes can be taken for an unconnected one and receive additional genes"
			}
			if okc && len(extra) == 0 && scanWhy != "" && r.Mode != "well-formed" {
				okc = false
				bad = "whether a gene leaves the sensor is not decided by a scan of all the genome's genes (" + scanWhy + "): a sensor that has genes can be taken for an unconnected one"
			}
			r.Check(okc && len(extra) == 0, "connect.connected-test", p.Pos(firstBlockPos(s.From)), "a sensor counts as connected exactly when some gene leaves it", bad)
		}
	}
	// a target is skipped only when the link exists: the creation is guarded by a flag that is set only under (gene.in == sensor && gene.out == target)
	var skip, dFlag ssa.Value
	if dList != nil {
		dFlag = dList.underNotFlag
	}
	var skipCands []ssa.Value
	for _, g := range Guards(gcs[0].call.Block()) {
		if f, w, ok := boolFlagOf(g.Cond); ok && g.True != w && f != dFlag {
			if len(flagSites(f, true)) > 0 {
				skipCands = append(skipCands, f)
			}
		}
	}
	// choose the skip flag whose true-sites lie in a loop over recv.Genes
	for _, f := range skipCands {
		for _, s := range flagSites(f, true) {
			if l := scanLoopOf(loops, s.From); l != nil && loopRangesOver(tm, l, "recv.Genes") {
				skip = f
			}
		}
	}
	var skipScan *scanGuard
	if skip == nil {
		// no such flag: `for genes { if link exists { continue targets } }; create; insert` - the insertion is reached
		// only by exhausting a scan of the genes; the ways out of the scan's body are the skips
		skipScan = r.exhaustedScanBefore(fn, tm, loops, gi[0], "recv.Genes", src, dst)
		for _, gc := range gcs {
			if skipScan != nil && !(skipScan.L.Header.Dominates(gc.call.Block()) && !skipScan.L.Blocks[gc.call.Block()]) {
				skipScan = nil
			}
		}
		if skipScan == nil && len(skipCands) > 0 {
			skip = skipCands[len(skipCands)-1]
		}
	}
	okSkip := false
	var extra []string
	if skip != nil || skipScan != nil {
		okSkip = true
		var sites []flagEdge
		if skip != nil {
			sites = flagSites(skip, true)
		} else {
			sites = skipScan.Hits
		}
		for _, s := range sites {
			hasIn, hasOut := false, false
			l := scanLoopOf(loops, s.From)
			if skip == nil {
				l = skipScan.L
			}
			if l == nil || !loopRangesOver(tm, l, "recv.Genes") {
				okSkip = false
				extra = append(extra, "the flag is set outside a scan of the genome's genes")
				continue
			}
			// `no gene sensor->target exists` is what the exhausted scan says only if it looked at every gene
			if why := c05WholeWalk(tm, l, nil, "recv.Genes"); why != "" {
				okSkip = false
				extra = append(extra, "the scan for an existing link leaves genes out ("+why+"): a link that exists can be created a second time")
				continue
			}
			scanIdx := c05ScanIndex(l)
			for _, g := range loopGuardsOnly(condsAt(s.From, s.To), l) {
				if g.At == l.Header {
					continue
				}
				a, b, ok := eqCond(tm, g)
				okc := false
				if ok {
					for _, pr := range [][2]*Term{{a, b}, {b, a}} {
						base, path := pr[0].FieldPath()
						if base == nil || !isElemOfRecvField(base, "Genes") || !c05AtIndex(base, scanIdx) {
							continue
						}
						switch strings.Join(path, ".") {
						case "Link.InNode":
							okc = pr[1].V == src
							hasIn = hasIn || okc
						case "Link.OutNode":
							okc = pr[1].V == dst
							hasOut = hasOut || okc
						case "Link.InNode.Id":
							okc = fieldChainOn(pr[1], src, "Id")
							hasIn = hasIn || okc
						case "Link.OutNode.Id":
							okc = fieldChainOn(pr[1], dst, "Id")
							hasOut = hasOut || okc
						}
					}
				}
				if !okc {
					extra = append(extra, tm.Of(g.Cond).String())
					okSkip = false
				}
			}
			if (!hasIn || !hasOut) && r.Mode != "well-formed" {
				okSkip = false
				extra = append(extra, fmt.Sprintf("the existing-link test compares the source=%v and the target=%v; both are needed, otherwise targets that are not linked yet are skipped", hasIn, hasOut))
			}
		}
	}
	r.Check(okSkip, "connect.skip-only-existing", p.Pos(gcs[0].call.Pos()), "a target is skipped only when a gene sensor->target exists",
		"a target can be skipped for a reason other than `the link sensor->target exists`, or no such test guards the creation: "+strings.Join(extra, "; "))
	// every target that is not skipped gets its gene: an iteration of the loop that holds the insertion either passes
	// the skip test with `link exists`, inserts a gene, or leaves the function. (The creation is spread over the reuse
	// and the novel branch; state carried from one target to the next - a flag that is not reset - opens a path
	// on which neither branch builds a gene.)
	if skip != nil || skipScan != nil {
		r.checkEveryTarget(sums, fn, loops, gi[0], skip, skipScan)
	}
	// write set
	ws, _ := p.writeSet(fn, 0)
	allowed := map[string]bool{"Genome.Genes": true, "elem:Genes": true, "Genome.Phenotype": true}
	var bad []string
	for _, k := range sortedKeys(ws) {
		if !allowed[k] {
			bad = append(bad, fmt.Sprintf("%s (at %s)", k, p.Pos(ws[k].Pos)))
		}
	}
	r.Check(len(bad) == 0, "connect.write-set", p.Pos(fn.Pos()), "writes through the receiver: "+strings.Join(sortedKeys(ws), ", "), "connect-sensors also modifies: "+strings.Join(bad, "; "))
}

var _ = token.ADD
