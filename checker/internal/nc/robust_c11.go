package nc

import (
	"fmt"
	"go/constant"
	"go/token"
	"go/types"
	"sort"
	"strings"

	"golang.org/x/tools/go/ssa"
)

// Robustness helpers of C11.3 (node / link counts).
//
// The counts are sums: NodeCount = len(allNodes) + len(controlNodes), LinkCount = Σ len(n.Incoming) over the
// base nodes + Σ (len(c.Incoming) + len(c.Outgoing)) over the control nodes. The way such a sum is written is
// a matter of taste - two returns under an emptiness test or one accumulator, `x += a; x += b` or
// `x += a + b`, a guard around a loop over a possibly empty list or none, the cached field n.numLinks or a
// local as accumulator. What the rule has to establish is the VALUE that is returned, so the value is
// computed here symbolically as a set of cases
//
//	returned value = Σ addends        whenever the branch outcomes `Guards` hold
//
// where an addend is either a plain value (`len(recv.allNodes)`) or a per-element value summed over one
// complete traversal of a list (`Σ len(recv.allNodes[*].Incoming)`). A case that lacks an expected addend is
// accepted only under an outcome that makes the addend zero (its list is empty).

// c11Add is one addend of a returned sum.
type c11Add struct {
	Key  string // origin term of the added value, prefixed with "Σ " when it is added once per element of a list
	Loop *Loop  // the traversal (nil for a plain addend)
}

// c11Case: under Guards the value is the sum of Adds (no addend: zero).
type c11Case struct {
	Adds   []c11Add
	Guards []Guard
}

func (c c11Case) keys() []string {
	var out []string
	for _, a := range c.Adds {
		out = append(out, a.Key)
	}
	sort.Strings(out)
	return out
}

// c11Want: an addend the sum must contain exactly once; it is zero when List is empty.
type c11Want struct {
	Key  string
	List string
}

type c11Sum struct {
	fn    *ssa.Function
	tm    *Termer
	loops []*Loop
	fld   *types.Var // the field used as accumulator (nil: none)
	why   string     // first reason why the value is not a sum of the supported form
	busy  map[*ssa.Phi]bool
}

func newC11Sum(fn *ssa.Function, tm *Termer, fld *types.Var) *c11Sum {
	return &c11Sum{fn: fn, tm: tm, loops: Loops(fn), fld: fld, busy: map[*ssa.Phi]bool{}}
}

func (a *c11Sum) fail(format string, args ...interface{}) []c11Case {
	if a.why == "" {
		a.why = fmt.Sprintf(format, args...)
	}
	return nil
}

func c11IsInteger(v ssa.Value) bool {
	b, ok := v.Type().Underlying().(*types.Basic)
	return ok && b.Info()&types.IsInteger != 0
}

func c11IsZero(v ssa.Value) bool {
	c, ok := v.(*ssa.Const)
	return ok && c.Value != nil && c.Value.Kind() == constant.Int && constant.Sign(c.Value) == 0
}

// c11Leaves splits v into the leaves of its tree of integer additions.
func c11Leaves(v ssa.Value, out []ssa.Value) []ssa.Value {
	if b, ok := v.(*ssa.BinOp); ok && b.Op == token.ADD && c11IsInteger(b) {
		return c11Leaves(b.Y, c11Leaves(b.X, out))
	}
	if ct, ok := v.(*ssa.ChangeType); ok {
		return c11Leaves(ct.X, out)
	}
	return append(out, v)
}

func (a *c11Sum) headerLoop(b *ssa.BasicBlock) *Loop {
	for _, l := range a.loops {
		if l.Header == b {
			return l
		}
	}
	return nil
}

const c11MaxCases = 64

// cases computes the value v as a set of sums. gs are the outcomes already known for this use of v.
func (a *c11Sum) cases(v ssa.Value, gs []Guard) []c11Case {
	switch x := v.(type) {
	case *ssa.ChangeType:
		return a.cases(x.X, gs)
	case *ssa.Const:
		if c11IsZero(x) {
			return []c11Case{{Guards: gs}}
		}
	case *ssa.BinOp:
		if x.Op == token.ADD && c11IsInteger(x) {
			cx := a.cases(x.X, gs)
			cy := a.cases(x.Y, nil)
			if cx == nil || cy == nil {
				return a.fail("unsupported operand of %s", x.Name())
			}
			if len(cx)*len(cy) > c11MaxCases {
				return a.fail("too many cases")
			}
			var out []c11Case
			for _, p := range cx {
				for _, q := range cy {
					out = append(out, c11Case{
						Adds:   append(append([]c11Add{}, p.Adds...), q.Adds...),
						Guards: append(append([]Guard{}, p.Guards...), q.Guards...),
					})
				}
			}
			return out
		}
	case *ssa.Phi:
		if a.busy[x] {
			return a.fail("%s depends on itself other than by accumulation", x.Name())
		}
		a.busy[x] = true
		defer delete(a.busy, x)
		l := a.headerLoop(x.Block())
		var out []c11Case
		var perElem [][]c11Add // one list of addends per back edge
		for i, e := range x.Edges {
			pred := x.Block().Preds[i]
			if l != nil && l.Blocks[pred] {
				adds, ok := a.accumulated(e, x, l)
				if !ok {
					return nil
				}
				perElem = append(perElem, adds)
				continue
			}
			cs := a.cases(e, append(append([]Guard{}, gs...), condsAt(pred, x.Block())...))
			if cs == nil {
				return a.fail("unsupported value on an edge of %s", x.Name())
			}
			out = append(out, cs...)
		}
		if len(out) > c11MaxCases {
			return a.fail("too many cases")
		}
		if l != nil {
			// every back edge must add the same things
			for _, p := range perElem[1:] {
				if strings.Join(c11Case{Adds: p}.keys(), ",") != strings.Join(c11Case{Adds: perElem[0]}.keys(), ",") {
					return a.fail("the back edges of the loop at %s accumulate different values", l.Header)
				}
			}
			for i := range out {
				out[i].Adds = append(append([]c11Add{}, out[i].Adds...), perElem[0]...)
			}
		}
		return out
	case *ssa.UnOp:
		if x.Op == token.MUL && a.isAccField(x.X) {
			return a.fieldCases(x, gs)
		}
	}
	return []c11Case{{Adds: []c11Add{{Key: a.tm.Of(v).String()}}, Guards: gs}}
}

// accumulated: e, the value a loop-header phi receives over a back edge, is `ph + x1 + ... + xk`, each xi the
// value of one element of a list the loop traverses completely. Then, at the exit of the loop, the phi holds its
// entry value plus Σ xi over all elements.
func (a *c11Sum) accumulated(e ssa.Value, ph *ssa.Phi, l *Loop) ([]c11Add, bool) {
	self := 0
	var adds []c11Add
	at := ph.Block()
	if in, ok := e.(ssa.Instruction); ok {
		at = in.Block()
	}
	for _, lf := range c11Leaves(e, nil) {
		if lf == ssa.Value(ph) {
			self++
			continue
		}
		if c11IsZero(lf) {
			continue
		}
		ad, ok := a.perElement(lf, l, at)
		if !ok {
			return nil, false
		}
		adds = append(adds, ad)
	}
	if self != 1 {
		a.fail("the loop at block %d does not carry %s as `%s + ...` on every iteration", l.Header.Index, ph.Name(), ph.Name())
		return nil, false
	}
	return adds, true
}

// c11ElemOf: t is a value read from one element of a list (len(list[i].F), list[i].F ...): the list and the index.
func c11ElemOf(t *Term) (list string, idx ssa.Value, ok bool) {
	for t != nil {
		switch t.Op {
		case "len", "field":
			t = t.Args[0]
		case "elem":
			if len(t.Args) < 2 {
				return "", nil, false
			}
			return t.Args[0].String(), t.Args[1].V, true
		default:
			return "", nil, false
		}
	}
	return "", nil, false
}

// perElement: the value lf, added at block `at` inside loop l, is a value of the element the loop is at, the loop
// visits every element of that list exactly once, and `at` runs in an iteration only after the element exists.
func (a *c11Sum) perElement(lf ssa.Value, l *Loop, at *ssa.BasicBlock) (c11Add, bool) {
	t := a.tm.Of(lf)
	list, idx, ok := c11ElemOf(t)
	if !ok {
		a.fail("%s, added in a loop, is not a value of a list element", t)
		return c11Add{}, false
	}
	if why := a.fullTraversal(l, idx, list, at); why != "" {
		a.fail("%s is added in a loop that %s", t, why)
		return c11Add{}, false
	}
	return c11Add{Key: "Σ " + t.String(), Loop: l}, true
}

// fullTraversal returns "" when loop l visits the indices 0 .. len(list)-1 once each, idx being the index of the
// current iteration, and block `at` lies behind the test of that index. Otherwise: what is wrong.
func (a *c11Sum) fullTraversal(l *Loop, idx ssa.Value, list string, at *ssa.BasicBlock) string {
	for _, o := range a.loops {
		if o != l && o.Blocks[at] {
			return "is nested in or contains another loop around the addition"
		}
	}
	if !l.Blocks[at] {
		return "does not contain the addition"
	}
	var test *ssa.BasicBlock
	for _, b := range l.Header.Parent().Blocks {
		if !l.Blocks[b] {
			continue
		}
		for _, s := range b.Succs {
			if !l.Blocks[s] {
				if test != nil && test != b {
					return "can be left early (more than one exit)"
				}
				test = b
			}
		}
	}
	if test == nil {
		return "has no exit"
	}
	iff, isIf := test.Instrs[len(test.Instrs)-1].(*ssa.If)
	if !isIf || len(test.Succs) != 2 {
		return "has no exit test"
	}
	var stay *ssa.BasicBlock
	var outcome bool
	switch {
	case l.Blocks[test.Succs[0]] && !l.Blocks[test.Succs[1]]:
		stay, outcome = test.Succs[0], true
	case !l.Blocks[test.Succs[0]] && l.Blocks[test.Succs[1]]:
		stay, outcome = test.Succs[1], false
	default:
		return "has no exit test"
	}
	x, y, ok := c13LessThan(iff.Cond, outcome)
	if !ok {
		return "is not continued by a test `index < len(list)`"
	}
	if yt := a.tm.Of(y).String(); yt != "len("+list+")" {
		return fmt.Sprintf("runs up to %s, not to len(%s)", yt, list)
	}
	if x != idx {
		return "tests another index than the one of the element"
	}
	for _, lt := range l.Latch {
		if !(test == lt || test.Dominates(lt)) {
			return "does not test the index in every iteration"
		}
	}
	if !edgeDominates(test, stay, at) {
		return "performs the addition before the index is tested"
	}
	// the tested index starts at 0 and advances by one: either the counter itself (0, +1) or, in the form the
	// compiler gives a range loop, counter+1 with the counter starting at -1.
	var ph *ssa.Phi
	first := int64(0)
	if p, isPhi := x.(*ssa.Phi); isPhi {
		ph = p
	} else if add, isAdd := x.(*ssa.BinOp); isAdd && add.Op == token.ADD {
		if p, isPhi := add.X.(*ssa.Phi); isPhi && c13IsPlusOne(x, p) {
			ph, first = p, -1
		} else if p, isPhi := add.Y.(*ssa.Phi); isPhi && c13IsPlusOne(x, p) {
			ph, first = p, -1
		}
	}
	if ph == nil || ph.Block() != l.Header {
		return "has no counter as index"
	}
	entries, steps := 0, 0
	for i, e := range ph.Edges {
		if l.Blocks[l.Header.Preds[i]] {
			if !c13IsPlusOne(e, ph) {
				return "does not advance its index by one"
			}
			steps++
		} else {
			if k, isK := constInt(e); !isK || k != first {
				return "does not start at the first element"
			}
			entries++
		}
	}
	if entries == 0 || steps == 0 {
		return "has no counter as index"
	}
	return ""
}

// ---------------------------------------------------------------------------
// A field of the receiver as accumulator

func (a *c11Sum) isAccField(addr ssa.Value) bool {
	fa, ok := addr.(*ssa.FieldAddr)
	if !ok || a.fld == nil || fieldOf(fa.X.Type(), fa.Field) != a.fld {
		return false
	}
	return len(a.fn.Params) > 0 && fa.X == ssa.Value(a.fn.Params[0])
}

// emptyOn: leaving `from` towards `to` implies that every one of the lists is empty.
func (a *c11Sum) emptyOn(from, to *ssa.BasicBlock, lists []string) bool {
	iff, ok := from.Instrs[len(from.Instrs)-1].(*ssa.If)
	if !ok || len(from.Succs) != 2 || from.Succs[0] == from.Succs[1] || len(lists) == 0 {
		return false
	}
	g := Guard{iff.Cond, from.Succs[0] == to, from}
	for _, l := range lists {
		if !condImpliesEmpty(a.tm, g, l) {
			return false
		}
	}
	return true
}

// avoidable: some path from `from` reaches `to` without entering `via`, not counting paths over an edge that is
// only taken when all of lists are empty. within != nil restricts the walk to the blocks of a loop.
func (a *c11Sum) avoidable(from []*ssa.BasicBlock, to, via *ssa.BasicBlock, lists []string, within *Loop) bool {
	seen := map[*ssa.BasicBlock]bool{}
	var stack []*ssa.BasicBlock
	stack = append(stack, from...)
	for len(stack) > 0 {
		b := stack[len(stack)-1]
		stack = stack[:len(stack)-1]
		if b == via || seen[b] || (within != nil && !within.Blocks[b]) {
			continue
		}
		if b == to {
			return true
		}
		seen[b] = true
		for _, s := range b.Succs {
			if !a.emptyOn(b, s, lists) {
				stack = append(stack, s)
			}
		}
	}
	return false
}

// fieldCases: the value of load, a read of the accumulator field of the receiver. Established:
//   - exactly one store sets the field to a value that does not depend on it; it is executed once, before every
//     other store and before the read;
//   - every other store is `field = field + x1 + ... + xk` with the old value read right before it;
//   - no store can follow the read;
//   - each such store is executed on every path to the read (once, or once per element of a list that is
//     traversed completely), except on paths that are only taken when what it adds is zero.
//
// Hence the value read is the value set plus the sum of everything the other stores add.
func (a *c11Sum) fieldCases(load *ssa.UnOp, gs []Guard) []c11Case {
	type inc struct {
		st     *ssa.Store
		leaves []ssa.Value
	}
	var set *ssa.Store
	var incs []inc
	for _, st := range FieldStores(a.fn, a.fld) {
		if !a.isAccField(st.Addr) {
			return a.fail("%s of another object than the receiver is written", a.fld.Name())
		}
		if mayPrecede(load, st) {
			return a.fail("%s can be written after it was read for the result", a.fld.Name())
		}
		self := 0
		var leaves []ssa.Value
		for _, lf := range c11Leaves(st.Val, nil) {
			if u, ok := lf.(*ssa.UnOp); ok && u.Op == token.MUL && a.isAccField(u.X) {
				self++
				// the old value is read in the same block, with no write of the field in between
				if u.Block() != st.Block() || instrIndex(u) > instrIndex(st) {
					return a.fail("an update of %s does not use its current value", a.fld.Name())
				}
				for _, o := range FieldStores(a.fn, a.fld) {
					if o != st && o.Block() == st.Block() && instrIndex(o) > instrIndex(u) && instrIndex(o) < instrIndex(st) {
						return a.fail("an update of %s does not use its current value", a.fld.Name())
					}
				}
				continue
			}
			if !c11IsZero(lf) {
				leaves = append(leaves, lf)
			}
		}
		switch {
		case self == 0:
			if set != nil {
				return a.fail("%s is reset more than once", a.fld.Name())
			}
			set = st
		case self == 1:
			incs = append(incs, inc{st, leaves})
		default:
			return a.fail("an update of %s is not of the form `%s += x`", a.fld.Name(), a.fld.Name())
		}
	}
	if set == nil {
		return a.fail("%s is never reset: the count would include the result of the previous call", a.fld.Name())
	}
	if InnermostLoop(a.loops, set.Block()) != nil || !instrDominates(set, load) {
		return a.fail("%s is not reset exactly once before it is read", a.fld.Name())
	}
	for _, ic := range incs {
		if !instrDominates(set, ic.st) {
			return a.fail("%s is not reset before every update", a.fld.Name())
		}
	}
	out := a.cases(set.Val, gs)
	if out == nil {
		return a.fail("unsupported initial value of %s", a.fld.Name())
	}
	entry := []*ssa.BasicBlock{a.fn.Blocks[0]}
	for _, ic := range incs {
		b := ic.st.Block()
		l := InnermostLoop(a.loops, b)
		var adds []c11Add
		var lists, slices []string // lists: the traversed lists; slices: the slices whose length is added
		for _, lf := range ic.leaves {
			t := a.tm.Of(lf)
			if t.Op == "len" {
				slices = append(slices, t.Args[0].String())
			} else {
				slices = append(slices, "?")
			}
			if l == nil {
				adds = append(adds, c11Add{Key: t.String()})
				continue
			}
			ad, ok := a.perElement(lf, l, b)
			if !ok {
				return nil
			}
			list, _, _ := c11ElemOf(t)
			lists = append(lists, list)
			adds = append(adds, ad)
		}
		if len(adds) == 0 {
			continue
		}
		if l == nil {
			// a plain addend: the store lies on every path to the read unless what it adds is zero
			if a.avoidable(entry, load.Block(), b, slices, nil) {
				return a.fail("the update of %s at block %d is skipped on some path although it may add something", a.fld.Name(), b.Index)
			}
		} else {
			if a.avoidable(entry, load.Block(), l.Header, lists, nil) {
				return a.fail("the loop over %s is skipped on some path although the list may have elements", strings.Join(uniq(lists), ", "))
			}
			var start []*ssa.BasicBlock
			for _, s := range l.Header.Succs {
				if l.Blocks[s] {
					start = append(start, s)
				}
			}
			if b != l.Header && a.avoidable(start, l.Header, b, slices, l) {
				return a.fail("the update of %s at block %d is skipped for some elements although it may add something", a.fld.Name(), b.Index)
			}
		}
		for i := range out {
			out[i].Adds = append(append([]c11Add{}, out[i].Adds...), adds...)
		}
	}
	return out
}

// ---------------------------------------------------------------------------

// c11Feasible: no condition is required to have both outcomes.
func c11Feasible(gs []Guard) bool {
	seen := map[ssa.Value]bool{}
	for _, g := range gs {
		if prev, ok := seen[g.Cond]; ok && prev != g.True {
			return false
		}
		seen[g.Cond] = g.True
	}
	return true
}

// c11ReturnIs: every value fn returns is the sum of exactly the wanted addends (an addend may be left out where
// its list is known to be empty). Returns "" or what was found instead.
func c11ReturnIs(fn *ssa.Function, tm *Termer, fld *types.Var, want []c11Want) string {
	nret := 0
	for _, b := range fn.Blocks {
		ret, ok := b.Instrs[len(b.Instrs)-1].(*ssa.Return)
		if !ok || len(ret.Results) != 1 {
			continue
		}
		nret++
		a := newC11Sum(fn, tm, fld)
		cs := a.cases(ret.Results[0], append([]Guard{}, Guards(b)...))
		if a.why != "" || cs == nil {
			if a.why == "" {
				a.why = "result not understood"
			}
			return a.why
		}
		feasible := 0
		for _, c := range cs {
			if !c11Feasible(c.Guards) {
				continue
			}
			feasible++
			count := map[string]int{}
			for _, ad := range c.Adds {
				count[ad.Key]++
			}
			for _, w := range want {
				n := count[w.Key]
				delete(count, w.Key)
				if n == 1 {
					continue
				}
				if n > 1 {
					return fmt.Sprintf("%s is counted %d times (result %s)", w.Key, n, strings.Join(c.keys(), " + "))
				}
				empty := false
				for _, g := range c.Guards {
					if condImpliesEmpty(tm, g, w.List) {
						empty = true
					}
				}
				if !empty {
					return fmt.Sprintf("%s is not counted (result %s) although %s may have elements", w.Key, c11Show(c.keys()), w.List)
				}
			}
			for k := range count {
				return fmt.Sprintf("%s is counted in addition (result %s)", k, c11Show(c.keys()))
			}
		}
		if feasible == 0 {
			return "no feasible way to compute the result found"
		}
	}
	if nret == 0 {
		return "no return of a single value"
	}
	return ""
}

func c11Show(keys []string) string {
	if len(keys) == 0 {
		return "0"
	}
	return strings.Join(keys, " + ")
}

// ---------------------------------------------------------------------------

// c11ViaCtor rewrites a read of a field of an object that a constructor call has just returned
// (`NewLinkWithTrait(t, w, in, out, r).OutNode`) into the constructor argument the field was set from (`out`),
// so that `newLink.OutNode.Incoming = append(newLink.OutNode.Incoming, newLink)` is recognised as an append to
// the target node's list. Sound as far as the constructor's summary says the object is fresh and sets the field
// from that argument, and fn itself never writes the field.
func c11ViaCtor(sums *Summaries, fn *ssa.Function, t *Term) *Term {
	if t == nil || len(t.Args) == 0 {
		return t
	}
	n := *t
	n.Args = make([]*Term, len(t.Args))
	for i, a := range t.Args {
		n.Args[i] = c11ViaCtor(sums, fn, a)
	}
	if n.Op != "field" || n.Args[0].Op != "call" {
		return &n
	}
	c, ok := n.Args[0].V.(*ssa.Call)
	if !ok || c.Call.IsInvoke() {
		return &n
	}
	callee := c.Call.StaticCallee()
	fld, _ := n.Obj.(*types.Var)
	if callee == nil || callee.Blocks == nil || fld == nil || len(FieldStores(fn, fld)) != 0 {
		return &n
	}
	sm := sums.Ctor(callee)
	if sm == nil || sm.Why != "" || !sm.Fresh {
		return &n
	}
	ft, ok := sm.Fields[fld]
	if !ok {
		return &n
	}
	return Subst(ft, n.Args[0].Args)
}

// ---------------------------------------------------------------------------

// c11CondsLeaving: the branch outcomes known when control leaves b over its successor number si.
func c11CondsLeaving(b *ssa.BasicBlock, si int) []Guard {
	gs := append([]Guard{}, Guards(b)...)
	if iff, ok := b.Instrs[len(b.Instrs)-1].(*ssa.If); ok && len(b.Succs) == 2 && b.Succs[0] != b.Succs[1] {
		gs = append(gs, Guard{iff.Cond, si == 0, b})
	}
	return gs
}

// c11NonNilFact: the outcome g establishes v != nil for the value v it returns (nil: no such fact).
func c11NonNilFact(g Guard) ssa.Value {
	cond, neg := c13StripNot(g.Cond)
	outcome := g.True != neg
	bo, ok := cond.(*ssa.BinOp)
	if !ok {
		return nil
	}
	if !((bo.Op == token.NEQ && outcome) || (bo.Op == token.EQL && !outcome)) {
		return nil
	}
	isNil := func(v ssa.Value) bool {
		c, ok := v.(*ssa.Const)
		return ok && c.Value == nil
	}
	switch {
	case isNil(bo.Y) && !isNil(bo.X):
		return bo.X
	case isNil(bo.X) && !isNil(bo.Y):
		return bo.Y
	}
	return nil
}

// c11TwoVariables: among vs there are two values that belong to different variables (two distinct values whose
// phi webs share no phi node - the SSA values of one source variable are connected through its phis).
func c11TwoVariables(vs []ssa.Value) bool {
	for i := range vs {
		wi := phiWeb(vs[i]).Phis
		for j := i + 1; j < len(vs); j++ {
			if vs[i] == vs[j] {
				continue
			}
			shared := false
			for ph := range phiWeb(vs[j]).Phis {
				if wi[ph] {
					shared = true
				}
			}
			if !shared {
				return true
			}
		}
	}
	return false
}

// ---------------------------------------------------------------------------
// Node lookup by id (C11.4 / C11.5 / C11.6)
//
// Node, From and To start from "the node of allNodesMIMO that has the given id, or nil". In the pinned tree
// that value is the result of the private method Network.nodeWithID. A refactoring may move the search into a
// new helper (a package-level function taking the list as a parameter, ...), which the normaliser inlines at
// the call sites: the value is then a phi - the result variable of the inlined search - that receives nil or
// an element of recv.allNodesMIMO, the element only on an edge on which that element's id has been compared
// equal with the id parameter. Both forms state the same fact; c11Lookup recognises either.

type c11Lookup struct {
	fn   *ssa.Function
	tm   *Termer
	nw   *ssa.Function // the pinned helper Network.nodeWithID; nil when the tree has none
	memo map[*ssa.Phi]bool
}

func newC11Lookup(fn *ssa.Function, tm *Termer, nw *ssa.Function) *c11Lookup {
	return &c11Lookup{fn: fn, tm: tm, nw: nw, memo: map[*ssa.Phi]bool{}}
}

func c11IsNilConst(v ssa.Value) bool {
	c, ok := v.(*ssa.Const)
	return ok && c.Value == nil
}

// c11IdSubject: t denotes the id of a node (`x.ID()`, `int64(x.Id)`, `x.Id`); returns the term of x.
func c11IdSubject(t *Term) *Term {
	for t != nil && t.Op == "conv" && len(t.Args) == 1 {
		t = t.Args[0]
	}
	switch {
	case t == nil:
		return nil
	case t.Op == "call" && (t.Name == "NNode.ID" || strings.HasSuffix(t.Name, ".NNode.ID")) && len(t.Args) == 1:
		return t.Args[0]
	case t.Op == "field" && t.Name == "Id" && len(t.Args) == 1:
		if v, ok := t.Obj.(*types.Var); ok && v.Pkg() != nil && v.Pkg().Path() == PkgN {
			return t.Args[0]
		}
	}
	return nil
}

// matchedElem: e is an element of recv.allNodesMIMO, and on the edge pred->succ the id of that very element
// is known to equal the id parameter (parameter 1 of Node/From/To).
func (l *c11Lookup) matchedElem(e ssa.Value, conds []Guard) bool {
	t := l.tm.Of(e)
	if t.Op != "elem" || t.String() != "recv.allNodesMIMO[*]" {
		return false
	}
	for _, g := range conds {
		x, y, isEq := eqCond(l.tm, g)
		if !isEq {
			continue
		}
		if isParamIdx(x, 1) {
			x, y = y, x
		}
		if !isParamIdx(y, 1) {
			continue
		}
		if n := c11IdSubject(x); n != nil && (n.V == e || sameElem(n, t)) {
			return true
		}
	}
	return false
}

func c11EdgeConds(pred, succ *ssa.BasicBlock) []Guard {
	for si, s := range pred.Succs {
		if s == succ {
			return c11CondsLeaving(pred, si)
		}
	}
	return Guards(pred)
}

// inline: v is the result variable of a written-out search - a phi (web) all of whose inputs are nil or a
// matched element of recv.allNodesMIMO, with at least one of each.
func (l *c11Lookup) inline(v ssa.Value) bool {
	root, ok := v.(*ssa.Phi)
	if !ok {
		return false
	}
	if res, done := l.memo[root]; done {
		return res
	}
	nNil, nElem, okAll := 0, 0, true
	seen := map[*ssa.Phi]bool{}
	var walk func(ph *ssa.Phi)
	walk = func(ph *ssa.Phi) {
		if seen[ph] {
			return
		}
		seen[ph] = true
		for i, e := range ph.Edges {
			if in, isPhi := e.(*ssa.Phi); isPhi {
				walk(in)
				continue
			}
			if c11IsNilConst(e) {
				nNil++
				continue
			}
			if l.matchedElem(e, c11EdgeConds(ph.Block().Preds[i], ph.Block())) {
				nElem++
			} else {
				okAll = false
			}
		}
	}
	walk(root)
	res := okAll && nNil > 0 && nElem > 0
	l.memo[root] = res
	return res
}

// is: v is the looked-up node - the result of the pinned helper, or of a written-out search.
func (l *c11Lookup) is(v ssa.Value) bool {
	if v == nil {
		return false
	}
	if l.nw != nil && isCallTo(l.tm.Of(v), l.nw) {
		return true
	}
	return l.inline(v)
}

// absent: the branch outcome g says that the looked-up node is nil (`node == nil` taken, `node != nil` not
// taken, either operand order).
func (l *c11Lookup) absent(g Guard) bool {
	bo, ok := g.Cond.(*ssa.BinOp)
	if !ok || !((bo.Op == token.EQL && g.True) || (bo.Op == token.NEQ && !g.True)) {
		return false
	}
	isNil := func(v ssa.Value) bool { return c11IsNilConst(v) || l.tm.Of(v).Op == "nil" }
	return (isNil(bo.Y) && l.is(bo.X)) || (isNil(bo.X) && l.is(bo.Y))
}

// inlineLookups: the written-out searches of fn.
func (l *c11Lookup) inlineLookups() []*ssa.Phi {
	var out []*ssa.Phi
	for _, b := range l.fn.Blocks {
		for _, in := range b.Instrs {
			ph, ok := in.(*ssa.Phi)
			if !ok {
				break
			}
			if l.inline(ph) {
				out = append(out, ph)
			}
		}
	}
	return out
}

// returnsLookup: every result of fn (a gonum interface value) is the nil interface or the looked-up node - the
// lookup value itself, or directly a matched element of recv.allNodesMIMO - and some result is the node.
func (l *c11Lookup) returnsLookup() (ok bool, why string) {
	n := 0
	for _, b := range l.fn.Blocks {
		ret, isRet := b.Instrs[len(b.Instrs)-1].(*ssa.Return)
		if !isRet || len(ret.Results) != 1 {
			continue
		}
		var bad string
		var visit func(v ssa.Value, conds []Guard, d int)
		visit = func(v ssa.Value, conds []Guard, d int) {
			switch x := v.(type) {
			case *ssa.Const:
				if x.Value == nil {
					return
				}
			case *ssa.Phi:
				if d < 4 {
					for i, e := range x.Edges {
						visit(e, c11EdgeConds(x.Block().Preds[i], x.Block()), d+1)
					}
					return
				}
			case *ssa.MakeInterface:
				if l.is(x.X) || l.matchedElem(x.X, conds) || l.matchedElem(x.X, Guards(x.Block())) {
					n++
					return
				}
			}
			bad = l.tm.Of(v).String()
		}
		visit(ret.Results[0], Guards(b), 0)
		if bad != "" {
			return false, "a result is " + bad
		}
	}
	if n == 0 {
		return false, "no result is the node found in allNodesMIMO"
	}
	return true, ""
}

// c11PhiMayBeNil: some input of the phi (web) is the nil constant or the result of a lookup that may return nil.
func c11PhiMayBeNil(root *ssa.Phi) bool {
	seen := map[*ssa.Phi]bool{}
	var walk func(ph *ssa.Phi) bool
	walk = func(ph *ssa.Phi) bool {
		if seen[ph] {
			return false
		}
		seen[ph] = true
		for _, e := range ph.Edges {
			if in, isPhi := e.(*ssa.Phi); isPhi {
				if walk(in) {
					return true
				}
				continue
			}
			if c11IsNilConst(e) || mayReturnNil(e) {
				return true
			}
		}
		return false
	}
	return walk(root)
}
