package nc

import (
	"fmt"
	"go/constant"
	"go/token"
	"go/types"
	"sort"
	"strings"

	"golang.org/x/tools/go/ssa"
)

// Robustness helpers of C11.3 (node / link counts).
//
// The counts are sums: NodeCount = len(allNodes) + len(controlNodes), LinkCount = Σ len(n.Incoming) over the
// base nodes + Σ (len(c.Incoming) + len(c.Outgoing)) over the control nodes. The way such a sum is written is
// a matter of taste - two returns under an emptiness test or one accumulator, `x += a; x += b` or
// `x += a + b`, a guard around a loop over a possibly empty list or none, the cached field n.numLinks or a
// local as accumulator. What the rule has to establish is the VALUE that is returned, so the value is
// computed here symbolically as a set of cases
//
//	returned value = Σ addends        whenever the branch outcomes `Guards` hold
//
// where an addend is either a plain value (`len(recv.allNodes)`) or a per-element value summed over one
// complete traversal of a list (`Σ len(recv.allNodes[*].Incoming)`). A case that lacks an expected addend is
// accepted only under an outcome that makes the addend zero (its list is empty).

// c11Add is one addend of a returned sum.
type c11Add struct {
	Key  string // origin term of the added value, prefixed with "Σ " when it is added once per element of a list
	Loop *Loop  // the traversal (nil for a plain addend)
}

// c11Case: under Guards the value is the sum of Adds (no addend: zero).
type c11Case struct {
	Adds   []c11Add
	Guards []Guard
}

func (c c11Case) keys() []string {
	var out []string
	for _, a := range c.Adds {
		out = append(out, a.Key)
	}
	sort.Strings(out)
	return out
}

// c11Want: an addend the sum must contain exactly once; it is zero when List is empty.
type c11Want struct {
	Key  string
	List string
}

type c11Sum struct {
	fn    *ssa.Function
	tm    *Termer
	loops []*Loop
	fld   *types.Var // the field used as accumulator (nil: none)
	why   string     // first reason why the value is not a sum of the supported form
	busy  map[*ssa.Phi]bool
}

func newC11Sum(fn *ssa.Function, tm *Termer, fld *types.Var) *c11Sum {
	return &c11Sum{fn: fn, tm: tm, loops: Loops(fn), fld: fld, busy: map[*ssa.Phi]bool{}}
}

func (a *c11Sum) fail(format string, args ...interface{}) []c11Case {
	if a.why == "" {
		a.why = fmt.Sprintf(format, args...)
	}
	return nil
}

func c11IsInteger(v ssa.Value) bool {
	b, ok := v.Type().Underlying().(*types.Basic)
	return ok && b.Info()&types.IsInteger != 0
}

func c11IsZero(v ssa.Value) bool {
	c, ok := v.(*ssa.Const)
	return ok && c.Value != nil && c.Value.Kind() == constant.Int && constant.Sign(c.Value) == 0
}

// c11Leaves splits v into the leaves of its tree of integer additions.
func c11Leaves(v ssa.Value, out []ssa.Value) []ssa.Value {
	if b, ok := v.(*ssa.BinOp); ok && b.Op == token.ADD && c11IsInteger(b) {
		return c11Leaves(b.Y, c11Leaves(b.X, out))
	}
	if ct, ok := v.(*ssa.ChangeType); ok {
		return c11Leaves(ct.X, out)
	}
	return append(out, v)
}

func (a *c11Sum) headerLoop(b *ssa.BasicBlock) *Loop {
	for _, l := range a.loops {
		if l.Header == b {
			return l
		}
	}
	return nil
}

const c11MaxCases = 64

// cases computes the value v as a set of sums. gs are the outcomes already known for this use of v.
func (a *c11Sum) cases(v ssa.Value, gs []Guard) []c11Case {
	switch x := v.(type) {
	case *ssa.ChangeType:
		return a.cases(x.X, gs)
	case *ssa.Const:
		if c11IsZero(x) {
			return []c11Case{{Guards: gs}}
		}
	case *ssa.BinOp:
		if x.Op == token.ADD && c11IsInteger(x) {
			cx := a.cases(x.X, gs)
			cy := a.cases(x.Y, nil)
			if cx == nil || cy == nil {
				return a.fail("unsupported operand of %s", x.Name())
			}
			if len(cx)*len(cy) > c11MaxCases {
				return a.fail("too many cases")
			}
			var out []c11Case
			for _, p := range cx {
				for _, q := range cy {
					out = append(out, c11Case{
						Adds:   append(append([]c11Add{}, p.Adds...), q.Adds...),
						Guards: append(append([]Guard{}, p.Guards...), q.Guards...),
					})
				}
			}
			return out
		}
	case *ssa.Phi:
		if a.busy[x] {
			return a.fail("%s depends on itself other than by accumulation", x.Name())
		}
		a.busy[x] = true
		defer delete(a.busy, x)
		l := a.headerLoop(x.Block())
		var out []c11Case
		var perElem [][]c11Add // one list of addends per back edge
		for i, e := range x.Edges {
			pred := x.Block().Preds[i]
			if l != nil && l.Blocks[pred] {
				adds, ok := a.accumulated(e, x, l)
				if !ok {
					return nil
				}
				perElem = append(perElem, adds)
				continue
			}
			cs := a.cases(e, append(append([]Guard{}, gs...), condsAt(pred, x.Block())...))
			if cs == nil {
				return a.fail("unsupported value on an edge of %s", x.Name())
			}
			out = append(out, cs...)
		}
		if len(out) > c11MaxCases {
			return a.fail("too many cases")
		}
		if l != nil {
			// every back edge must add the same things
			for _, p := range perElem[1:] {
				if strings.Join(c11Case{Adds: p}.keys(), ",") != strings.Join(c11Case{Adds: perElem[0]}.keys(), ",") {
					return a.fail("the back edges of the loop at %s accumulate different values", l.Header)
				}
			}
			for i := range out {
				out[i].Adds = append(append([]c11Add{}, out[i].Adds...), perElem[0]...)
			}
		}
		return out
	case *ssa.UnOp:
		if x.Op == token.MUL && a.isAccField(x.X) {
			return a.fieldCases(x, gs)
		}
	}
	return []c11Case{{Adds: []c11Add{{Key: a.tm.Of(v).String()}}, Guards: gs}}
}

// accumulated: e, the value a loop-header phi receives over a back edge, is `ph + x1 + ... + xk`, each xi the
// value of one element of a list the loop traverses completely. Then, at the exit of the loop, the phi holds its
// entry value plus Σ xi over all elements.
func (a *c11Sum) accumulated(e ssa.Value, ph *ssa.Phi, l *Loop) ([]c11Add, bool) {
	self := 0
	var adds []c11Add
	at := ph.Block()
	if in, ok := e.(ssa.Instruction); ok {
		at = in.Block()
	}
	for _, lf := range c11Leaves(e, nil) {
		if lf == ssa.Value(ph) {
			self++
			continue
		}
		if c11IsZero(lf) {
			continue
		}
		ad, ok := a.perElement(lf, l, at)
		if !ok {
			return nil, false
		}
		adds = append(adds, ad)
	}
	if self != 1 {
		a.fail("the loop at block %d does not carry %s as `%s + ...` on every iteration", l.Header.Index, ph.Name(), ph.Name())
		return nil, false
	}
	return adds, true
}

// c11ElemOf: t is a value read from one element of a list (len(list[i].F), list[i].F ...): the list and the index.
func c11ElemOf(t *Term) (list string, idx ssa.Value, ok bool) {
	for t != nil {
		switch t.Op {
		case "len", "field":
			t = t.Args[0]
		case "elem":
			if len(t.Args) < 2 {
				return "", nil, false
			}
			return t.Args[0].String(), t.Args[1].V, true
		default:
			return "", nil, false
		}
	}
	return "", nil, false
}

// perElement: the value lf, added at block `at` inside loop l, is a value of the element the loop is at, the loop
// visits every element of that list exactly once, and `at` runs in an iteration only after the element exists.
func (a *c11Sum) perElement(lf ssa.Value, l *Loop, at *ssa.BasicBlock) (c11Add, bool) {
	t := a.tm.Of(lf)
	list, idx, ok := c11ElemOf(t)
	if !ok {
		a.fail("%s, added in a loop, is not a value of a list element", t)
		return c11Add{}, false
	}
	if why := a.fullTraversal(l, idx, list, at); why != "" {
		a.fail("%s is added in a loop that %s", t, why)
		return c11Add{}, false
	}
	return c11Add{Key: "Σ " + t.String(), Loop: l}, true
}

// fullTraversal returns "" when loop l visits the indices 0 .. len(list)-1 once each, idx being the index of the
// current iteration, and block `at` lies behind the test of that index. Otherwise: what is wrong.
func (a *c11Sum) fullTraversal(l *Loop, idx ssa.Value, list string, at *ssa.BasicBlock) string {
	for _, o := range a.loops {
		if o != l && o.Blocks[at] {
			return "is nested in or contains another loop around the addition"
		}
	}
	if !l.Blocks[at] {
		return "does not contain the addition"
	}
	var test *ssa.BasicBlock
	for _, b := range l.Header.Parent().Blocks {
		if !l.Blocks[b] {
			continue
		}
		for _, s := range b.Succs {
			if !l.Blocks[s] {
				if test != nil && test != b {
					return "can be left early (more than one exit)"
				}
				test = b
			}
		}
	}
	if test == nil {
		return "has no exit"
	}
	iff, isIf := test.Instrs[len(test.Instrs)-1].(*ssa.If)
	if !isIf || len(test.Succs) != 2 {
		return "has no exit test"
	}
	var stay *ssa.BasicBlock
	var outcome bool
	switch {
	case l.Blocks[test.Succs[0]] && !l.Blocks[test.Succs[1]]:
		stay, outcome = test.Succs[0], true
	case !l.Blocks[test.Succs[0]] && l.Blocks[test.Succs[1]]:
		stay, outcome = test.Succs[1], false
	default:
		return "has no exit test"
	}
	x, y, ok := c13LessThan(iff.Cond, outcome)
	if !ok {
		return "is not continued by a test `index < len(list)`"
	}
	if yt := a.tm.Of(y).String(); yt != "len("+list+")" {
		return fmt.Sprintf("runs up to %s, not to len(%s)", yt, list)
	}
	if x != idx {
		return "tests another index than the one of the element"
	}
	for _, lt := range l.Latch {
		if !(test == lt || test.Dominates(lt)) {
			return "does not test the index in every iteration"
		}
	}
	if !edgeDominates(test, stay, at) {
		return "performs the addition before the index is tested"
	}
	// the tested index starts at 0 and advances by one: either the counter itself (0, +1) or, in the form the
	// compiler gives a range loop, counter+1 with the counter starting at -1.
	var ph *ssa.Phi
	first := int64(0)
	if p, isPhi := x.(*ssa.Phi); isPhi {
		ph = p
	} else if add, isAdd := x.(*ssa.BinOp); isAdd && add.Op == token.ADD {
		if p, isPhi := add.X.(*ssa.Phi); isPhi && c13IsPlusOne(x, p) {
			ph, first = p, -1
		} else if p, isPhi := add.Y.(*ssa.Phi); isPhi && c13IsPlusOne(x, p) {
			ph, first = p, -1
		}
	}
	if ph == nil || ph.Block() != l.Header {
		return "has no counter as index"
	}
	entries, steps := 0, 0
	for i, e := range ph.Edges {
		if l.Blocks[l.Header.Preds[i]] {
			if !c13IsPlusOne(e, ph) {
				return "does not advance its index by one"
			}
			steps++
		} else {
			if k, isK := constInt(e); !isK || k != first {
				return "does not start at the first element"
			}
			entries++
		}
	}
	if entries == 0 || steps == 0 {
		return "has no counter as index"
	}
	return ""
}

// ---------------------------------------------------------------------------
// A field of the receiver as accumulator

func (a *c11Sum) isAccField(addr ssa.Value) bool {
	fa, ok := addr.(*ssa.FieldAddr)
	if !ok || a.fld == nil || fieldOf(fa.X.Type(), fa.Field) != a.fld {
		return false
	}
	return len(a.fn.Params) > 0 && fa.X == ssa.Value(a.fn.Params[0])
}

// emptyOn: leaving `from` towards `to` implies that every one of the lists is empty.
func (a *c11Sum) emptyOn(from, to *ssa.BasicBlock, lists []string) bool {
	iff, ok := from.Instrs[len(from.Instrs)-1].(*ssa.If)
	if !ok || len(from.Succs) != 2 || from.Succs[0] == from.Succs[1] || len(lists) == 0 {
		return false
	}
	g := Guard{iff.Cond, from.Succs[0] == to, from}
	for _, l := range lists {
		if !condImpliesEmpty(a.tm, g, l) {
			return false
		}
	}
	return true
}

// avoidable: some path from `from` reaches `to` without entering `via`, not counting paths over an edge that is
// only taken when all of lists are empty. within != nil restricts the walk to the blocks of a loop.
func (a *c11Sum) avoidable(from []*ssa.BasicBlock, to, via *ssa.BasicBlock, lists []string, within *Loop) bool {
	seen := map[*ssa.BasicBlock]bool{}
	var stack []*ssa.BasicBlock
	stack = append(stack, from...)
	for len(stack) > 0 {
		b := stack[len(stack)-1]
		stack = stack[:len(stack)-1]
		if b == via || seen[b] || (within != nil && !within.Blocks[b]) {
			continue
		}
		if b == to {
			return true
		}
		seen[b] = true
		for _, s := range b.Succs {
			if !a.emptyOn(b, s, lists) {
				stack = append(stack, s)
			}
		}
	}
	return false
}

// fieldCases: the value of load, a read of the accumulator field of the receiver. Established:
//   - exactly one store sets the field to a value that does not depend on it; it is executed once, before every
//     other store and before the read;
//   - every other store is `field = field + x1 + ... + xk` with the old value read right before it;
//   - no store can follow the read;
//   - each such store is executed on every path to the read (once, or once per element of a list that is
//     traversed completely), except on paths that are only taken when what it adds is zero.
//
// Hence the value read is the value set plus the sum of everything the other stores add.
func (a *c11Sum) fieldCases(load *ssa.UnOp, gs []Guard) []c11Case {
	type inc struct {
		st     *ssa.Store
		leaves []ssa.Value
	}
	var set *ssa.Store
	var incs []inc
	for _, st := range FieldStores(a.fn, a.fld) {
		if !a.isAccField(st.Addr) {
			return a.fail("%s of another object than the receiver is written", a.fld.Name())
		}
		if mayPrecede(load, st) {
			return a.fail("%s can be written after it was read for the result", a.fld.Name())
		}
		self := 0
		var leaves []ssa.Value
		for _, lf := range c11Leaves(st.Val, nil) {
			if u, ok := lf.(*ssa.UnOp); ok && u.Op == token.MUL && a.isAccField(u.X) {
				self++
				// the old value is read in the same block, with no write of the field in between
				if u.Block() != st.Block() || instrIndex(u) > instrIndex(st) {
					return a.fail("an update of %s does not use its current value", a.fld.Name())
				}
				for _, o := range FieldStores(a.fn, a.fld) {
					if o != st && o.Block() == st.Block() && instrIndex(o) > instrIndex(u) && instrIndex(o) < instrIndex(st) {
						return a.fail("an update of %s does not use its current value", a.fld.Name())
					}
				}
				continue
			}
			if !c11IsZero(lf) {
				leaves = append(leaves, lf)
			}
		}
		switch {
		case self == 0:
			if set != nil {
				return a.fail("%s is reset more than once", a.fld.Name())
			}
			set = st
		case self == 1:
			incs = append(incs, inc{st, leaves})
		default:
			return a.fail("an update of %s is not of the form `%s += x`", a.fld.Name(), a.fld.Name())
		}
	}
	if set == nil {
		return a.fail("%s is never reset: the count would include the result of the previous call", a.fld.Name())
	}
	if InnermostLoop(a.loops, set.Block()) != nil || !instrDominates(set, load) {
		return a.fail("%s is not reset exactly once before it is read", a.fld.Name())
	}
	for _, ic := range incs {
		if !instrDominates(set, ic.st) {
			return a.fail("%s is not reset before every update", a.fld.Name())
		}
	}
	out := a.cases(set.Val, gs)
	if out == nil {
		return a.fail("unsupported initial value of %s", a.fld.Name())
	}
	entry := []*ssa.BasicBlock{a.fn.Blocks[0]}
	for _, ic := range incs {
		b := ic.st.Block()
		l := InnermostLoop(a.loops, b)
		var adds []c11Add
		var lists, slices []string // lists: the traversed lists; slices: the slices whose length is added
		for _, lf := range ic.leaves {
			t := a.tm.Of(lf)
			if t.Op == "len" {
				slices = append(slices, t.Args[0].String())
			} else {
				slices = append(slices, "?")
			}
			if l == nil {
				adds = append(adds, c11Add{Key: t.String()})
				continue
			}
			ad, ok := a.perElement(lf, l, b)
			if !ok {
				return nil
			}
			list, _, _ := c11ElemOf(t)
			lists = append(lists, list)
			adds = append(adds, ad)
		}
		if len(adds) == 0 {
			continue
		}
		if l == nil {
			// a plain addend: the store lies on every path to the read unless what it adds is zero
			if a.avoidable(entry, load.Block(), b, slices, nil) {
				return a.fail("the update of %s at block %d is skipped on some path although it may add something", a.fld.Name(), b.Index)
			}
		} else {
			if a.avoidable(entry, load.Block(), l.Header, lists, nil) {
				return a.fail("the loop over %s is skipped on some path although the list may have elements", strings.Join(uniq(lists), ", "))
			}
			var start []*ssa.BasicBlock
			for _, s := range l.Header.Succs {
				if l.Blocks[s] {
					start = append(start, s)
				}
			}
			if b != l.Header && a.avoidable(start, l.Header, b, slices, l) {
				return a.fail("the update of %s at block %d is skipped for some elements although it may add something", a.fld.Name(), b.Index)
			}
		}
		for i := range out {
			out[i].Adds = append(append([]c11Add{}, out[i].Adds...), adds...)
		}
	}
	return out
}

// ---------------------------------------------------------------------------

// c11Feasible: no condition is required to have both outcomes.
func c11Feasible(gs []Guard) bool {
	seen := map[ssa.Value]bool{}
	for _, g := range gs {
		if prev, ok := seen[g.Cond]; ok && prev != g.True {
			return false
		}
		seen[g.Cond] = g.True
	}
	return true
}

// c11ReturnIs: every value fn returns is the sum of exactly the wanted addends (an addend may be left out where
// its list is known to be empty). Returns "" or what was found instead.
func c11ReturnIs(fn *ssa.Function, tm *Termer, fld *types.Var, want []c11Want) string {
	nret := 0
	for _, b := range fn.Blocks {
		ret, ok := b.Instrs[len(b.Instrs)-1].(*ssa.Return)
		if !ok || len(ret.Results) != 1 {
			continue
		}
		nret++
		a := newC11Sum(fn, tm, fld)
		cs := a.cases(ret.Results[0], append([]Guard{}, Guards(b)...))
		if a.why != "" || cs == nil {
			if a.why == "" {
				a.why = "result not understood"
			}
			return a.why
		}
		feasible := 0
		for _, c := range cs {
			if !c11Feasible(c.Guards) {
				continue
			}
			feasible++
			count := map[string]int{}
			for _, ad := range c.Adds {
				count[ad.Key]++
			}
			for _, w := range want {
				n := count[w.Key]
				delete(count, w.Key)
				if n == 1 {
					continue
				}
				if n > 1 {
					return fmt.Sprintf("%s is counted %d times (result %s)", w.Key, n, strings.Join(c.keys(), " + "))
				}
				empty := false
				for _, g := range c.Guards {
					if condImpliesEmpty(tm, g, w.List) {
						empty = true
					}
				}
				if !empty {
					return fmt.Sprintf("%s is not counted (result %s) although %s may have elements", w.Key, c11Show(c.keys()), w.List)
				}
			}
			for k := range count {
				return fmt.Sprintf("%s is counted in addition (result %s)", k, c11Show(c.keys()))
			}
		}
		if feasible == 0 {
			return "no feasible way to compute the result found"
		}
	}
	if nret == 0 {
		return "no return of a single value"
	}
	return ""
}

func c11Show(keys []string) string {
	if len(keys) == 0 {
		return "0"
	}
	return strings.Join(keys, " + ")
}

// ---------------------------------------------------------------------------

// c11ViaCtor rewrites a read of a field of an object that a constructor call has just returned
// (`NewLinkWithTrait(t, w, in, out, r).OutNode`) into the constructor argument the field was set from (`out`),
// so that `newLink.OutNode.Incoming = append(newLink.OutNode.Incoming, newLink)` is recognised as an append to
// the target node's list. Sound as far as the constructor's summary says the object is fresh and sets the field
// from that argument, and fn itself never writes the field.
func c11ViaCtor(sums *Summaries, fn *ssa.Function, t *Term) *Term {
	if t == nil || len(t.Args) == 0 {
		return t
	}
	n := *t
	n.Args = make([]*Term, len(t.Args))
	for i, a := range t.Args {
		n.Args[i] = c11ViaCtor(sums, fn, a)
	}
	if n.Op != "field" || n.Args[0].Op != "call" {
		return &n
	}
	c, ok := n.Args[0].V.(*ssa.Call)
	if !ok || c.Call.IsInvoke() {
		return &n
	}
	callee := c.Call.StaticCallee()
	fld, _ := n.Obj.(*types.Var)
	if callee == nil || callee.Blocks == nil || fld == nil || len(FieldStores(fn, fld)) != 0 {
		return &n
	}
	sm := sums.Ctor(callee)
	if sm == nil || sm.Why != "" || !sm.Fresh {
		return &n
	}
	ft, ok := sm.Fields[fld]
	if !ok {
		return &n
	}
	return Subst(ft, n.Args[0].Args)
}

// ---------------------------------------------------------------------------

// c11CondsLeaving: the branch outcomes known when control leaves b over its successor number si.
func c11CondsLeaving(b *ssa.BasicBlock, si int) []Guard {
	gs := append([]Guard{}, Guards(b)...)
	if iff, ok := b.Instrs[len(b.Instrs)-1].(*ssa.If); ok && len(b.Succs) == 2 && b.Succs[0] != b.Succs[1] {
		gs = append(gs, Guard{iff.Cond, si == 0, b})
	}
	return gs
}

// c11NonNilFact: the outcome g establishes v != nil for the value v it returns (nil: no such fact).
func c11NonNilFact(g Guard) ssa.Value {
	cond, neg := c13StripNot(g.Cond)
	outcome := g.True != neg
	bo, ok := cond.(*ssa.BinOp)
	if !ok {
		return nil
	}
	if !((bo.Op == token.NEQ && outcome) || (bo.Op == token.EQL && !outcome)) {
		return nil
	}
	isNil := func(v ssa.Value) bool {
		c, ok := v.(*ssa.Const)
		return ok && c.Value == nil
	}
	switch {
	case isNil(bo.Y) && !isNil(bo.X):
		return bo.X
	case isNil(bo.X) && !isNil(bo.Y):
		return bo.Y
	}
	return nil
}

// c11TwoVariables: among vs there are two values that belong to different variables (two distinct values whose
// phi webs share no phi node - the SSA values of one source variable are connected through its phis).
func c11TwoVariables(vs []ssa.Value) bool {
	for i := range vs {
		wi := phiWeb(vs[i]).Phis
		for j := i + 1; j < len(vs); j++ {
			if vs[i] == vs[j] {
				continue
			}
			shared := false
			for ph := range phiWeb(vs[j]).Phis {
				if wi[ph] {
					shared = true
				}
			}
			if !shared {
				return true
			}
		}
	}
	return false
}

// ---------------------------------------------------------------------------
// Node lookup by id (C11.4 / C11.5 / C11.6)
//
// Node, From and To start from "the node of allNodesMIMO that has the given id, or nil". In the pinned tree
// that value is the result of the private method Network.nodeWithID. A refactoring may move the search into a
// new helper (a package-level function taking the list as a parameter, ...), which the normaliser inlines at
// the call sites: the value is then a phi - the result variable of the inlined search - that receives nil or
// an element of recv.allNodesMIMO, the element only on an edge on which that element's id has been compared
// equal with the id parameter. Both forms state the same fact; c11Lookup recognises either.

type c11Lookup struct {
	fn   *ssa.Function
	tm   *Termer
	nw   *ssa.Function // the pinned helper Network.nodeWithID; nil when the tree has none
	memo map[*ssa.Phi]bool
}

func newC11Lookup(fn *ssa.Function, tm *Termer, nw *ssa.Function) *c11Lookup {
	return &c11Lookup{fn: fn, tm: tm, nw: nw, memo: map[*ssa.Phi]bool{}}
}

func c11IsNilConst(v ssa.Value) bool {
	c, ok := v.(*ssa.Const)
	return ok && c.Value == nil
}

// c11IdSubject: t denotes the id of a node (`x.ID()`, `int64(x.Id)`, `x.Id`); returns the term of x.
func c11IdSubject(t *Term) *Term {
	for t != nil && t.Op == "conv" && len(t.Args) == 1 {
		t = t.Args[0]
	}
	switch {
	case t == nil:
		return nil
	case t.Op == "call" && (t.Name == "NNode.ID" || strings.HasSuffix(t.Name, ".NNode.ID")) && len(t.Args) == 1:
		return t.Args[0]
	case t.Op == "field" && t.Name == "Id" && len(t.Args) == 1:
		if v, ok := t.Obj.(*types.Var); ok && v.Pkg() != nil && v.Pkg().Path() == PkgN {
			return t.Args[0]
		}
	}
	return nil
}

// matchedElem: e is an element of recv.allNodesMIMO, and on the edge pred->succ the id of that very element
// is known to equal the id parameter (parameter 1 of Node/From/To).
func (l *c11Lookup) matchedElem(e ssa.Value, conds []Guard) bool {
	if l.matchedAtIndex(e, conds) {
		return true
	}
	t := l.tm.Of(e)
	if t.Op != "elem" || t.String() != "recv.allNodesMIMO[*]" {
		return false
	}
	for _, g := range conds {
		x, y, isEq := eqCond(l.tm, g)
		if !isEq {
			continue
		}
		if isParamIdx(x, 1) {
			x, y = y, x
		}
		if !isParamIdx(y, 1) {
			continue
		}
		if n := c11IdSubject(x); n != nil && (n.V == e || sameElem(n, t)) {
			return true
		}
	}
	return false
}

// matchedAtIndex: e is recv.allNodesMIMO[idx] for an index variable idx that records WHERE a search found the id
// (`idx := -1; for i := range list { if list[i].ID() == id { idx = i; break } }; if idx < 0 { return nil };
// return list[idx]` - the shape of slices.IndexFunc, written out or expanded by the normaliser): everything idx can
// hold is either a position i received on an edge on which the id of recv.allNodesMIMO[i] - that very position - was
// compared equal with the id parameter, or a constant (the "not found" mark) that the branch outcomes known where
// the element is read (conds) exclude. The function itself never stores to the list or its elements, so the element
// at a recorded position is still the one that was compared.
func (l *c11Lookup) matchedAtIndex(e ssa.Value, conds []Guard) bool {
	u, ok := e.(*ssa.UnOp)
	if !ok || u.Op != token.MUL {
		return false
	}
	ia, ok := u.X.(*ssa.IndexAddr)
	if !ok || l.tm.Of(ia.X).String() != "recv.allNodesMIMO" {
		return false
	}
	root, ok := ia.Index.(*ssa.Phi)
	if !ok {
		return false
	}
	writes := false
	Instrs(l.fn, func(_ *ssa.BasicBlock, _ int, in ssa.Instruction) {
		st, isSt := in.(*ssa.Store)
		if !isSt {
			return
		}
		if f := StoredField(st); f != nil && f.Name() == "allNodesMIMO" {
			writes = true
		}
		if sa, isIA := st.Addr.(*ssa.IndexAddr); isIA && strings.HasPrefix(l.tm.Of(sa.X).String(), "recv.allNodesMIMO") {
			writes = true
		}
	})
	if writes {
		return false
	}
	// a constant the index may hold is excluded by a test of the index made before the element is read
	excluded := func(k *ssa.Const) bool {
		if k.Value == nil || k.Value.Kind() != constant.Int {
			return false
		}
		for _, g := range conds {
			x, y, op, isCmp := CmpFact(g.Cond, g.True)
			if !isCmp || x != ssa.Value(root) {
				continue
			}
			if c, isC := y.(*ssa.Const); isC && c.Value != nil && c.Value.Kind() == constant.Int && !constant.Compare(k.Value, op, c.Value) {
				return true
			}
		}
		return false
	}
	nPos, okAll := 0, true
	seen := map[*ssa.Phi]bool{}
	var walk func(ph *ssa.Phi)
	walk = func(ph *ssa.Phi) {
		if seen[ph] {
			return
		}
		seen[ph] = true
		for i, x := range ph.Edges {
			if in, isPhi := x.(*ssa.Phi); isPhi {
				walk(in)
				continue
			}
			if k, isK := x.(*ssa.Const); isK {
				if !excluded(k) {
					okAll = false
				}
				continue
			}
			found := false
			for _, g := range c11EdgeConds(ph.Block().Preds[i], ph.Block()) {
				a, b, isEq := eqCond(l.tm, g)
				if !isEq {
					continue
				}
				if isParamIdx(a, 1) {
					a, b = b, a
				}
				if !isParamIdx(b, 1) {
					continue
				}
				if n := c11IdSubject(a); n != nil && n.Op == "elem" && len(n.Args) >= 2 && n.Args[0].String() == "recv.allNodesMIMO" && n.Args[1].V == x {
					found = true
				}
			}
			if found {
				nPos++
			} else {
				okAll = false
			}
		}
	}
	walk(root)
	return okAll && nPos > 0
}

func c11EdgeConds(pred, succ *ssa.BasicBlock) []Guard {
	for si, s := range pred.Succs {
		if s == succ {
			return c11CondsLeaving(pred, si)
		}
	}
	return Guards(pred)
}

// inline: v is the result variable of a written-out search - a phi (web) all of whose inputs are nil or a
// matched element of recv.allNodesMIMO, with at least one of each.
func (l *c11Lookup) inline(v ssa.Value) bool {
	root, ok := v.(*ssa.Phi)
	if !ok {
		return false
	}
	if res, done := l.memo[root]; done {
		return res
	}
	nNil, nElem, okAll := 0, 0, true
	seen := map[*ssa.Phi]bool{}
	var walk func(ph *ssa.Phi)
	walk = func(ph *ssa.Phi) {
		if seen[ph] {
			return
		}
		seen[ph] = true
		for i, e := range ph.Edges {
			if in, isPhi := e.(*ssa.Phi); isPhi {
				walk(in)
				continue
			}
			if c11IsNilConst(e) {
				nNil++
				continue
			}
			if l.matchedElem(e, c11EdgeConds(ph.Block().Preds[i], ph.Block())) {
				nElem++
			} else {
				okAll = false
			}
		}
	}
	walk(root)
	res := okAll && nNil > 0 && nElem > 0
	l.memo[root] = res
	return res
}

// is: v is the looked-up node - the result of the pinned helper, or of a written-out search.
func (l *c11Lookup) is(v ssa.Value) bool {
	if v == nil {
		return false
	}
	if l.nw != nil && isCallTo(l.tm.Of(v), l.nw) {
		return true
	}
	return l.inline(v)
}

// absent: the branch outcome g says that the looked-up node is nil (`node == nil` taken, `node != nil` not
// taken, either operand order).
func (l *c11Lookup) absent(g Guard) bool {
	bo, ok := g.Cond.(*ssa.BinOp)
	if !ok || !((bo.Op == token.EQL && g.True) || (bo.Op == token.NEQ && !g.True)) {
		return false
	}
	isNil := func(v ssa.Value) bool { return c11IsNilConst(v) || l.tm.Of(v).Op == "nil" }
	return (isNil(bo.Y) && l.is(bo.X)) || (isNil(bo.X) && l.is(bo.Y))
}

// inlineLookups: the written-out searches of fn.
func (l *c11Lookup) inlineLookups() []*ssa.Phi {
	var out []*ssa.Phi
	for _, b := range l.fn.Blocks {
		for _, in := range b.Instrs {
			ph, ok := in.(*ssa.Phi)
			if !ok {
				break
			}
			if l.inline(ph) {
				out = append(out, ph)
			}
		}
	}
	return out
}

// returnsLookup: every result of fn (a gonum interface value) is the nil interface or the looked-up node - the
// lookup value itself, or directly a matched element of recv.allNodesMIMO - and some result is the node.
func (l *c11Lookup) returnsLookup() (ok bool, why string) {
	n := 0
	for _, b := range l.fn.Blocks {
		ret, isRet := b.Instrs[len(b.Instrs)-1].(*ssa.Return)
		if !isRet || len(ret.Results) != 1 {
			continue
		}
		var bad string
		var visit func(v ssa.Value, conds []Guard, d int)
		visit = func(v ssa.Value, conds []Guard, d int) {
			switch x := v.(type) {
			case *ssa.Const:
				if x.Value == nil {
					return
				}
			case *ssa.Phi:
				if d < 4 {
					for i, e := range x.Edges {
						visit(e, c11EdgeConds(x.Block().Preds[i], x.Block()), d+1)
					}
					return
				}
			case *ssa.MakeInterface:
				if l.is(x.X) || l.matchedElem(x.X, conds) || l.matchedElem(x.X, Guards(x.Block())) {
					n++
					return
				}
			}
			bad = l.tm.Of(v).String()
		}
		visit(ret.Results[0], Guards(b), 0)
		if bad != "" {
			return false, "a result is " + bad
		}
	}
	if n == 0 {
		return false, "no result is the node found in allNodesMIMO"
	}
	return true, ""
}

// c11PhiMayBeNil: some input of the phi (web) is the nil constant or the result of a lookup that may return nil.
func c11PhiMayBeNil(root *ssa.Phi) bool {
	seen := map[*ssa.Phi]bool{}
	var walk func(ph *ssa.Phi) bool
	walk = func(ph *ssa.Phi) bool {
		if seen[ph] {
			return false
		}
		seen[ph] = true
		for _, e := range ph.Edges {
			if in, isPhi := e.(*ssa.Phi); isPhi {
				if walk(in) {
					return true
				}
				continue
			}
			if c11IsNilConst(e) || mayReturnNil(e) {
				return true
			}
		}
		return false
	}
	return walk(root)
}

// ---------------------------------------------------------------------------
// The node lists of Genesis (C11.1 / C11.7)
//
// Genesis collects the expressed nodes in three lists (inputs, outputs, all) that grow in the loop over the genome's
// nodes and are handed to the network constructors after it. Kept in three locals each list is, after SSA construction,
// a phi of the loop header, and that phi IS the list the constructors receive. Gathered into one by-value local struct
// (`lists := struct{in, out, all []*NNode}{...}`) the lists live in the fields of an allocation that go/ssa does not
// promote: every use is a load of the field, every update a store to it. Such a field is the same private variable
// (robust_c08.go: structLocals / localCell / scanVar) as long as its address is used for nothing else. c11ListVar gives
// the rule the same three facts for either form:
//   - the loop that carries the list (for a field: the one loop all of its writers inside loops belong to; every other
//     writer - the local coming into being, the initialising stores - lies in a block that strictly dominates the
//     header of that loop, which is not nested in another loop, so it runs once, before the loop);
//   - what one iteration path does to the list (unchanged / the value it has at the end, and whether an append extends
//     the value the list had at the start of the iteration);
//   - which reads see the FINAL list: the header phi itself, or a load of the field in a block outside the loop that the
//     loop header dominates (no writer lies between the loop and such a read: a writer outside the loop dominates the
//     header, and a path from it to the read that avoids the header would contradict the header dominating the read).

type c11ListVar struct {
	fn     *ssa.Function
	locals map[*ssa.Alloc]bool
	sv     scanVar
	loop   *Loop
}

// c11ListVarOf: the list variable that v (an argument of a network constructor) reads; nil: v is neither a phi of a
// loop header nor a final read of a privately held struct field written as described above.
func c11ListVarOf(fn *ssa.Function, locals map[*ssa.Alloc]bool, loops []*Loop, v ssa.Value) *c11ListVar {
	if ph, ok := v.(*ssa.Phi); ok {
		l := InnermostLoop(loops, ph.Block())
		if l == nil || l.Header != ph.Block() {
			return nil
		}
		return &c11ListVar{fn: fn, locals: locals, sv: scanVar{phi: ph}, loop: l}
	}
	c, ok := cellOfLoad(locals, v)
	if !ok {
		return nil
	}
	var loop *Loop
	var outside []*ssa.BasicBlock
	mixed := false
	Instrs(fn, func(b *ssa.BasicBlock, _ int, in ssa.Instruction) {
		if !writesCell(locals, in, c) {
			return
		}
		l := InnermostLoop(loops, b)
		switch {
		case l == nil:
			outside = append(outside, b)
		case loop == nil:
			loop = l
		case loop != l:
			mixed = true
		}
	})
	if loop == nil || mixed {
		return nil
	}
	for _, l := range loops {
		if l != loop && l.Blocks[loop.Header] {
			return nil // nested: the writers in front of the loop would run again
		}
	}
	for _, b := range outside {
		if b == loop.Header || !b.Dominates(loop.Header) {
			return nil
		}
	}
	lv := &c11ListVar{fn: fn, locals: locals, sv: scanVar{cell: &c}, loop: loop}
	if !lv.final(v) {
		return nil
	}
	return lv
}

// final: x is the list as it stands when the loop has ended.
func (lv *c11ListVar) final(x ssa.Value) bool {
	if lv.sv.phi != nil {
		return x == ssa.Value(lv.sv.phi)
	}
	c, ok := cellOfLoad(lv.locals, x)
	if !ok || c != *lv.sv.cell {
		return false
	}
	b := x.(*ssa.UnOp).Block()
	return !lv.loop.Blocks[b] && lv.loop.Header.Dominates(b)
}

// appended: what the iteration path ip (ending on the back edge of lv.loop) does to the list: changed=false: it is
// left as it was; otherwise ok says that its new value is append(<the list as it was at the start of the iteration>, node).
func (lv *c11ListVar) appended(ip *IterPath, node ssa.Value) (changed, ok bool) {
	body := ip.Blocks[:len(ip.Blocks)-1]
	if lv.sv.phi != nil {
		nv := ip.NextValue(lv.sv.phi)
		if nv == ssa.Value(lv.sv.phi) {
			return false, true
		}
		base, elems, isApp := appendCall(nv)
		sub := &IterPath{Blocks: body, End: "partial"}
		return true, isApp && sub.Resolve(base) == ssa.Value(lv.sv.phi) && len(elems) == 1 && elems[0] == node
	}
	s := newLocalPathSeq(lv.fn, lv.locals, body)
	nv, updated, known := lv.sv.next(ip, s)
	if !known {
		return true, false
	}
	if !updated {
		return false, true
	}
	base, elems, isApp := appendCall(nv)
	return true, isApp && lv.sv.isCurrent(base, s) && len(elems) == 1 && elems[0] == node
}

// startsEmpty: the list holds no element when the loop is entered ("" / what it starts as).
func (lv *c11ListVar) startsEmpty(tm *Termer) string {
	if lv.sv.phi != nil {
		// every value the variable receives that is not an append (those are tied to the nodes path by path)
		for _, f := range phiWeb(lv.sv.phi).Feeders {
			if _, _, isApp := appendCall(f); isApp {
				continue
			}
			if !c11IsEmptyList(f) {
				return tm.Of(f).String()
			}
		}
		return ""
	}
	vals, ok := lv.sv.initValues(lv.fn, lv.locals, lv.loop)
	if !ok {
		return "a value that cannot be determined"
	}
	for _, v := range vals {
		if !c11IsEmptyList(v) {
			return tm.Of(v).String()
		}
	}
	return ""
}

// ---------------------------------------------------------------------------
// Values selected by the direction flag (C11.6, edgeBetween)
//
// `list, id := vNode.Incoming, uid; if !directed { list, id = uNode.Incoming, vid }; for _, l := range list {...}` is
// one loop doing the work of two: which list it scans and which id it compares with is decided by the parameter
// `directed`. The rules reason per value of that parameter anyway (a directed and an undirected query are separate
// cases), so within a case such a variable is replaced by the one value it can have: a phi keeps only the incoming edges
// that can be taken with flag == val - an edge is dropped when a branch outcome known on it (the outcomes dominating
// its source block, and the outcome of the branch it leaves) tests the parameter itself with the other result. The
// parameter is an SSA value, never reassigned, so every execution of the case enters the phi's block over one of the
// remaining edges; with exactly one left, the phi IS that edge's value in the case.
func c11UnderFlag(v ssa.Value, flag *ssa.Parameter, val bool) ssa.Value {
	for depth := 0; depth < 8; depth++ {
		ph, ok := v.(*ssa.Phi)
		if !ok {
			return v
		}
		n, last := 0, -1
		for i := range ph.Edges {
			feasible := true
			for _, g := range c11EdgeConds(ph.Block().Preds[i], ph.Block()) {
				if fv, isFlag := c11FlagFact(g, flag); isFlag && fv != val {
					feasible = false
				}
			}
			if feasible {
				n++
				last = i
			}
		}
		if n != 1 {
			return v
		}
		v = ph.Edges[last]
	}
	return v
}

// c11FlagFact: what the branch outcome g says about the boolean parameter flag (`flag`, `!flag`, `flag == true` ...).
func c11FlagFact(g Guard, flag *ssa.Parameter) (val, ok bool) {
	cond, neg := c13StripNot(g.Cond)
	if cond == ssa.Value(flag) {
		return g.True != neg, true
	}
	if x, y, op, isCmp := CmpFact(g.Cond, g.True); isCmp && x == ssa.Value(flag) {
		if k, isK := y.(*ssa.Const); isK && k.Value != nil && k.Value.Kind() == constant.Bool {
			switch op {
			case token.EQL:
				return constant.BoolVal(k.Value), true
			case token.NEQ:
				return !constant.BoolVal(k.Value), true
			}
		}
	}
	return false, false
}

// c11TermUnderFlag: the term of t's value in the case flag == val (t itself when the case does not select anything).
//
// The variable the flag selects may also be the NODE whose list is scanned (`node, id := vNode, uid; if !directed { node,
// id = uNode, vid }; for _, l := range node.Incoming`): the list is then a field load through the selected variable. A
// field path is the same function of its base in every case, so the case's value is substituted at the base of the
// path and the path is kept.
func c11TermUnderFlag(tm *Termer, t *Term, flag *ssa.Parameter, val bool) *Term {
	return c11TermUnderFlagD(tm, t, flag, val, 0)
}

func c11TermUnderFlagD(tm *Termer, t *Term, flag *ssa.Parameter, val bool, depth int) *Term {
	if t == nil || depth > 6 {
		return t
	}
	if t.V != nil {
		if nv := c11UnderFlag(t.V, flag, val); nv != t.V {
			return c11TermUnderFlagD(tm, tm.Of(nv), flag, val, depth+1)
		}
	}
	if t.Op == "field" && len(t.Args) == 1 {
		if base := c11TermUnderFlagD(tm, t.Args[0], flag, val, depth+1); base != t.Args[0] {
			return &Term{Op: "field", Name: t.Name, Obj: t.Obj, Idx: t.Idx, V: t.V, Args: []*Term{base}}
		}
	}
	return t
}

// ---------------------------------------------------------------------------
// Branches on a short-circuit condition kept in a boolean variable (C11.6, edgeBetween)
//
// `if a == nil && b == nil {` is compiled to two branches, each testing one comparison, and the rules read what an edge
// says about a and b off the comparison it tests. The same condition as the case of a tagless switch (`case a == nil &&
// b == nil:`) or kept in a local (`none := a == nil && b == nil; if none`) is compiled to a boolean phi at the head of
// the block that branches on it: `t = phi [false from the block that found a != nil, (b == nil) from the block that
// evaluated it]; if t`. The outcome of such a branch says nothing by itself, but control entered the block over exactly
// one of the phi's edges and the phi has the value of that edge, so the outcome states a DISJUNCTION, one alternative
// per edge that can give the phi the outcome's value:
//   - a constant edge with the other value gives no alternative;
//   - any other edge gives the branch outcomes known when control leaves its source block towards the phi (those that
//     dominate the source block and the outcome of its own branch), plus - for a non-constant edge - the edge value
//     itself having the outcome's value.
//
// Each alternative is a conjunction of ordinary branch outcomes about SSA values that are not recomputed between the
// edge and the end of the phi's block (the branch is the last instruction of the very block the phi heads - only that
// form is expanded). c11GuardCases returns the alternatives (each expanded in turn, for chains `a && b && c`); a fact
// follows from the branch outcome iff it follows from every alternative.
func c11GuardCases(g Guard, depth int) [][]Guard {
	ph, ok := g.Cond.(*ssa.Phi)
	if !ok || g.At == nil || ph.Block() != g.At || depth > 3 || len(ph.Edges) != len(ph.Block().Preds) {
		return [][]Guard{{g}}
	}
	if b, isB := ph.Type().Underlying().(*types.Basic); !isB || b.Info()&types.IsBoolean == 0 {
		return [][]Guard{{g}}
	}
	var out [][]Guard
	for i, e := range ph.Edges {
		pred := ph.Block().Preds[i]
		if ph.Block().Dominates(pred) {
			return [][]Guard{{g}} // a loop-carried flag: its value was set an iteration ago
		}
		alts := [][]Guard{nil}
		if k, isK := e.(*ssa.Const); isK {
			if k.Value == nil || k.Value.Kind() != constant.Bool {
				return [][]Guard{{g}}
			}
			if constant.BoolVal(k.Value) != g.True {
				continue
			}
		} else {
			alts = c11GuardCases(Guard{e, g.True, pred}, depth+1)
		}
		for _, eg := range c11EdgeConds(pred, ph.Block()) {
			var next [][]Guard
			for _, c := range c11GuardCases(eg, depth+1) {
				for _, a := range alts {
					next = append(next, append(append([]Guard{}, a...), c...))
				}
			}
			alts = next
			if len(alts) > 32 {
				return [][]Guard{{g}}
			}
		}
		out = append(out, alts...)
	}
	if len(out) > 32 {
		return [][]Guard{{g}}
	}
	return out
}

// c11GuardImplies: fact holds in every alternative of the branch outcome g (for an ordinary condition: of g itself).
// An outcome without alternatives (a phi of constants that cannot have the value) cannot be taken; every fact follows.
func c11GuardImplies(g Guard, fact func(Guard) bool) bool {
	for _, alt := range c11GuardCases(g, 0) {
		ok := false
		for _, x := range alt {
			if fact(x) {
				ok = true
				break
			}
		}
		if !ok {
			return false
		}
	}
	return true
}

// ---------------------------------------------------------------------------
// Results read per way of returning (C11.4 / C11.6, From / To)
//
// `if node == nil { return graph.Empty }; ...; return iterator.NewOrderedNodes(nodes)` has two return instructions, and
// "this result is given for an absent node" is a fact about the block of the first. The same body moved into a new
// helper comes back from the normaliser with ONE return: the helper's returns became assignments to a result
// variable followed by a jump to the end, so the return block is entered over several edges and the result is a phi
// of that block. What is known when a result is given is then a fact about the EDGE over which the return block is
// entered (the branch outcomes that dominate the edge's source block and the outcome of its own branch - a superset
// of what dominates the return block), and the result given is the phi's value on that edge. c11Results lists the
// results of a function in this sense: one per return block that is entered over a single edge (or is a loop header),
// one per entering edge otherwise.
type c11Result struct {
	ret   *ssa.Return
	v     ssa.Value       // the value returned (the phi's operand on the edge, for a split return)
	from  *ssa.BasicBlock // the source block of the entering edge; nil: the return block is not split
	conds []Guard         // the branch outcomes known when the result is given
}

// c11SplitReturn: b ends in a return and is entered over several forward edges.
func c11SplitReturn(b *ssa.BasicBlock) bool {
	if _, ok := b.Instrs[len(b.Instrs)-1].(*ssa.Return); !ok || len(b.Preds) < 2 {
		return false
	}
	for _, pr := range b.Preds {
		if b.Dominates(pr) {
			return false
		}
	}
	return true
}

func c11Results(fn *ssa.Function, idx int) []c11Result {
	var out []c11Result
	for _, b := range fn.Blocks {
		ret, ok := b.Instrs[len(b.Instrs)-1].(*ssa.Return)
		if !ok || len(ret.Results) <= idx {
			continue
		}
		v := ret.Results[idx]
		if !c11SplitReturn(b) {
			out = append(out, c11Result{ret, v, nil, Guards(b)})
			continue
		}
		for i, pr := range b.Preds {
			e := v
			if ph, isPhi := v.(*ssa.Phi); isPhi && ph.Block() == b && i < len(ph.Edges) {
				e = ph.Edges[i]
			}
			out = append(out, c11Result{ret, e, pr, c11EdgeConds(pr, b)})
		}
	}
	return out
}

// c11ResultTargets: the two target predicates of a path search for "a result is given where `excused` does not hold
// of the branch outcomes known there": the return instruction of an unsplit return block, the entering edge of a split one.
func c11ResultTargets(excused func([]Guard) bool) (func(ssa.Instruction) bool, func(from, to *ssa.BasicBlock) bool) {
	target := func(in ssa.Instruction) bool {
		return IsReturn(in) && !c11SplitReturn(in.Block()) && !excused(Guards(in.Block()))
	}
	targetEdge := func(from, to *ssa.BasicBlock) bool {
		return c11SplitReturn(to) && !excused(c11EdgeConds(from, to))
	}
	return target, targetEdge
}

// c11IsLinkList: t is the Incoming / Outgoing list of a node, or a variable that holds nothing but such lists.
func c11IsLinkList(t *Term) bool {
	if t == nil {
		return false
	}
	switch t.Op {
	case "field":
		return t.Name == "Incoming" || t.Name == "Outgoing"
	case "phi":
		for _, a := range t.Args {
			if !c11IsLinkList(a) {
				return false
			}
		}
		return len(t.Args) > 0
	}
	return false
}

// c11IsLinkElem: v is an element of a node's link list (never nil: Genesis appends constructor results only).
func c11IsLinkElem(tm *Termer, v ssa.Value) bool {
	if _, isPhi := v.(*ssa.Phi); isPhi {
		return false
	}
	t := tm.Of(v)
	return t.Op == "elem" && len(t.Args) >= 1 && c11IsLinkList(t.Args[0])
}

// ---------------------------------------------------------------------------
// The node lookup answers nil only for an absent id (C11.4, graph.nodeWithID.complete)
//
// Node, From and To report "no such node" exactly when nodeWithID answers nil, so nil must not be answered while
// allNodesMIMO holds a node with the id asked for. Decided on the paths of the function:
//   (scan)   there is a loop over recv.allNodesMIMO whose index starts at the first element, advances by one and is
//            tested against len(list) at the header in every iteration;
//   (step)   every iteration that goes on to the next element has compared the id of the current element with the id
//            asked for and found it different;
//   (leave)  the scan is left before its end only on an iteration that found the ids equal, and from there no nil
//            result can be reached: the value returned, followed through the variables along the path, is not nil; a
//            "not found" test of a recorded position (`idx < 0`) cannot succeed for a position of the scan (>= 0);
//   (before) no result is given before the scan unless the list is known to be empty.
// So a nil answer means that the scan ran to the end of the list and every element's id differed.

// c11CounterFromFirst: x, the index tested at the header of l, is a counter that starts at the first element and
// advances by one on every way round the loop (the counter itself, or counter+1 with the counter starting at -1 - the
// form the compiler gives a range loop).
func c11CounterFromFirst(l *Loop, x ssa.Value) bool {
	var ph *ssa.Phi
	first := int64(0)
	if q, isPhi := x.(*ssa.Phi); isPhi {
		ph = q
	} else if add, isAdd := x.(*ssa.BinOp); isAdd && add.Op == token.ADD {
		if q, isPhi := add.X.(*ssa.Phi); isPhi && c13IsPlusOne(x, q) {
			ph, first = q, -1
		} else if q, isPhi := add.Y.(*ssa.Phi); isPhi && c13IsPlusOne(x, q) {
			ph, first = q, -1
		}
	}
	if ph == nil || ph.Block() != l.Header {
		return false
	}
	entries, steps := 0, 0
	for i, e := range ph.Edges {
		if l.Blocks[l.Header.Preds[i]] {
			if !c13IsPlusOne(e, ph) {
				return false
			}
			steps++
		} else {
			if k, isK := constInt(e); !isK || k != first {
				return false
			}
			entries++
		}
	}
	return entries > 0 && steps > 0
}

func c11LookupComplete(p *Prog, fn *ssa.Function, tm *Termer, explored *int) (string, []string) {
	const listName = "recv.allNodesMIMO"
	loops := Loops(fn)
	why := "there is no loop over " + listName + " from its first element to its last, tested against len(" + listName + ") at the loop header"
	var witness []string
	for _, l := range loops {
		lt, idx, ok := c11ListScan(tm, l)
		if !ok || lt.String() != listName || !c11CounterFromFirst(l, idx) {
			continue
		}
		nested := false
		for _, o := range loops {
			if o == l {
				continue
			}
			for b := range o.Blocks {
				if l.Blocks[b] {
					nested = true
				}
			}
		}
		if nested {
			why = "the loop over " + listName + " is nested in or contains another loop"
			continue
		}
		w, wit := c11LookupCompleteScan(p, fn, tm, l, idx, explored)
		if w == "" {
			return "", nil
		}
		why, witness = w, wit
	}
	return why, witness
}

func c11LookupCompleteScan(p *Prog, fn *ssa.Function, tm *Termer, l *Loop, idx ssa.Value, explored *int) (string, []string) {
	const listName = "recv.allNodesMIMO"
	// idTest: the outcome g compares the id of the element the scan is at with the id asked for; equal says how
	idTest := func(g Guard) (equal, ok bool) {
		for _, eq := range []bool{true, false} {
			gg := g
			if !eq {
				gg.True = !g.True
			}
			a, b, isEq := eqCond(tm, gg)
			if !isEq {
				continue
			}
			if isParamIdx(a, 1) {
				a, b = b, a
			}
			if !isParamIdx(b, 1) {
				continue
			}
			if n := c11IdSubject(a); n != nil && n.Op == "elem" && len(n.Args) >= 2 && n.Args[0].String() == listName && n.Args[1].V == idx {
				return eq, true
			}
		}
		return false, false
	}
	outcome := func(conds []Guard, equal bool) bool {
		for _, g := range conds {
			if !l.Blocks[g.At] {
				continue
			}
			if e, ok := idTest(g); ok && e == equal {
				return true
			}
		}
		return false
	}
	// (before)
	isList := func(v ssa.Value) bool { return tm.Of(v).String() == listName }
	for _, b := range fn.Blocks {
		if _, isRet := b.Instrs[len(b.Instrs)-1].(*ssa.Return); !isRet || l.Header.Dominates(b) {
			continue
		}
		empty := false
		for _, g := range Guards(b) {
			if assertsEmptyLen(g.Cond, g.True, isList) {
				empty = true
			}
		}
		if !empty {
			return "a result is given before " + listName + " was scanned, for a list that is not known to be empty", []string{describeBlock(p, b, nil)}
		}
	}
	paths, complete := EnumIterPaths(fn, l, 200)
	*explored += len(paths)
	if !complete {
		return "the scan over " + listName + " has too many paths to enumerate", nil
	}
	// a test `position op constant` that no position of the scan (>= 0) passes
	impossible := func(op token.Token, k int64) bool {
		switch op {
		case token.LSS:
			return k <= 0
		case token.LEQ, token.EQL:
			return k < 0
		}
		return false
	}
	for _, ip := range paths {
		switch {
		case ip.End == "back":
			// (step)
			if !outcome(ip.Conds, false) {
				return "the scan over " + listName + " can go on to the next node without the id of the current one having been compared with the id asked for and found different", ip.Describe(p)
			}
			continue
		case len(ip.Blocks) == 2 && ip.Blocks[0] == l.Header:
			continue // the end of the list: whatever is answered, every element was compared
		}
		// (leave)
		if !outcome(ip.Conds, true) {
			return "the scan over " + listName + " can be left before its end on a node whose id was not found equal to the id asked for", ip.Describe(p)
		}
		var tails []*IterPath
		if ip.End == "return" {
			tails = []*IterPath{{Blocks: nil, End: "return"}}
		} else {
			var ok bool
			tails, ok = EnumRegionPaths(fn, ip.ExitTo, func(*ssa.BasicBlock) bool { return false }, 200)
			*explored += len(tails)
			if !ok {
				return "too many paths lead from the scan over " + listName + " to a result", nil
			}
		}
		for _, tp := range tails {
			blocks := append([]*ssa.BasicBlock{}, ip.Blocks...)
			if len(tp.Blocks) > 1 {
				blocks = append(blocks, tp.Blocks[1:]...)
			}
			whole := &IterPath{Blocks: blocks, End: "partial"}
			if tp.End == "cycle" {
				return "the code behind the scan over " + listName + " loops", whole.Describe(p)
			}
			feasible := true
			for _, g := range tp.Conds {
				x, y, op, isCmp := CmpFact(g.Cond, g.True)
				if !isCmp {
					continue
				}
				// the value tested, as it stands where the test is made
				upto := -1
				for i, b := range blocks {
					if b == g.At {
						upto = i
					}
				}
				if upto < 0 {
					continue
				}
				sub := &IterPath{Blocks: blocks[:upto+1], End: "partial"}
				if k, isK := constInt(y); isK && sub.Resolve(x) == idx && impossible(op, k) {
					feasible = false
				}
			}
			if !feasible {
				continue
			}
			last := blocks[len(blocks)-1]
			ret, isRet := last.Instrs[len(last.Instrs)-1].(*ssa.Return)
			if !isRet || len(ret.Results) != 1 {
				return "a path from the scan over " + listName + " does not end in a result", whole.Describe(p)
			}
			v := whole.Resolve(ret.Results[0])
			if _, isPhi := v.(*ssa.Phi); isPhi || c11IsNilConst(v) {
				return "nil (or a value that cannot be followed) is answered although the scan over " + listName + " found a node with the id asked for", whole.Describe(p)
			}
		}
	}
	return "", nil
}
