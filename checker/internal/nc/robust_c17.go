package nc

import (
	"fmt"
	"go/token"
	"go/types"
	"sort"
	"strings"

	"golang.org/x/tools/go/ssa"
)

// ---------------------------------------------------------------------------
// post-dominance and control regions
// ---------------------------------------------------------------------------

// postDoms computes, for every block of fn, the set of blocks that post-dominate it
// (pd[b][x]: every path from b to the function's exit passes x). Blocks ending in a
// return or panic lead to a virtual exit. Blocks from which no exit is reachable
// keep the full set (nothing can be said about them).
func postDoms(fn *ssa.Function) [][]bool {
	n := len(fn.Blocks)
	pd := make([][]bool, n)
	for i := range pd {
		pd[i] = make([]bool, n)
		for j := range pd[i] {
			pd[i][j] = true
		}
	}
	isExit := func(b *ssa.BasicBlock) bool { return len(b.Succs) == 0 }
	for changed := true; changed; {
		changed = false
		for i := n - 1; i >= 0; i-- {
			b := fn.Blocks[i]
			nw := make([]bool, n)
			if !isExit(b) {
				for j := range nw {
					nw[j] = true
				}
				for _, s := range b.Succs {
					for j := range nw {
						nw[j] = nw[j] && pd[s.Index][j]
					}
				}
			}
			nw[i] = true
			for j := range nw {
				if nw[j] != pd[i][j] {
					changed = true
				}
			}
			pd[i] = nw
		}
	}
	return pd
}

// controlRegion: the blocks whose execution depends on the outcome of the branch that ends
// block c: everything reachable from c's successors before reaching a block that
// post-dominates c (the point where the two outcomes meet again; the function's exit when
// one outcome returns). c itself is not part of it.
func controlRegion(c *ssa.BasicBlock, pd [][]bool) map[*ssa.BasicBlock]bool {
	reg := map[*ssa.BasicBlock]bool{}
	var visit func(b *ssa.BasicBlock)
	visit = func(b *ssa.BasicBlock) {
		if reg[b] || pd[c.Index][b.Index] {
			return
		}
		reg[b] = true
		for _, s := range b.Succs {
			visit(s)
		}
	}
	for _, s := range c.Succs {
		visit(s)
	}
	return reg
}

// ---------------------------------------------------------------------------
// C17.4: the logger level is not an input of the evolution
// ---------------------------------------------------------------------------

// llFinding is one way in which the process-wide log level can influence the evolution.
type llFinding struct {
	Fn     *ssa.Function
	Pos    token.Pos
	Detail string
}

// logLevelFlow is an information-flow analysis with one source: loads of the package
// variable neat.LogLevel. Explicit flows follow SSA operands (and results of calls that
// receive a dependent argument or whose callee returns a dependent value); implicit flows
// are the control regions of branches on a dependent condition.
type logLevelFlow struct {
	p        *Prog
	w        *WriteThrough
	src      *ssa.Global
	retDep   map[*ssa.Function]bool // the function's results depend on the log level
	impure   map[*ssa.Function]string
	Branches int // number of branches found that depend on the log level
}

// logPkgs: external packages whose functions only format or emit text.
var logPkgs = map[string]bool{"fmt": true, "log": true, "strings": true, "strconv": true, "errors": true, "github.com/pkg/errors": true, "math": true, "unicode": true, "unicode/utf8": true}

// effectFree: a repository function that (transitively) stores only to memory it allocated
// itself, draws no random number and calls nothing outside the text/logging packages.
// Returns "" or the reason why not.
func (l *logLevelFlow) effectFree(fn *ssa.Function) string {
	if why, ok := l.impure[fn]; ok {
		return why
	}
	l.impure[fn] = "" // recursion
	why := ""
	if fs := l.w.W[fn]; len(fs) > 0 {
		t := fs[0]
		why = fmt.Sprintf("writes %s (at %s via %s)", t.What, l.p.Pos(t.Pos), strings.Join(t.Via, " -> "))
	}
	if why == "" {
		re := l.p.Reachable([]*ssa.Function{fn}, nil)
		for _, g := range re.Order {
			if !InRepoOf(l.p, g) || g.Blocks == nil {
				continue
			}
			Instrs(g, func(_ *ssa.BasicBlock, _ int, in ssa.Instruction) {
				if why != "" {
					return
				}
				switch x := in.(type) {
				case *ssa.Go, *ssa.Send:
					why = "starts a goroutine or sends on a channel in " + FuncName(g)
				case ssa.CallInstruction:
					c := x.Common()
					if callee := c.StaticCallee(); callee != nil && !InRepoOf(l.p, callee) {
						pk := extPkgOf(callee)
						if pk == "math/rand" {
							why = "draws from the random source (" + FuncName(g) + " calls rand." + callee.Name() + ")"
						} else if pk != "" && !logPkgs[pk] {
							why = FuncName(g) + " calls " + pk + "." + callee.Name()
						}
					}
				}
			})
		}
	}
	l.impure[fn] = why
	return why
}

func extPkgOf(callee *ssa.Function) string {
	if callee.Pkg != nil {
		return callee.Pkg.Pkg.Path()
	}
	if callee.Object() != nil && callee.Object().Pkg() != nil {
		return callee.Object().Pkg().Path()
	}
	return ""
}

// bornIn: the object addressed by addr is allocated inside the region (its stores cannot be
// observed outside unless it escapes through another store, call or phi, which are judged themselves).
func bornIn(addr ssa.Value, reg map[*ssa.BasicBlock]bool) bool {
	v := addr
	for i := 0; i < 20; i++ {
		switch x := v.(type) {
		case *ssa.FieldAddr:
			v = x.X
		case *ssa.IndexAddr:
			v = x.X
		case *ssa.Slice:
			v = x.X
		case *ssa.Alloc:
			return reg[x.Block()]
		case *ssa.MakeSlice:
			return reg[x.Block()]
		case *ssa.MakeMap:
			return reg[x.Block()]
		default:
			return false
		}
	}
	return false
}

// localBase: addr points into a local variable that lives in the frame (not captured, not escaping).
func localBase(addr ssa.Value) *ssa.Alloc {
	v := addr
	for i := 0; i < 20; i++ {
		switch x := v.(type) {
		case *ssa.FieldAddr:
			v = x.X
		case *ssa.IndexAddr:
			v = x.X
		case *ssa.Alloc:
			if x.Heap {
				return nil
			}
			return x
		default:
			return nil
		}
	}
	return nil
}

func sameValue(a, b ssa.Value) bool {
	if a == b {
		return true
	}
	ca, ok1 := a.(*ssa.Const)
	cb, ok2 := b.(*ssa.Const)
	if ok1 && ok2 && types.Identical(ca.Type(), cb.Type()) {
		if ca.Value == nil || cb.Value == nil {
			return ca.Value == nil && cb.Value == nil
		}
		return ca.Value.ExactString() == cb.Value.ExactString()
	}
	return false
}

// analyse one function: returns the findings and whether its results depend on the log level.
func (l *logLevelFlow) analyse(fn *ssa.Function, count bool) (finds []llFinding, retDep bool) {
	dep := map[ssa.Value]bool{}
	var pd [][]bool
	regions := map[*ssa.BasicBlock]map[*ssa.BasicBlock]bool{}
	regionOf := func(c *ssa.BasicBlock) map[*ssa.BasicBlock]bool {
		if rg, ok := regions[c]; ok {
			return rg
		}
		if pd == nil {
			pd = postDoms(fn)
		}
		rg := controlRegion(c, pd)
		regions[c] = rg
		return rg
	}
	depBranches := map[*ssa.BasicBlock]bool{}
	callDep := func(c ssa.CallInstruction) bool {
		for _, a := range c.Common().Args {
			if dep[a] {
				return true
			}
		}
		if c.Common().IsInvoke() && dep[c.Common().Value] {
			return true
		}
		for _, callee := range l.w.calleesOf(fn, c) {
			if l.retDep[callee] {
				return true
			}
		}
		return false
	}
	for changed := true; changed; {
		changed = false
		mark := func(v ssa.Value) {
			if !dep[v] {
				dep[v] = true
				changed = true
			}
		}
		Instrs(fn, func(b *ssa.BasicBlock, _ int, in ssa.Instruction) {
			switch x := in.(type) {
			case *ssa.UnOp:
				if x.Op == token.MUL {
					if x.X == ssa.Value(l.src) || dep[x.X] {
						mark(x)
					}
					// a local variable kept in memory (captured or address-taken)
					if al, ok := x.X.(*ssa.Alloc); ok {
						for _, ref := range *al.Referrers() {
							if st, ok := ref.(*ssa.Store); ok && st.Addr == ssa.Value(al) && dep[st.Val] {
								mark(x)
							}
						}
					}
					return
				}
				if dep[x.X] {
					mark(x)
				}
			case *ssa.Store:
				// a dependent value kept in a local aggregate: what is loaded from it depends as well
				if dep[x.Val] {
					if al := localBase(x.Addr); al != nil {
						mark(al)
					}
				}
			case *ssa.If:
				if dep[x.Cond] && !depBranches[b] {
					depBranches[b] = true
					changed = true
				}
			case ssa.CallInstruction:
				if v, ok := in.(ssa.Value); ok && callDep(x) {
					mark(v)
				}
			case ssa.Value:
				if _, isAlloc := in.(*ssa.Alloc); isAlloc {
					return
				}
				for _, op := range in.Operands(nil) {
					if *op != nil && dep[*op] {
						mark(x)
					}
				}
			}
		})
		// implicit flows: a phi outside a dependent branch's region that merges different values
		// over the edges leaving the region (or the branch itself)
		for c := range depBranches {
			reg := regionOf(c)
			for _, b := range fn.Blocks {
				if reg[b] {
					continue
				}
				var from []int
				for i, pr := range b.Preds {
					if reg[pr] || pr == c {
						from = append(from, i)
					}
				}
				if len(from) < 2 {
					continue
				}
				for _, in := range b.Instrs {
					ph, ok := in.(*ssa.Phi)
					if !ok {
						break
					}
					for _, i := range from[1:] {
						if !sameValue(ph.Edges[i], ph.Edges[from[0]]) {
							mark(ph)
						}
					}
				}
			}
		}
	}
	if count {
		l.Branches += len(depBranches)
	}
	add := func(pos token.Pos, format string, a ...interface{}) {
		finds = append(finds, llFinding{fn, pos, fmt.Sprintf(format, a...)})
	}
	// (1) what a dependent value may be used for
	Instrs(fn, func(_ *ssa.BasicBlock, _ int, in ssa.Instruction) {
		switch x := in.(type) {
		case *ssa.Store:
			if dep[x.Val] {
				if localBase(x.Addr) != nil {
					return
				}
				add(x.Pos(), "stores a value that depends on neat.LogLevel")
			}
		case *ssa.MapUpdate:
			if dep[x.Value] || dep[x.Key] {
				add(x.Pos(), "puts a value that depends on neat.LogLevel into a map")
			}
		case *ssa.Send:
			if dep[x.X] {
				add(x.Pos(), "sends a value that depends on neat.LogLevel")
			}
		case *ssa.Return:
			for _, res := range x.Results {
				if dep[res] {
					retDep = true
				}
			}
		case ssa.CallInstruction:
			c := x.Common()
			hasDep := false
			for _, a := range c.Args {
				if dep[a] {
					hasDep = true
				}
			}
			if !hasDep {
				return
			}
			if why := l.callHarmless(fn, x); why != "" {
				add(x.Pos(), "passes a value that depends on neat.LogLevel to a call that is not confined to logging: %s", why)
			}
		}
	})
	// (2) what may happen under a dependent branch
	var cs []*ssa.BasicBlock
	for c := range depBranches {
		cs = append(cs, c)
	}
	sort.Slice(cs, func(i, j int) bool { return cs[i].Index < cs[j].Index })
	seen := map[ssa.Instruction]bool{}
	for _, c := range cs {
		reg := regionOf(c)
		cpos := c.Instrs[len(c.Instrs)-1].Pos()
		if !cpos.IsValid() {
			if v, ok := c.Instrs[len(c.Instrs)-1].(*ssa.If); ok {
				cpos = v.Cond.Pos()
			}
		}
		at := l.p.Pos(cpos)
		var rets []*ssa.Return
		for _, b := range fn.Blocks {
			if !reg[b] {
				continue
			}
			for _, in := range b.Instrs {
				if seen[in] {
					continue
				}
				bad := func(format string, a ...interface{}) {
					seen[in] = true
					add(in.Pos(), "under the log-level test at "+at+": "+format, a...)
				}
				switch x := in.(type) {
				case *ssa.Store:
					if !bornIn(x.Addr, reg) {
						bad("a store to memory that outlives the branch (%s)", describeAddr(x.Addr))
					}
				case *ssa.MapUpdate:
					if !bornIn(x.Map, reg) {
						bad("a map update")
					}
				case *ssa.Send, *ssa.Go, *ssa.Defer, *ssa.Panic, *ssa.Select:
					bad("a %T instruction", in)
				case *ssa.UnOp:
					if x.Op == token.ARROW {
						bad("a channel receive")
					}
				case *ssa.Return:
					rets = append(rets, x)
				case ssa.CallInstruction:
					if why := l.callHarmless(fn, x); why != "" {
						bad("a call that is not confined to logging: %s", why)
					}
				case *ssa.MakeInterface:
					// a value handed to fmt: its String/Error/Format method runs while the message is built
					for _, m := range textMethods(l.p, x.X.Type()) {
						if why := l.effectFree(m); why != "" {
							bad("formats a %s whose method %s %s", typeShort(x.X.Type()), m.Name(), why)
						}
					}
				}
			}
		}
		// one outcome of the branch leaves the function: the values returned must not differ
		if len(rets) > 0 {
			var all []*ssa.Return
			for _, b := range fn.Blocks {
				if reg[b] {
					if r, ok := b.Instrs[len(b.Instrs)-1].(*ssa.Return); ok {
						all = append(all, r)
					}
				}
			}
			for _, r := range all[1:] {
				for i := range r.Results {
					if !sameValue(r.Results[i], all[0].Results[i]) {
						retDep = true
					}
				}
			}
		}
	}
	return
}

func describeAddr(a ssa.Value) string {
	switch x := a.(type) {
	case *ssa.FieldAddr:
		return "field " + typeShort(deref(x.X.Type())) + "." + fieldOf(x.X.Type(), x.Field).Name()
	case *ssa.IndexAddr:
		return "an element of " + typeShort(x.X.Type())
	case *ssa.Global:
		return "package variable " + x.Name()
	case *ssa.Alloc:
		return "variable " + x.Comment
	case *ssa.FreeVar:
		return "captured variable " + x.Name()
	}
	return typeShort(a.Type())
}

// textMethods: the repository methods fmt calls on a value of type t.
func textMethods(p *Prog, t types.Type) []*ssa.Function {
	var out []*ssa.Function
	ms := p.SSA.MethodSets.MethodSet(t)
	for _, name := range []string{"String", "Error", "Format", "GoString"} {
		sel := ms.Lookup(nil, name)
		if sel == nil {
			// unexported lookup needs the package; the four names are exported
			continue
		}
		if m := p.SSA.MethodValue(sel); m != nil && m.Blocks != nil && InRepoOf(p, m) {
			out = append(out, m)
		}
	}
	return out
}

// callHarmless decides whether a call may run depending on the log level: builtins that
// only read, functions of the text/logging packages, and repository functions that are
// effect free. Returns "" or the reason why the call is not harmless.
func (l *logLevelFlow) callHarmless(fn *ssa.Function, x ssa.CallInstruction) string {
	c := x.Common()
	if b, ok := c.Value.(*ssa.Builtin); ok {
		switch b.Name() {
		case "len", "cap", "append", "print", "println", "min", "max", "real", "imag", "complex":
			return ""
		}
		return "builtin " + b.Name()
	}
	if callee := c.StaticCallee(); callee != nil && !InRepoOf(l.p, callee) {
		pk := extPkgOf(callee)
		if pk == "math/rand" {
			return "rand." + callee.Name() + " draws from the seeded source: every later random choice of the run shifts"
		}
		if logPkgs[pk] {
			return ""
		}
		return pk + "." + callee.Name() + " is outside the text/logging packages"
	}
	callees := l.w.calleesOf(fn, x)
	if len(callees) == 0 {
		if c.IsInvoke() {
			switch c.Method.Name() {
			case "Error", "String":
				return ""
			}
			return "interface method " + c.Method.Name() + " with no known implementation"
		}
		return "a call through a function value with no known target"
	}
	for _, callee := range callees {
		if why := l.effectFree(callee); why != "" {
			return FuncName(callee) + " " + why
		}
	}
	return ""
}

// c17LogLevel: rule body of C17.4.
func (r *Run) c17LogLevel(fns []*ssa.Function) {
	p := r.P
	var src *ssa.Global
	if pk := p.SSAPk[PkgT]; pk != nil {
		src, _ = pk.Members["LogLevel"].(*ssa.Global)
	}
	if src == nil {
		r.add("anchor-missing", "neat.LogLevel", "-", "package variable neat.LogLevel not found", nil)
		return
	}
	_, w := p.writeSet(fns[0], 0)
	l := &logLevelFlow{p: p, w: w, src: src, retDep: map[*ssa.Function]bool{}, impure: map[*ssa.Function]string{}}
	// results that depend on the level: fixpoint over the reachable functions
	for iter := 0; iter < 8; iter++ {
		changed := false
		for _, fn := range fns {
			if l.retDep[fn] {
				continue
			}
			if _, rd := l.analyse(fn, false); rd {
				l.retDep[fn] = true
				changed = true
			}
		}
		if !changed {
			break
		}
	}
	for _, fn := range fns {
		finds, _ := l.analyse(fn, true)
		if len(finds) == 0 {
			continue
		}
		for i, f := range finds {
			r.Bad(fmt.Sprintf("%s:log-level#%d", FuncName(fn), i+1), p.Pos(f.Pos), FuncName(fn)+" "+f.Detail+" - the evolution then differs between two runs with the same seed, start genome, options and fitness function whenever the process-wide logger level differs (it is switched by neat.InitLogger and by loading any options file)")
		}
	}
	n := 0
	for _, fn := range fns {
		if l.retDep[fn] {
			// a result that depends on the level is a finding only when it is used; uses are judged in the callers.
			n++
		}
	}
	if !r.failedSince("C17.4") {
		r.OK("log-level-independence", p.Pos(src.Pos()), fmt.Sprintf("%d branches on neat.LogLevel in %d reachable functions guard nothing but message formatting and logger calls; %d function results depend on the level", l.Branches, len(fns), n))
	}
	r.Floor("branches that test neat.LogLevel on the path", l.Branches, 4)
}

// failedSince: did the current rule record a failing obligation?
func (r *Run) failedSince(rule string) bool {
	for _, o := range r.Obs {
		if o.Rule == rule && o.Status != "discharged" {
			return true
		}
	}
	return false
}

// ---------------------------------------------------------------------------
// C17.5: the inputs of a run are left intact
// ---------------------------------------------------------------------------

// repoStructPtr: t is a pointer to a struct type declared in the repository.
func repoStructPtr(t types.Type) *types.Named {
	pt, ok := t.(*types.Pointer)
	if !ok {
		return nil
	}
	n, ok := pt.Elem().(*types.Named)
	if !ok || n.Obj().Pkg() == nil || !strings.HasPrefix(n.Obj().Pkg().Path(), Mod) {
		return nil
	}
	if _, isStruct := n.Underlying().(*types.Struct); !isStruct {
		return nil
	}
	return n
}

func (r *Run) c17InputsIntact() {
	p := r.P
	ctors := []*ssa.Function{p.Func(PkgG, "NewPopulation"), p.Func(PkgG, "NewPopulationRandom"), p.Func(PkgG, "ReadPopulation")}
	// (a) nothing is written through an input object
	nIn := 0
	var w *WriteThrough
	for _, fn := range ctors {
		r.Fn(FuncName(fn))
		for i, prm := range fn.Params {
			if n := repoStructPtr(prm.Type()); n == nil || n.Obj().Name() == "Options" {
				continue // the options object: C17.6
			}
			nIn++
			ws, wt := p.writeSet(fn, i)
			w = wt
			var bad []string
			for _, k := range sortedKeys(ws) {
				bad = append(bad, fmt.Sprintf("%s (at %s via %s)", k, p.Pos(ws[k].Pos), strings.Join(ws[k].Via, " -> ")))
			}
			r.Check(len(bad) == 0, fn.Name()+".input:"+prm.Name(), p.Pos(fn.Pos()), "nothing is written through the "+typeShort(prm.Type())+" the caller passes in",
				fn.Name()+" writes into the object its caller passes as "+prm.Name()+": "+strings.Join(bad, "; ")+" - the caller's next run with the same object starts from different values")
		}
	}
	r.Floor("start-genome parameters of the population constructors", nIn, 1)
	// (b) every organism made while the population is constructed from a start genome owns a copy
	newOrg := p.Func(PkgG, "NewOrganism")
	dup := p.Func(PkgG, "Genome.duplicate")
	gi := -1
	for i, prm := range newOrg.Params {
		if n := repoStructPtr(prm.Type()); n != nil && n.Obj().Name() == "Genome" {
			gi = i
		}
	}
	nOrg := 0
	if gi >= 0 && w != nil {
		re := p.Reachable([]*ssa.Function{ctors[0]}, nil)
		for _, fn := range re.RepoFuncsOf(p) {
			for _, c := range CallsTo(fn, newOrg) {
				nOrg++
				g := c.Common().Args[gi]
				fromDup := false
				if ex, ok := g.(*ssa.Extract); ok {
					if cc, ok := ex.Tuple.(*ssa.Call); ok && cc.Call.StaticCallee() == dup && ex.Index == 0 {
						fromDup = true
					}
				}
				var bad []string
				if !fromDup {
					for k := range w.roots(fn, g, 0, map[ssa.Value]bool{}) {
						switch {
						case k == rootFresh:
						case k >= 0 && k < len(fn.Params):
							bad = append(bad, "parameter "+fn.Params[k].Name())
						case k == rootGlobal:
							bad = append(bad, "a package-level object")
						default:
							bad = append(bad, "an object of unknown origin")
						}
					}
					sort.Strings(bad)
				}
				r.Check(len(bad) == 0, fn.Name()+".organism-genome", p.Pos(c.Pos()), "the organism's genome is a new object (a duplicate), not one handed in by the caller",
					"an organism of the new population is created in "+FuncName(fn)+" around a genome that is (or may be) "+strings.Join(bad, ", ")+": mutations of the population then modify the start genome itself")
			}
		}
	}
	r.Floor("organisms created during population construction", nOrg, 1)
	// (c) the duplicate is independent of its source: obligations shared with C06
	sub := NewRun(p, "C06", r.Tier)
	C06(p, sub)
	nShared := 0
	var sums *Summaries
	for _, o := range sub.Obs {
		keep := strings.HasPrefix(o.Rule, "C06.2") || strings.HasPrefix(o.Rule, "C06.3")
		if strings.HasPrefix(o.Construct, "duplicate.Id") || strings.HasPrefix(o.Construct, "duplicate.no-modules-branch") {
			keep = false // which id the copy gets and whether modules are carried over are matters of exactness, not of independence
		}
		if strings.HasPrefix(o.Rule, "C06.1") {
			keep = c06AliasRelevant(p, o.Construct)
		}
		if keep {
			nShared++
			if o.Status != "discharged" && strings.HasPrefix(o.Rule, "C06.1") {
				// C06.1 also demands that the copy holds the source's values (exactness). Reproducibility needs
				// only independence, and a freshly made slice of plain values is independent of the source
				// whatever it is filled with.
				if sums == nil {
					sums = NewSummaries(p)
				}
				if why := c17FreshValueSlice(p, sums, o.Construct); why != "" {
					r.OK(o.Rule+":"+o.Construct, o.Pos, "independent of the source: "+why+" (whether it holds the source's values is C06's concern)")
					continue
				}
			}
			r.add(o.Status, o.Rule+":"+o.Construct, o.Pos, o.Detail, o.Path)
		}
	}
	r.FieldsChecked += sub.FieldsChecked
	r.Floor("independence obligations shared with C06", nShared, 10)
}

// c17FreshValueSlice: the field named by the C06.1 construct `<ctor>[.Link].<field>` is a slice of plain
// (pointer-free) values and the copy constructor's summary assigns it nothing but freshly made slices / nil.
// Returns a description, or "" when that cannot be established (no summary, field not assigned by a field
// store - e.g. a whole-struct copy -, or some alternative that is not fresh).
func c17FreshValueSlice(p *Prog, sums *Summaries, construct string) string {
	parts := strings.Split(construct, ".")
	if len(parts) < 2 {
		return ""
	}
	var cc *copyCtor
	for i := range copyCtors {
		if copyCtors[i].fn == parts[0] {
			cc = &copyCtors[i]
		}
	}
	if cc == nil {
		return ""
	}
	fn := p.FuncOpt(cc.pkg, cc.fn)
	if fn == nil {
		return ""
	}
	sm := sums.Ctor(fn)
	if sm.Why != "" || !sm.Fresh {
		return ""
	}
	tpkg, tn := cc.tpkg, cc.tn
	if len(parts) == 3 {
		if parts[1] != "Link" {
			return ""
		}
		lt := sm.Fields[p.Field(cc.tpkg, cc.tn, "Link")]
		if lt == nil {
			return ""
		}
		call, _ := lt.V.(*ssa.Call)
		if call == nil || call.Call.StaticCallee() == nil {
			return ""
		}
		sm = sums.Ctor(call.Call.StaticCallee())
		if sm.Why != "" || !sm.Fresh {
			return ""
		}
		tpkg, tn = PkgN, "Link"
	}
	var f *types.Var
	for _, x := range p.Fields(tpkg, tn) {
		if x.Name() == parts[len(parts)-1] {
			f = x
		}
	}
	if f == nil {
		return ""
	}
	sl, ok := f.Type().Underlying().(*types.Slice)
	if !ok || isPointerLike(sl.Elem()) {
		return ""
	}
	if _, isStruct := sl.Elem().Underlying().(*types.Struct); isStruct {
		return ""
	}
	t := sm.Fields[f]
	if t == nil {
		return ""
	}
	for _, a := range t.Alternatives() {
		if !(a.Op == "make" || a.Op == "nil" || (a.Op == "const" && (a.Name == "zero" || a.Name == "nil"))) {
			return ""
		}
	}
	return f.Name() + " <- " + t.String() + ", a new " + typeShort(f.Type())
}

// c06AliasRelevant: does the C06.1 obligation `<ctor>[.Link].<field>` concern a field through which copy and
// source could share memory (pointer, slice, map, interface)? Obligations about the constructor as a whole
// (no summary, result not fresh) count as well; plain value fields are only about exactness, which
// reproducibility does not need.
func c06AliasRelevant(p *Prog, construct string) bool {
	i := strings.LastIndex(construct, ".")
	if i < 0 {
		return true
	}
	name := construct[i+1:]
	found := false
	for _, cc := range copyCtors {
		for _, f := range p.Fields(cc.tpkg, cc.tn) {
			if f.Name() == name {
				found = true
				if isPointerLike(f.Type()) {
					return true
				}
			}
		}
	}
	return !found
}

// ---------------------------------------------------------------------------
// C17.6: the options are read-only on the evolution path
// ---------------------------------------------------------------------------

// optionsFieldHeld: v is (a slice of / a conversion of) the value loaded from a field of neat.Options.
func optionsFieldHeld(v ssa.Value, opts *types.Named) *types.Var {
	for i := 0; i < 10; i++ {
		switch x := v.(type) {
		case *ssa.Slice:
			v = x.X
		case *ssa.ChangeType:
			v = x.X
		case *ssa.Convert:
			v = x.X
		case *ssa.MakeInterface:
			v = x.X
		case *ssa.UnOp:
			if x.Op != token.MUL {
				return nil
			}
			v = x.X
		case *ssa.FieldAddr:
			if n := ownerOf(x.X.Type()); n != nil && n.Obj() == opts.Obj() {
				return fieldOf(x.X.Type(), x.Field)
			}
			return nil
		case *ssa.Field:
			if n := ownerOf(x.X.Type()); n != nil && n.Obj() == opts.Obj() {
				return fieldOf(x.X.Type(), x.Field)
			}
			return nil
		default:
			return nil
		}
	}
	return nil
}

func (r *Run) c17OptionsReadOnly(roots []*ssa.Function, fns []*ssa.Function) {
	p := r.P
	opts := p.Named(PkgT, "Options")
	nReaders, nBad := 0, 0
	for _, fn := range fns {
		reads := false
		Instrs(fn, func(_ *ssa.BasicBlock, _ int, in ssa.Instruction) {
			switch x := in.(type) {
			case *ssa.FieldAddr:
				if n := ownerOf(x.X.Type()); n != nil && n.Obj() == opts.Obj() {
					reads = true
				}
			case *ssa.MapUpdate:
				if f := optionsFieldHeld(x.Map, opts); f != nil {
					nBad++
					r.Bad(FuncName(fn)+":options-write:"+f.Name(), p.Pos(x.Pos()), FuncName(fn)+" updates the map Options."+f.Name()+" on the evolution path")
				}
			case ssa.CallInstruction:
				c := x.Common()
				name, _ := calleeName(c)
				if b, ok := c.Value.(*ssa.Builtin); ok {
					name = b.Name()
				}
				switch name {
				case "copy", "clear", "sort.Sort", "sort.Stable", "sort.Slice", "sort.SliceStable", "sort.Float64s", "sort.Ints", "sort.Strings":
					if len(c.Args) > 0 {
						if f := optionsFieldHeld(c.Args[0], opts); f != nil {
							nBad++
							r.Bad(FuncName(fn)+":options-write:"+f.Name(), p.Pos(x.Pos()), FuncName(fn)+" overwrites the elements of Options."+f.Name()+" ("+name+") on the evolution path")
						}
					}
				}
			}
		})
		if reads {
			nReaders++
		}
		for _, e := range Writes(fn) {
			var f *types.Var
			switch e.Kind {
			case "field":
				if e.Owner != nil && e.Owner.Obj() == opts.Obj() {
					// a literal under construction is not the caller's object
					if fa, ok := e.Addr.(*ssa.FieldAddr); ok {
						if _, isAlloc := fa.X.(*ssa.Alloc); isAlloc {
							continue
						}
					}
					f = e.Field
				}
			case "elem":
				if ia, ok := e.Addr.(*ssa.IndexAddr); ok {
					f = optionsFieldHeld(ia.X, opts)
				}
			}
			if f == nil {
				continue
			}
			nBad++
			what := "field Options." + f.Name()
			if e.Kind == "elem" {
				what = "an element of Options." + f.Name()
			}
			r.Bad(FuncName(fn)+":options-write:"+f.Name(), p.Pos(e.Instr.Pos()), FuncName(fn)+" writes "+what+" on the evolution path: the options object is shared by all runs (and all goroutines) of the process, so a run with the same seed and the same option values behaves differently depending on what was done with the object before")
		}
	}
	if nBad == 0 {
		r.OK("options.writers", p.Pos(opts.Obj().Pos()), fmt.Sprintf("none of the %d reachable functions stores to neat.Options (%d of them read it)", len(fns), nReaders))
	}
	r.Floor("reachable functions that read the options", nReaders, 5)
	// the roots' transitive facts (covers writes through aliases handed to helpers)
	ctxT := "context.Context"
	n := 0
	for _, fn := range roots {
		for i, prm := range fn.Params {
			isOpts := false
			if nmd := repoStructPtr(prm.Type()); nmd != nil && nmd.Obj() == opts.Obj() {
				isOpts = true
			}
			if !isOpts && prm.Type().String() != ctxT {
				continue
			}
			n++
			ws, _ := p.writeSet(fn, i)
			var bad []string
			for _, k := range sortedKeys(ws) {
				bad = append(bad, fmt.Sprintf("%s (at %s via %s)", k, p.Pos(ws[k].Pos), strings.Join(ws[k].Via, " -> ")))
			}
			r.Check(len(bad) == 0, fn.Name()+".options:"+prm.Name(), p.Pos(fn.Pos()), "nothing is written through "+prm.Name(),
				FuncName(fn)+" writes through its "+typeShort(prm.Type())+" argument "+prm.Name()+": "+strings.Join(bad, "; ")+" - state kept in the options/context survives the run and changes the next one")
		}
	}
	r.Floor("options/context parameters of the roots", n, 4)
}
