package nc

import (
	"go/token"
	"go/types"
	"sort"

	"golang.org/x/tools/go/callgraph"
	"golang.org/x/tools/go/ssa"
)

// Reach holds the functions reachable from a root set over the VTA call graph.
type Reach struct {
	Funcs map[*ssa.Function][]*ssa.Function // function -> one call chain from a root (for reports)
	Order []*ssa.Function
}

// Reachable computes the functions reachable from roots. `stop` lets a rule
// cut the exploration at functions that are analysed separately.
func (p *Prog) Reachable(roots []*ssa.Function, stop func(*ssa.Function) bool) *Reach {
	cg := p.CallGraph()
	r := &Reach{Funcs: map[*ssa.Function][]*ssa.Function{}}
	var queue []*ssa.Function
	for _, f := range roots {
		if f == nil {
			continue
		}
		if _, ok := r.Funcs[f]; !ok {
			r.Funcs[f] = []*ssa.Function{f}
			queue = append(queue, f)
		}
	}
	for len(queue) > 0 {
		f := queue[0]
		queue = queue[1:]
		r.Order = append(r.Order, f)
		if stop != nil && stop(f) {
			continue
		}
		n := cg.Nodes[f]
		if n == nil {
			continue
		}
		var outs []*callgraph.Edge
		outs = append(outs, n.Out...)
		sort.SliceStable(outs, func(i, j int) bool { return outs[i].Callee.Func.String() < outs[j].Callee.Func.String() })
		for _, e := range outs {
			c := e.Callee.Func
			if _, ok := r.Funcs[c]; ok {
				continue
			}
			chain := append(append([]*ssa.Function{}, r.Funcs[f]...), c)
			r.Funcs[c] = chain
			queue = append(queue, c)
		}
		// anonymous functions created here are reachable when the closure is
		// called or started; follow them directly (defer/go of a literal).
		for _, a := range f.AnonFuncs {
			if _, ok := r.Funcs[a]; !ok {
				r.Funcs[a] = append(append([]*ssa.Function{}, r.Funcs[f]...), a)
				queue = append(queue, a)
			}
		}
	}
	return r
}

// Chain renders the call chain that makes f reachable.
func (r *Reach) Chain(f *ssa.Function) []string {
	var out []string
	for _, x := range r.Funcs[f] {
		out = append(out, FuncName(x))
	}
	return out
}

// RepoFuncs lists the reachable functions defined in the repository.
func (r *Reach) RepoFuncs() []*ssa.Function {
	var out []*ssa.Function
	for _, f := range r.Order {
		if InRepo(f) && f.Blocks != nil {
			out = append(out, f)
		}
	}
	return out
}

// Effect is one memory write.
type Effect struct {
	Fn    *ssa.Function
	Instr ssa.Instruction
	Field *types.Var   // for field stores
	Owner *types.Named // struct type owning Field
	Kind  string       // field | elem | mapupdate | global | deref
	Addr  ssa.Value
	Val   ssa.Value
}

func ownerOf(t types.Type) *types.Named {
	t = deref(t)
	n, _ := t.(*types.Named)
	return n
}

// Writes lists the memory writes of fn (not transitive).
func Writes(fn *ssa.Function) []Effect {
	var out []Effect
	Instrs(fn, func(_ *ssa.BasicBlock, _ int, in ssa.Instruction) {
		switch x := in.(type) {
		case *ssa.Store:
			switch a := x.Addr.(type) {
			case *ssa.FieldAddr:
				out = append(out, Effect{Fn: fn, Instr: in, Field: fieldOf(a.X.Type(), a.Field), Owner: ownerOf(a.X.Type()), Kind: "field", Addr: a, Val: x.Val})
			case *ssa.IndexAddr:
				out = append(out, Effect{Fn: fn, Instr: in, Kind: "elem", Addr: a, Val: x.Val})
			case *ssa.Global:
				out = append(out, Effect{Fn: fn, Instr: in, Kind: "global", Addr: a, Val: x.Val})
			case *ssa.Alloc:
				// local variable
			default:
				out = append(out, Effect{Fn: fn, Instr: in, Kind: "deref", Addr: x.Addr, Val: x.Val})
			}
		case *ssa.MapUpdate:
			out = append(out, Effect{Fn: fn, Instr: in, Kind: "mapupdate", Addr: x.Map, Val: x.Value})
		}
	})
	return out
}

// ElemOwner: for a store to x.F[i] returns the field F whose elements are written.
func ElemOwner(e Effect) *types.Var {
	ia, ok := e.Addr.(*ssa.IndexAddr)
	if !ok {
		return nil
	}
	v := ia.X
	for {
		switch x := v.(type) {
		case *ssa.UnOp:
			if x.Op == token.MUL {
				if fa, ok := x.X.(*ssa.FieldAddr); ok {
					return fieldOf(fa.X.Type(), fa.Field)
				}
			}
			return nil
		case *ssa.Slice:
			v = x.X
			continue
		case *ssa.Field:
			return fieldOf(x.X.Type(), x.Field)
		case *ssa.FieldAddr: // array field
			return fieldOf(x.X.Type(), x.Field)
		}
		return nil
	}
}

// AddrRootClass classifies the object a store writes into:
// "fresh" (allocated in this function, or returned by a call proven fresh),
// "recv", "param:i", "global", or "via:<...>" when it was loaded from memory.
func (p *Prog) AddrRootClass(fn *ssa.Function, addr ssa.Value, fresh func(*ssa.Function) bool) string {
	tm := NewTermer(fn)
	return p.rootClass(tm, addr, fresh, 0)
}

func (p *Prog) rootClass(tm *Termer, v ssa.Value, fresh func(*ssa.Function) bool, depth int) string {
	if depth > 20 {
		return "unknown"
	}
	switch x := v.(type) {
	case *ssa.FieldAddr:
		return p.rootClass(tm, x.X, fresh, depth+1)
	case *ssa.IndexAddr:
		return p.rootClass(tm, x.X, fresh, depth+1)
	case *ssa.Slice:
		return p.rootClass(tm, x.X, fresh, depth+1)
	case *ssa.Alloc, *ssa.MakeSlice, *ssa.MakeMap:
		return "fresh"
	case *ssa.Parameter:
		t := tm.Of(x)
		if t.Op == "recv" {
			return "recv"
		}
		return "param:" + x.Name()
	case *ssa.Global:
		return "global:" + x.Name()
	case *ssa.FreeVar:
		return "free:" + x.Name()
	case *ssa.Call:
		if c := x.Call.StaticCallee(); c != nil && fresh != nil && fresh(c) {
			return "fresh"
		}
		if b, ok := x.Call.Value.(*ssa.Builtin); ok && b.Name() == "append" {
			return p.rootClass(tm, x.Call.Args[0], fresh, depth+1)
		}
		return "call:" + tm.Of(x).String()
	case *ssa.Extract:
		if c, ok := x.Tuple.(*ssa.Call); ok {
			if cc := c.Call.StaticCallee(); cc != nil && fresh != nil && fresh(cc) {
				return "fresh"
			}
		}
		return "via:" + tm.Of(x).String()
	case *ssa.Phi:
		cls := ""
		for _, e := range x.Edges {
			if e == x {
				continue
			}
			if c, ok := e.(*ssa.Const); ok && c.Value == nil {
				continue // nil edge writes nothing
			}
			c := p.rootClass(tm, e, fresh, depth+1)
			if cls == "" {
				cls = c
			} else if cls != c {
				if cls == "fresh" {
					cls = c
				} else if c != "fresh" {
					cls = cls + "|" + c
				}
			}
		}
		if cls == "" {
			return "unknown"
		}
		return cls
	case *ssa.UnOp:
		if x.Op == token.MUL {
			// loaded pointer: the object is whatever the holder points to
			inner := p.rootClass(tm, x.X, fresh, depth+1)
			if inner == "fresh" {
				// pointer stored in a fresh object: origin is what was stored there
				return "via-fresh:" + tm.Of(x).String()
			}
			return "via:" + inner
		}
	case *ssa.ChangeType:
		return p.rootClass(tm, x.X, fresh, depth+1)
	case *ssa.MakeInterface:
		return p.rootClass(tm, x.X, fresh, depth+1)
	}
	return "unknown:" + tm.Of(v).String()
}
