package nc

import (
	"fmt"
	"go/constant"
	"go/token"
	"go/types"
	"sort"
	"strings"

	"golang.org/x/tools/go/ssa"
)

// c13Counted describes a loop that is proven to run its counter through
// init, init+1, ... while counter < bound, in whatever syntactic form it was written
// (three-clause for, `for { if i >= n { break } ... i++ }`, negated or mirrored tests).
type c13Counted struct {
	Loop  *Loop
	Phi   *ssa.Phi           // the counter, a phi of the loop header
	Inits []ssa.Value        // the values entering from outside the loop (one per entry edge)
	Bound ssa.Value          // the loop is left as soon as !(Phi < Bound)
	Test  *ssa.BasicBlock    // the block that ends in the exit test
	Stay  *ssa.BasicBlock    // its successor inside the loop
	steps map[ssa.Value]bool // the phi+1 values on the back edges
}

// c13StripNot removes boolean negations; neg tells whether an odd number was removed.
func c13StripNot(v ssa.Value) (ssa.Value, bool) {
	neg := false
	for {
		u, ok := v.(*ssa.UnOp)
		if !ok || u.Op != token.NOT {
			return v, neg
		}
		v, neg = u.X, !neg
	}
}

// c13LessThan decomposes cond (known to have the given outcome) into "x < y" if it has that meaning.
func c13LessThan(cond ssa.Value, outcome bool) (x, y ssa.Value, ok bool) {
	c, neg := c13StripNot(cond)
	if neg {
		outcome = !outcome
	}
	bin, isBin := c.(*ssa.BinOp)
	if !isBin {
		return nil, nil, false
	}
	switch {
	case bin.Op == token.LSS && outcome: // x < y
		return bin.X, bin.Y, true
	case bin.Op == token.GTR && outcome: // y > x
		return bin.Y, bin.X, true
	case bin.Op == token.GEQ && !outcome: // !(x >= y)
		return bin.X, bin.Y, true
	case bin.Op == token.LEQ && !outcome: // !(y <= x)
		return bin.Y, bin.X, true
	}
	return nil, nil, false
}

// c13IsPlusOne: v is ph+1 (or 1+ph).
func c13IsPlusOne(v ssa.Value, ph *ssa.Phi) bool {
	add, ok := v.(*ssa.BinOp)
	if !ok || add.Op != token.ADD {
		return false
	}
	if add.X == ph {
		k, isK := constInt(add.Y)
		return isK && k == 1
	}
	if add.Y == ph {
		k, isK := constInt(add.X)
		return isK && k == 1
	}
	return false
}

// c13CountedLoopOf recognises l as a counted loop. What is established when ok:
//   - the counter is a header phi whose every in-loop edge carries counter+1 and whose entry edges carry Inits;
//   - exactly one block of the loop has an edge leaving it, that block ends in a test which keeps the
//     iteration inside the loop precisely when counter < Bound, and the test is passed in every iteration
//     before the back edge (it dominates every latch);
//
// hence the blocks dominated by the edge Test->Stay run exactly for counter = init, init+1, ..., Bound-1
// (as far as Bound is loop-invariant, which callers establish through its origin term).
func c13CountedLoopOf(l *Loop) (*c13Counted, bool) {
	if l == nil {
		return nil, false
	}
	// the single exiting block
	var test *ssa.BasicBlock
	for b := range l.Blocks {
		for _, s := range b.Succs {
			if !l.Blocks[s] {
				if test != nil && test != b {
					return nil, false // a second way out (break/return in the body): coverage not exact
				}
				test = b
			}
		}
	}
	if test == nil || len(test.Instrs) == 0 {
		return nil, false
	}
	iff, isIf := test.Instrs[len(test.Instrs)-1].(*ssa.If)
	if !isIf || len(test.Succs) != 2 {
		return nil, false
	}
	var stay *ssa.BasicBlock
	var stayOutcome bool
	switch {
	case l.Blocks[test.Succs[0]] && !l.Blocks[test.Succs[1]]:
		stay, stayOutcome = test.Succs[0], true
	case !l.Blocks[test.Succs[0]] && l.Blocks[test.Succs[1]]:
		stay, stayOutcome = test.Succs[1], false
	default:
		return nil, false
	}
	x, y, ok := c13LessThan(iff.Cond, stayOutcome)
	if !ok {
		return nil, false
	}
	ph, isPhi := x.(*ssa.Phi)
	if !isPhi || ph.Block() != l.Header {
		return nil, false
	}
	// the test is evaluated in every iteration before the counter advances
	for _, lt := range l.Latch {
		if !(test == lt || test.Dominates(lt)) {
			return nil, false
		}
	}
	cl := &c13Counted{Loop: l, Phi: ph, Bound: y, Test: test, Stay: stay, steps: map[ssa.Value]bool{}}
	for i, e := range ph.Edges {
		pred := l.Header.Preds[i]
		if l.Blocks[pred] {
			if !c13IsPlusOne(e, ph) {
				return nil, false
			}
			cl.steps[e] = true
		} else {
			cl.Inits = append(cl.Inits, e)
		}
	}
	if len(cl.steps) == 0 || len(cl.Inits) == 0 {
		return nil, false
	}
	// the bound must not be computed from the counter
	if y == ssa.Value(ph) || cl.steps[y] {
		return nil, false
	}
	return cl, true
}

// RunsEveryIteration: instruction in (inside the loop) is executed once in every iteration that passes the test,
// with the counter of that iteration: it lies behind the edge Test->Stay and no path from that edge reaches a
// back edge without it.
func (cl *c13Counted) RunsEveryIteration(in ssa.Instruction) bool {
	b := in.Block()
	if !cl.Loop.Blocks[b] || !edgeDominates(cl.Test, cl.Stay, b) {
		return false
	}
	// an inner loop would repeat it (or skip the counter): require the innermost loop of b to be this one
	if il := InnermostLoop(Loops(b.Parent()), b); il == nil || il.Header != cl.Loop.Header {
		return false
	}
	for _, lt := range cl.Loop.Latch {
		if !(b == lt || b.Dominates(lt)) {
			return false
		}
	}
	return true
}

// ---------------------------------------------------------------------------------------------------------------
// Fresh state versus flushed state of the fast solver (fourth round).
//
// The solver's per-neuron arrays share one index layout, documented at the struct's count fields:
//
//	[0, biasNeuronCount)                    bias neurons
//	[biasNeuronCount, sensorNeuronCount)    input neurons
//	[sensorNeuronCount, totalNeuronCount)   output and hidden neurons
//
// For a function (the constructor, Flush) the model below computes, per array field and per one of these three
// index ranges, the value the function leaves in every element of the range: "untouched", a canonical value, or
// "ambiguous" (written on some paths / for some indices only, or with a value that cannot be named). It is a
// forward replay of the function's array writes in execution order:
//
//   - make([]T, n) stored into the field: zero on every range (n must be the total count);
//   - a counted loop (any spelling, see c13CountedLoopOf; or a range loop over an array of known length) that stores
//     at its counter: the paths of one iteration are enumerated, the branch outcomes that compare the counter with
//     a layout bound are evaluated for a counter inside the range, and the range is written with v when every
//     feasible path stores v, untouched when none stores, ambiguous otherwise;
//   - copy(dst[lo:], src[lo:]) between arrays of the same (total) length: dst[i] = src[i] on the ranges from lo on;
//   - a call of another method of the solver on the same object: its writes are replayed in place;
//   - anything else that writes the array (store at another index, store outside a loop, callee that is not a
//     method of the solver, closure): ambiguous.
//
// A write that does not lie on every path to the function's (non-nil) returns makes the ranges it touches ambiguous
// unless it stores what they hold already.

var c13Breaks = []string{"0", "biasNeuronCount", "sensorNeuronCount", "totalNeuronCount"}

// The three ranges of the layout, and as a fourth one the indices from totalNeuronCount on: no array has them, a write
// there is a run-time panic, and a loop whose exit is not decided there (`i <= totalNeuronCount`) is not a reset.
const c13NSeg = 4

func c13Pos(sym string) int {
	for i, b := range c13Breaks {
		if b == sym {
			return i
		}
	}
	return -1
}

func c13SegName(k int) string {
	if k+1 >= len(c13Breaks) {
		return "[" + c13Breaks[k] + ", ...)"
	}
	return "[" + c13Breaks[k] + ", " + c13Breaks[k+1] + ")"
}

// effect of one event (or state) on one index range
type c13Eff struct {
	Kind int    // 0 untouched, 1 every element holds Val, 2 ambiguous
	Val  string // canonical value (Kind 1) or the reason (Kind 2)
}

type c13Event struct {
	at     ssa.Instruction
	anchor *ssa.BasicBlock // the block whose execution implies that the whole event takes place
	must   bool
	arr    *types.Var
	seg    [c13NSeg]c13Eff
	what   string
	sub    []*c13Event // a replayed callee
}

type c13Model struct {
	p       *Prog
	owner   *types.Named
	scalars map[*ssa.Function]map[string]string    // ctor: canonical term of a value stored into a count field -> field
	params  map[*ssa.Function]map[ssa.Value]string // ctor: parameter stored into a field -> field
	makeLen map[*types.Var]string                  // array field -> layout symbol of its allocated length
	state   map[*types.Var]bool                    // arrays that are run-time state (values read from them are not stable)
	memo    map[*ssa.Function][]*c13Event
	busy    map[*ssa.Function]bool
	wsMemo  map[*ssa.Function]map[*types.Var]bool
	// the constructor stores biasNeuronCount + inputNeuronCount into sensorNeuronCount
	sensorIsSum bool
}

func newC13Model(p *Prog, owner *types.Named) *c13Model {
	return &c13Model{p: p, owner: owner, scalars: map[*ssa.Function]map[string]string{}, params: map[*ssa.Function]map[ssa.Value]string{},
		makeLen: map[*types.Var]string{}, state: map[*types.Var]bool{}, memo: map[*ssa.Function][]*c13Event{}, busy: map[*ssa.Function]bool{},
		wsMemo: map[*ssa.Function]map[*types.Var]bool{}}
}

func (m *c13Model) isOwner(t types.Type) bool {
	n, _ := deref(t).(*types.Named)
	return n != nil && n == m.owner
}

// ownerField: v is the address of (or the value of) a field of the solver object.
func (m *c13Model) ownerField(v ssa.Value) *types.Var {
	switch x := v.(type) {
	case *ssa.FieldAddr:
		if m.isOwner(x.X.Type()) {
			return fieldOf(x.X.Type(), x.Field)
		}
	case *ssa.Field:
		if m.isOwner(x.X.Type()) {
			return fieldOf(x.X.Type(), x.Field)
		}
	}
	return nil
}

// learnCtor records what the constructor says about the layout: which values become the count fields, which
// parameters become fields, and with which length every array is allocated.
func (m *c13Model) learnCtor(fn *ssa.Function) {
	tm := NewTermer(fn)
	sc := map[string]string{}
	pm := map[ssa.Value]string{}
	Instrs(fn, func(_ *ssa.BasicBlock, _ int, in ssa.Instruction) {
		st, ok := in.(*ssa.Store)
		if !ok {
			return
		}
		f := m.ownerField(st.Addr)
		if f == nil {
			return
		}
		if _, isC := st.Val.(*ssa.Const); isC {
			return
		}
		if par, isP := st.Val.(*ssa.Parameter); isP {
			pm[par] = f.Name()
		}
		if b, isB := f.Type().Underlying().(*types.Basic); isB && b.Info()&types.IsInteger != 0 {
			sc[CanonTerm(tm.Of(st.Val))] = f.Name()
		}
	})
	m.scalars[fn] = sc
	m.params[fn] = pm
	// does this constructor define the sensor count as bias + inputs?
	var kb, ki, ks string
	for k, name := range sc {
		switch name {
		case "biasNeuronCount":
			kb = k
		case "inputNeuronCount":
			ki = k
		case "sensorNeuronCount":
			ks = k
		}
	}
	if kb != "" && ki != "" && (ks == "("+kb+"+"+ki+")" || ks == "("+ki+"+"+kb+")") {
		m.sensorIsSum = true
	}
	Instrs(fn, func(_ *ssa.BasicBlock, _ int, in ssa.Instruction) {
		mk, ok := in.(*ssa.MakeSlice)
		if !ok {
			return
		}
		if f := m.madeFor(mk); f != nil {
			s := m.sym(fn, mk.Len)
			if old, seen := m.makeLen[f]; seen && old != s {
				s = ""
			}
			m.makeLen[f] = s
		}
	})
}

// madeFor: the array field a make() result is stored into (nil if none or several).
func (m *c13Model) madeFor(mk *ssa.MakeSlice) *types.Var {
	var f *types.Var
	if mk.Referrers() == nil {
		return nil
	}
	for _, ref := range *mk.Referrers() {
		if st, ok := ref.(*ssa.Store); ok && st.Val == ssa.Value(mk) {
			g := m.ownerField(st.Addr)
			if g == nil || (f != nil && f != g) {
				return nil
			}
			f = g
		}
	}
	return f
}

// sym names v as a layout symbol ("0", a count field, another integer constant) or "".
func (m *c13Model) sym(fn *ssa.Function, v ssa.Value) string {
	for i := 0; i < 4; i++ {
		switch x := v.(type) {
		case *ssa.Convert:
			v = x.X
			continue
		case *ssa.ChangeType:
			v = x.X
			continue
		}
		break
	}
	switch x := v.(type) {
	case *ssa.Const:
		if k, ok := constInt(x); ok {
			return itoa(int(k))
		}
		return ""
	case *ssa.UnOp:
		if x.Op == token.MUL {
			if f := m.ownerField(x.X); f != nil {
				return f.Name()
			}
		}
	case *ssa.Field:
		if f := m.ownerField(x); f != nil {
			return f.Name()
		}
	case *ssa.Call:
		if b, ok := x.Call.Value.(*ssa.Builtin); ok && b.Name() == "len" && len(x.Call.Args) == 1 {
			if f, lo, hi, ok := m.arr(x.Call.Args[0]); ok && lo == nil && hi == nil {
				return m.makeLen[f]
			}
			return ""
		}
	}
	if sc := m.scalars[fn]; sc != nil {
		if name, ok := sc[CanonTerm(NewTermer(fn).Of(v))]; ok {
			return name
		}
	}
	// the number of sensors spelled out: bias + inputs
	if b, ok := v.(*ssa.BinOp); ok && b.Op == token.ADD && m.sensorIsSum {
		x, y := m.sym(fn, b.X), m.sym(fn, b.Y)
		if (x == "biasNeuronCount" && y == "inputNeuronCount") || (x == "inputNeuronCount" && y == "biasNeuronCount") {
			return "sensorNeuronCount"
		}
	}
	return ""
}

// arr resolves a slice value to the array field of the solver it denotes, with the bounds of one reslicing.
func (m *c13Model) arr(v ssa.Value) (f *types.Var, low, high ssa.Value, ok bool) {
	sliced := false
	for i := 0; i < 6; i++ {
		switch x := v.(type) {
		case *ssa.Slice:
			if sliced || x.Max != nil {
				return nil, nil, nil, false
			}
			sliced = true
			low, high = x.Low, x.High
			v = x.X
			continue
		case *ssa.ChangeType:
			v = x.X
			continue
		case *ssa.UnOp:
			if x.Op == token.MUL {
				if g := m.ownerField(x.X); g != nil {
					if _, isSlice := g.Type().Underlying().(*types.Slice); isSlice {
						return g, low, high, true
					}
				}
			}
		case *ssa.Field:
			if g := m.ownerField(x); g != nil {
				if _, isSlice := g.Type().Underlying().(*types.Slice); isSlice {
					return g, low, high, true
				}
			}
		case *ssa.MakeSlice:
			if g := m.madeFor(x); g != nil {
				return g, low, high, true
			}
		}
		break
	}
	return nil, nil, nil, false
}

// evalCmp evaluates a comparison for an index value idx anywhere inside layout range k.
func (m *c13Model) evalCmp(fn *ssa.Function, cond ssa.Value, idx ssa.Value, k int) (val, known bool) {
	c, neg := c13StripNot(cond)
	b, ok := c.(*ssa.BinOp)
	if !ok {
		return false, false
	}
	op := b.Op
	var other ssa.Value
	switch {
	case b.X == idx:
		other = b.Y
	case b.Y == idx:
		other = b.X
		op = map[token.Token]token.Token{token.LSS: token.GTR, token.GTR: token.LSS, token.LEQ: token.GEQ, token.GEQ: token.LEQ, token.EQL: token.EQL, token.NEQ: token.NEQ}[op]
	default:
		return false, false
	}
	p := c13Pos(m.sym(fn, other))
	if p < 0 {
		return false, false
	}
	// idx in [B_k, B_{k+1}), 0 = B_0 <= B_1 <= B_2 <= B_3: p >= k+1 gives idx < sym, p <= k gives idx >= sym
	below, notBelow := p >= k+1, p <= k
	switch op {
	case token.LSS:
		val, known = below, below || notBelow
	case token.GEQ:
		val, known = notBelow, below || notBelow
	case token.LEQ: // idx < sym implies idx <= sym
		val, known = true, below
	case token.GTR:
		val, known = false, below
	case token.EQL:
		val, known = false, below
	case token.NEQ:
		val, known = true, below
	default:
		return false, false
	}
	if neg {
		val = !val
	}
	return val, known
}

// val prints v canonically: the same text in the constructor and in a method means the same value.
func (m *c13Model) val(fn *ssa.Function, ip *IterPath, v ssa.Value, idx ssa.Value, k int, depth int) string {
	if depth > 8 {
		return "?" + fn.Name() + ":" + v.Name()
	}
	if ip != nil {
		v = ip.Resolve(v)
	}
	if idx != nil && v == idx {
		return "i"
	}
	rec := func(x ssa.Value) string { return m.val(fn, ip, x, idx, k, depth+1) }
	switch x := v.(type) {
	case *ssa.Const:
		if x.Value == nil {
			return "0"
		}
		switch x.Value.Kind() {
		case constant.Bool:
			if constant.BoolVal(x.Value) {
				return "true"
			}
			return "0"
		case constant.Int, constant.Float:
			f, _ := constant.Float64Val(x.Value)
			return fmt.Sprintf("%g", f)
		}
		if x.Value.ExactString() == `""` {
			return "0"
		}
		return x.Value.ExactString()
	case *ssa.Convert:
		return rec(x.X)
	case *ssa.ChangeType:
		return rec(x.X)
	case *ssa.BinOp:
		switch x.Op {
		case token.LSS, token.LEQ, token.GTR, token.GEQ, token.EQL, token.NEQ:
			if idx != nil && k >= 0 {
				if b, known := m.evalCmp(fn, x, idx, k); known {
					if b {
						return "true"
					}
					return "0"
				}
			}
		}
		a, b := rec(x.X), rec(x.Y)
		op := x.Op.String()
		switch x.Op {
		case token.ADD, token.MUL, token.EQL, token.NEQ, token.AND, token.OR, token.XOR:
			if b < a {
				a, b = b, a
			}
		case token.GTR:
			a, b, op = b, a, "<"
		case token.GEQ:
			a, b, op = b, a, "<="
		}
		return "(" + a + op + b + ")"
	case *ssa.UnOp:
		switch x.Op {
		case token.NOT:
			switch in := rec(x.X); in {
			case "true":
				return "0"
			case "0":
				return "true"
			default:
				return "!" + in
			}
		case token.MUL:
			if ia, ok := x.X.(*ssa.IndexAddr); ok {
				if f, lo, hi, ok := m.arr(ia.X); ok && lo == nil && hi == nil {
					s := "@" + f.Name() + "[" + rec(ia.Index) + "]"
					if m.state[f] {
						// the contents of a run-time array depend on when they are read
						return "?state:" + fn.Name() + ":" + s
					}
					return s
				}
				// a constructor parameter that becomes a field shares its backing array with the field
				if par, isPar := ia.X.(*ssa.Parameter); isPar {
					if name, ok := m.params[fn][par]; ok {
						return "@" + name + "[" + rec(ia.Index) + "]"
					}
				}
				return "?" + fn.Name() + ":" + v.Name()
			}
			if f := m.ownerField(x.X); f != nil {
				return "@" + f.Name()
			}
		}
	case *ssa.Parameter:
		if name, ok := m.params[fn][x]; ok {
			return "@" + name
		}
	case *ssa.Call:
		name, _ := calleeName(&x.Call)
		var a []string
		for _, arg := range x.Call.Args {
			a = append(a, rec(arg))
		}
		if _, isB := x.Call.Value.(*ssa.Builtin); isB || x.Call.StaticCallee() != nil {
			return name + "(" + strings.Join(a, ",") + ")"
		}
	}
	return "?" + fn.Name() + ":" + v.Name()
}

func c13Opaque(s string) bool { return strings.Contains(s, "?") }

// c13Iter is a loop with an index value that is Init (every entry edge; 0 when Inits is nil) in the first iteration and
// one more in each following iteration, on whatever back edge the iteration ends. Nothing is said about how the
// loop is left: the callers evaluate the exit tests like any other branch of the body.
type c13Iter struct {
	Loop  *Loop
	Idx   ssa.Value
	Inits []ssa.Value
}

// c13IterOf finds such an index among the header phis; when several qualify, one that `want` accepts is preferred.
func c13IterOf(l *Loop, want func(ssa.Value) bool) (*c13Iter, bool) {
	var found *c13Iter
	for _, in := range l.Header.Instrs {
		ph, isPhi := in.(*ssa.Phi)
		if !isPhi {
			break
		}
		var inits []ssa.Value
		var step ssa.Value
		ok := true
		for i, e := range ph.Edges {
			if l.Blocks[l.Header.Preds[i]] {
				if !c13IsPlusOne(e, ph) || (step != nil && step != e) {
					ok = false
				}
				step = e
			} else {
				inits = append(inits, e)
			}
		}
		if !ok || step == nil || len(inits) == 0 {
			continue
		}
		cand := &c13Iter{Loop: l, Idx: ph, Inits: inits}
		// range loop over a slice: k = phi{-1, k+1}, and the body works with k+1 computed in the header
		if inc := step.(*ssa.BinOp); inc.Block() == l.Header {
			all := true
			for _, e := range inits {
				if k, isK := constInt(e); !isK || k != -1 {
					all = false
				}
			}
			if all {
				cand = &c13Iter{Loop: l, Idx: inc}
			}
		}
		if found == nil || (want != nil && want(cand.Idx) && !want(found.Idx)) {
			found = cand
		}
	}
	return found, found != nil
}

// writeSet: the array fields of the solver that fn or anything it calls may write (element stores and copy targets).
func (m *c13Model) writeSet(fn *ssa.Function) map[*types.Var]bool {
	if ws, ok := m.wsMemo[fn]; ok {
		return ws
	}
	ws := map[*types.Var]bool{}
	m.wsMemo[fn] = ws
	re := m.p.Reachable([]*ssa.Function{fn}, nil)
	for _, f := range re.RepoFuncs() {
		Instrs(f, func(_ *ssa.BasicBlock, _ int, in ssa.Instruction) {
			switch x := in.(type) {
			case *ssa.Store:
				if ia, ok := x.Addr.(*ssa.IndexAddr); ok {
					if g, _, _, ok := m.arr(ia.X); ok {
						ws[g] = true
					}
				}
				if g := m.ownerField(x.Addr); g != nil {
					if _, isSlice := g.Type().Underlying().(*types.Slice); isSlice {
						ws[g] = true
					}
				}
			case ssa.CallInstruction:
				if b, ok := x.Common().Value.(*ssa.Builtin); ok && b.Name() == "copy" && len(x.Common().Args) == 2 {
					if g, _, _, ok := m.arr(x.Common().Args[0]); ok {
						ws[g] = true
					}
				}
			}
		})
	}
	return ws
}

func c13Amb(why string) [c13NSeg]c13Eff {
	var s [c13NSeg]c13Eff
	for k := range s {
		s[k] = c13Eff{Kind: 2, Val: why}
	}
	return s
}

// events lists the array writes of fn in execution order.
func (m *c13Model) events(fn *ssa.Function, ctor bool) []*c13Event {
	if ev, ok := m.memo[fn]; ok {
		return ev
	}
	if m.busy[fn] {
		return nil
	}
	m.busy[fn] = true
	defer delete(m.busy, fn)
	p := m.p
	loops := Loops(fn)
	// the returns every must-event has to dominate
	var rets []*ssa.BasicBlock
	for _, b := range fn.Blocks {
		if len(b.Instrs) == 0 {
			continue
		}
		if ret, ok := b.Instrs[len(b.Instrs)-1].(*ssa.Return); ok {
			if ctor && len(ret.Results) > 0 {
				if c, isC := ret.Results[0].(*ssa.Const); isC && c.Value == nil {
					continue
				}
			}
			rets = append(rets, b)
		}
	}
	must := func(anchor *ssa.BasicBlock) bool {
		for _, rb := range rets {
			if !(anchor == rb || anchor.Dominates(rb)) {
				return false
			}
		}
		return true
	}
	var evs []*c13Event
	add := func(e *c13Event) { evs = append(evs, e) }
	ambiguous := func(in ssa.Instruction, f *types.Var, why string) {
		add(&c13Event{at: in, anchor: in.Block(), arr: f, seg: c13Amb(why), what: why})
	}
	loopStores := map[*Loop]map[*types.Var][]*ssa.Store{}
	var loopOrder []*Loop
	Instrs(fn, func(b *ssa.BasicBlock, _ int, in ssa.Instruction) {
		il := InnermostLoop(loops, b)
		switch x := in.(type) {
		case *ssa.MakeSlice:
			f := m.madeFor(x)
			if f == nil {
				return
			}
			if il != nil {
				ambiguous(in, f, "allocated inside a loop at "+p.Pos(in.Pos()))
				return
			}
			e := &c13Event{at: in, anchor: b, must: must(b), arr: f, what: "make at " + p.Pos(in.Pos())}
			if m.sym(fn, x.Len) == "totalNeuronCount" {
				for k := 0; k < c13NSeg-1; k++ {
					e.seg[k] = c13Eff{Kind: 1, Val: "0"}
				}
			} else {
				e.seg = c13Amb("allocated at " + p.Pos(in.Pos()) + " with a length that is not the total neuron count")
			}
			add(e)
		case *ssa.Store:
			if f := m.ownerField(x.Addr); f != nil {
				if _, isSlice := f.Type().Underlying().(*types.Slice); isSlice {
					if mk, isMk := x.Val.(*ssa.MakeSlice); isMk && m.madeFor(mk) == f {
						return // accounted for at the make
					}
					ambiguous(in, f, "the field is assigned "+NewTermer(fn).Of(x.Val).String()+" at "+p.Pos(in.Pos()))
				}
				return
			}
			ia, ok := x.Addr.(*ssa.IndexAddr)
			if !ok {
				return
			}
			f, lo, hi, ok := m.arr(ia.X)
			if !ok {
				return
			}
			if il == nil || lo != nil || hi != nil {
				ambiguous(in, f, "single element (or resliced) store at "+p.Pos(in.Pos()))
				return
			}
			if loopStores[il] == nil {
				loopStores[il] = map[*types.Var][]*ssa.Store{}
				loopOrder = append(loopOrder, il)
			}
			loopStores[il][f] = append(loopStores[il][f], x)
		case ssa.CallInstruction:
			c := x.Common()
			if bi, ok := c.Value.(*ssa.Builtin); ok {
				if bi.Name() != "copy" || len(c.Args) != 2 {
					return
				}
				f, lo, hi, ok := m.arr(c.Args[0])
				if !ok {
					return
				}
				if il != nil {
					ambiguous(in, f, "copy inside a loop at "+p.Pos(in.Pos()))
					return
				}
				e := &c13Event{at: in, anchor: b, must: must(b), arr: f, what: "copy at " + p.Pos(in.Pos())}
				e.seg = c13Amb("copy at " + p.Pos(in.Pos()) + " whose extent or source cannot be named")
				g, slo, shi, sok := m.arr(c.Args[1])
				loSym, sloSym := "0", "0"
				if lo != nil {
					loSym = m.sym(fn, lo)
				}
				if slo != nil {
					sloSym = m.sym(fn, slo)
				}
				if sok && hi == nil && shi == nil && loSym != "" && loSym == sloSym && c13Pos(loSym) >= 0 &&
					m.makeLen[f] == "totalNeuronCount" && m.makeLen[g] == "totalNeuronCount" {
					v := "@" + g.Name() + "[i]"
					if m.state[g] {
						v = "?state:" + fn.Name() + ":" + v
					}
					for k := range e.seg {
						if c13Pos(loSym) <= k && k < c13NSeg-1 {
							e.seg[k] = c13Eff{Kind: 1, Val: v}
						} else {
							e.seg[k] = c13Eff{}
						}
					}
				}
				add(e)
				return
			}
			callee := c.StaticCallee()
			if callee == nil {
				return
			}
			if !InRepo(callee) || callee.Blocks == nil {
				return
			}
			ws := m.writeSet(callee)
			if len(ws) == 0 {
				return
			}
			// a method of the solver called on the object: replay it
			if il == nil && callee.Signature.Recv() != nil && len(c.Args) > 0 && m.isOwner(c.Args[0].Type()) && !m.busy[callee] && callee.Parent() == nil {
				sub := m.events(callee, false)
				cm := must(b)
				e := &c13Event{at: in, anchor: b, must: cm, what: "call of " + callee.Name() + " at " + p.Pos(in.Pos())}
				for _, s := range sub {
					cp := *s
					cp.must = cp.must && cm
					e.sub = append(e.sub, &cp)
				}
				add(e)
				return
			}
			var fs []*types.Var
			for f := range ws {
				fs = append(fs, f)
			}
			sort.Slice(fs, func(i, j int) bool { return fs[i].Name() < fs[j].Name() })
			for _, f := range fs {
				ambiguous(in, f, "written by "+callee.Name()+" called at "+p.Pos(in.Pos()))
			}
		case *ssa.MakeClosure:
			if cf, ok := x.Fn.(*ssa.Function); ok {
				var fs []*types.Var
				for f := range m.writeSet(cf) {
					fs = append(fs, f)
				}
				sort.Slice(fs, func(i, j int) bool { return fs[i].Name() < fs[j].Name() })
				for _, f := range fs {
					ambiguous(in, f, "written by the closure created at "+p.Pos(in.Pos()))
				}
			}
		}
	})
	for _, l := range loopOrder {
		var fs []*types.Var
		for f := range loopStores[l] {
			fs = append(fs, f)
		}
		sort.Slice(fs, func(i, j int) bool { return fs[i].Name() < fs[j].Name() })
		effs := m.loopEffects(fn, l, loops, loopStores[l])
		for _, f := range fs {
			first := loopStores[l][f][0]
			add(&c13Event{at: first, anchor: l.Header, must: must(l.Header), arr: f, seg: effs[f], what: "loop at " + p.Pos(first.Pos())})
		}
	}
	// execution order
	before := func(a, b *c13Event) bool {
		if a.anchor != b.anchor {
			if a.anchor.Dominates(b.anchor) {
				return true
			}
			if b.anchor.Dominates(a.anchor) {
				return false
			}
			return a.at.Pos() < b.at.Pos()
		}
		ba, bb := a.at.Block(), b.at.Block()
		if ba == bb {
			return instrIndex(a.at) < instrIndex(b.at)
		}
		if ba.Dominates(bb) {
			return true
		}
		if bb.Dominates(ba) {
			return false
		}
		return a.at.Pos() < b.at.Pos()
	}
	var ordered []*c13Event
	for _, e := range evs {
		i := len(ordered)
		for i > 0 && before(e, ordered[i-1]) {
			i--
		}
		ordered = append(ordered, nil)
		copy(ordered[i+1:], ordered[i:])
		ordered[i] = e
	}
	var flat []*c13Event
	for _, e := range ordered {
		if e.sub != nil {
			flat = append(flat, e.sub...)
		} else if e.arr != nil {
			flat = append(flat, e)
		}
	}
	m.memo[fn] = flat
	return flat
}

// loopEffects evaluates what one loop does to the arrays it stores into, per layout range.
func (m *c13Model) loopEffects(fn *ssa.Function, l *Loop, loops []*Loop, stores map[*types.Var][]*ssa.Store) map[*types.Var][c13NSeg]c13Eff {
	p := m.p
	out := map[*types.Var][c13NSeg]c13Eff{}
	at := ""
	for _, sts := range stores {
		if at == "" || p.Pos(sts[0].Pos()) < at {
			at = p.Pos(sts[0].Pos())
		}
	}
	all := func(why string) map[*types.Var][c13NSeg]c13Eff {
		for f := range stores {
			out[f] = c13Amb(why)
		}
		return out
	}
	if len(OuterLoops(loops, l.Header)) > 1 {
		return all("the loop at " + at + " is nested in another loop")
	}
	it, ok := c13IterOf(l, func(v ssa.Value) bool {
		for _, sts := range stores {
			for _, st := range sts {
				if st.Addr.(*ssa.IndexAddr).Index == v {
					return true
				}
			}
		}
		return false
	})
	if !ok {
		return all("the loop at " + at + " has no counter that goes up by one in every iteration")
	}
	initPos := 0
	for i, iv := range it.Inits {
		q := c13Pos(m.sym(fn, iv))
		if q < 0 || (i > 0 && q != initPos) {
			return all("the loop at " + at + " starts at " + NewTermer(fn).Of(iv).String() + ", which is not a (single) bound of the neuron layout")
		}
		initPos = q
	}
	paths, complete := EnumIterPaths(fn, l, 400)
	if !complete {
		return all("the loop at " + at + " has too many paths")
	}
	storeArr := map[*ssa.Store]*types.Var{}
	for f, sts := range stores {
		for _, st := range sts {
			storeArr[st] = f
		}
	}
	// allRun: every range between the start of the counter and the one under evaluation is passed completely
	// (no iteration with a counter in it can leave the loop), so the counter does arrive at the range
	allRun := true
	for k := 0; k < c13NSeg; k++ {
		set := func(f *types.Var, e c13Eff) {
			s := out[f]
			s[k] = e
			out[f] = s
		}
		if initPos >= k+1 {
			continue // the counter starts behind this range
		}
		backPossible, otherPossible, otherWrites := false, false, false
		type res struct {
			has bool
			val string
			bad string
		}
		perArr := map[*types.Var][]res{}
		for _, ip := range paths {
			feasible := true
			for _, g := range ip.Conds {
				if v, known := m.evalCmp(fn, g.Cond, it.Idx, k); known && v != g.True {
					feasible = false
					break
				}
			}
			if !feasible {
				continue
			}
			last := map[*types.Var]res{}
			n := len(ip.Blocks)
			if ip.End == "back" {
				n-- // the final header revisit belongs to the next iteration
			}
			for _, b := range ip.Blocks[:n] {
				for _, in := range b.Instrs {
					st, isSt := in.(*ssa.Store)
					if !isSt {
						continue
					}
					f, mine := storeArr[st]
					if !mine {
						continue
					}
					ia := st.Addr.(*ssa.IndexAddr)
					if ia.Index != it.Idx {
						last[f] = res{has: true, bad: "the store at " + p.Pos(st.Pos()) + " writes index " + NewTermer(fn).Of(ia.Index).String() + ", not the loop counter"}
						continue
					}
					if last[f].bad == "" {
						last[f] = res{has: true, val: m.val(fn, ip, st.Val, it.Idx, k, 0)}
					}
				}
			}
			if ip.End == "back" {
				backPossible = true
				for f := range stores {
					perArr[f] = append(perArr[f], last[f])
				}
			} else {
				otherPossible = true
				if len(last) > 0 {
					otherWrites = true
				}
			}
		}
		switch {
		case !backPossible && !otherWrites:
			// no iteration with a counter in this range runs to its end, and none writes before leaving: whether or
			// not the counter arrives here, the range stays untouched
			allRun = false
		case !backPossible || otherPossible:
			allRun = false
			for f := range stores {
				set(f, c13Eff{Kind: 2, Val: "for counters in " + c13SegName(k) + " it is not decided whether the loop at " + at + " goes on or is left"})
			}
		case !allRun:
			// the iterations would run, but the loop may have been left in an earlier range (unless that range is empty)
			for f := range stores {
				set(f, c13Eff{Kind: 2, Val: "the loop at " + at + " may be left before its counter arrives at " + c13SegName(k)})
			}
		default:
			for f := range stores {
				rs := perArr[f]
				n, v, bad, mixed := 0, "", "", false
				for _, r := range rs {
					if r.bad != "" {
						bad = r.bad
					}
					if r.has {
						n++
						if v == "" {
							v = r.val
						} else if v != r.val {
							mixed = true
						}
					}
				}
				switch {
				case bad != "":
					set(f, c13Eff{Kind: 2, Val: bad})
				case n == 0:
				case n == len(rs) && !mixed:
					if c13Opaque(v) {
						set(f, c13Eff{Kind: 2, Val: "the loop at " + at + " stores a value that cannot be named (" + v + ")"})
					} else {
						set(f, c13Eff{Kind: 1, Val: v})
					}
				default:
					set(f, c13Eff{Kind: 2, Val: "for counters in " + c13SegName(k) + " the loop at " + at + " stores on some paths only, or different values"})
				}
			}
		}
	}
	for f := range stores {
		if _, ok := out[f]; !ok {
			out[f] = [c13NSeg]c13Eff{}
		}
	}
	return out
}

// final replays the events: what every array holds, per layout range, when fn returns.
func (m *c13Model) final(fn *ssa.Function, ctor bool) map[*types.Var]*[c13NSeg]c13Eff {
	st := map[*types.Var]*[c13NSeg]c13Eff{}
	for _, e := range m.events(fn, ctor) {
		s := st[e.arr]
		if s == nil {
			s = &[c13NSeg]c13Eff{}
			st[e.arr] = s
		}
		for k := 0; k < c13NSeg; k++ {
			eff := e.seg[k]
			switch eff.Kind {
			case 1:
				if e.must {
					s[k] = eff
				} else if !(s[k].Kind == 1 && s[k].Val == eff.Val) {
					s[k] = c13Eff{Kind: 2, Val: "the " + e.what + " is not on every path"}
				}
			case 2:
				s[k] = eff
			}
		}
	}
	return st
}

// c13SolverCtors: the functions that build a solver (allocate the struct and return it).
func c13SolverCtors(p *Prog, owner *types.Named) []*ssa.Function {
	var out []*ssa.Function
	for _, fn := range p.SrcFuncs() {
		if fn.Pkg == nil || fn.Pkg.Pkg.Path() != PkgN || fn.Parent() != nil {
			continue
		}
		res := fn.Signature.Results()
		returns := false
		for i := 0; i < res.Len(); i++ {
			if n, _ := deref(res.At(i).Type()).(*types.Named); n == owner {
				returns = true
			}
		}
		if !returns {
			continue
		}
		allocs := false
		Instrs(fn, func(_ *ssa.BasicBlock, _ int, in ssa.Instruction) {
			if a, ok := in.(*ssa.Alloc); ok {
				if n, _ := deref(a.Type()).(*types.Named); n == owner {
					allocs = true
				}
			}
		})
		if allocs {
			out = append(out, fn)
		}
	}
	return out
}

// c13ShowVal renders a canonical value for messages.
func c13ShowVal(v string) string {
	switch v {
	case "0":
		return "0/false"
	}
	return strings.ReplaceAll(v, "@", "solver.")
}

// c13FlushCoversNonBias states the fact of the obligation Fast.Flush.bounds for any spelling of the reset: every
// element of the named arrays with an index in [biasNeuronCount, totalNeuronCount) is zero when Flush returns, and
// the elements in [0, biasNeuronCount) are untouched or hold what the constructor leaves there. "" when it holds.
func c13FlushCoversNonBias(p *Prog, arrays []string) string { return c13FlushRestores(p, arrays, true) }

// c13FlushRestores: every element of the named arrays with an index in [biasNeuronCount, totalNeuronCount) holds, when
// Flush returns, the value every constructor leaves there (and that value is zero if zeroOnly), and the elements in
// [0, biasNeuronCount) are untouched or hold the constructor's value as well. "" when it holds, else the reason.
func c13FlushRestores(p *Prog, arrays []string, zeroOnly bool) string {
	owner := p.Named(PkgN, "FastModularNetworkSolver")
	flush := p.Func(PkgN, "FastModularNetworkSolver.Flush")
	ctors := c13SolverCtors(p, owner)
	if len(ctors) == 0 {
		return "no constructor of the solver found"
	}
	m := newC13Model(p, owner)
	for _, fld := range p.Fields(PkgN, "FastModularNetworkSolver") {
		// values read from the arrays under test are not stable
		for _, name := range arrays {
			if fld.Name() == name {
				m.state[fld] = true
			}
		}
	}
	for _, c := range ctors {
		m.learnCtor(c)
	}
	fl := m.final(flush, false)
	for _, name := range arrays {
		var st *[c13NSeg]c13Eff
		var fld *types.Var
		for f, s := range fl {
			if f.Name() == name {
				st, fld = s, f
			}
		}
		if st == nil {
			return "Flush does not write " + name
		}
		for k := 0; k < c13NSeg; k++ {
			switch {
			case st[k].Kind == 0 && (k == 0 || k == c13NSeg-1):
				continue
			case k == c13NSeg-1:
				return "Flush may write " + name + "[i] for i in " + c13SegName(k) + ", behind the last neuron: " + st[k].Val
			case st[k].Kind == 0:
				return name + "[i] is left untouched for i in " + c13SegName(k)
			case st[k].Kind == 2:
				return "what Flush leaves in " + name + "[i] for i in " + c13SegName(k) + " cannot be established: " + st[k].Val
			case zeroOnly && k > 0 && st[k].Val != "0":
				return name + "[i] is set to " + c13ShowVal(st[k].Val) + " for i in " + c13SegName(k)
			}
			for _, c := range ctors {
				cs := m.final(c, true)
				if cs[fld] == nil || cs[fld][k].Kind != 1 || cs[fld][k].Val != st[k].Val {
					return "Flush sets " + name + "[i] to " + c13ShowVal(st[k].Val) + " for i in " + c13SegName(k) + ", which is not what " + c.Name() + " leaves there"
				}
			}
		}
	}
	return ""
}

// c13SliceField: the struct field whose slice value v is (after any reslicing), nil if v is something else.
func c13SliceField(v ssa.Value) *types.Var {
	for i := 0; i < 6; i++ {
		switch x := v.(type) {
		case *ssa.Slice:
			v = x.X
			continue
		case *ssa.ChangeType:
			v = x.X
			continue
		case *ssa.UnOp:
			if x.Op == token.MUL {
				if fa, ok := x.X.(*ssa.FieldAddr); ok {
					return fieldOf(fa.X.Type(), fa.Field)
				}
			}
		case *ssa.Field:
			return fieldOf(x.X.Type(), x.Field)
		}
		break
	}
	return nil
}

// c13LoadedField: v is a load of obj.F (obj accepted by isObj); the name of F, else "".
func c13LoadedField(v ssa.Value, isObj func(ssa.Value) bool) string {
	for i := 0; i < 4; i++ {
		switch x := v.(type) {
		case *ssa.Convert:
			v = x.X
			continue
		case *ssa.ChangeType:
			v = x.X
			continue
		}
		break
	}
	u, ok := v.(*ssa.UnOp)
	if !ok || u.Op != token.MUL {
		return ""
	}
	fa, ok := u.X.(*ssa.FieldAddr)
	if !ok || !isObj(fa.X) {
		return ""
	}
	return fieldOf(fa.X.Type(), fa.Field).Name()
}

// c13ResetValue: while the fields named in zeroed of the object hold their zero value, v is zero: v is a load of such
// a field, or it is field f of an element of a LOCAL literal table (`[...]struct{..}{{.., obj.F}, ..}`, read directly or through the per-iteration copy `for _, e := range tbl`) whose EVERY row holds in f a
// load of such a field. Which row is read does not matter then, so nothing is required of the index or of the loop.
// The table facts come from c18Tables: the array is written only by its literal (constant indices, each field once,
// outside loops, completely before it is read or copied) and is otherwise only read; the element copy is assigned
// once, in the iteration that reads it, and only read field by field.
func c13ResetValue(v ssa.Value, isObj func(ssa.Value) bool, zeroed map[string]bool) bool {
	if f := c13LoadedField(v, isObj); f != "" {
		return zeroed[f]
	}
	for i := 0; i < 4; i++ {
		switch x := v.(type) {
		case *ssa.Convert:
			v = x.X
			continue
		case *ssa.ChangeType:
			v = x.X
			continue
		}
		break
	}
	in, ok := v.(ssa.Instruction)
	if !ok || in.Parent() == nil {
		return false
	}
	// only the shapes elemField understands; the copy form needs the loop the copy is made in
	switch x := v.(type) {
	case *ssa.Field:
	case *ssa.UnOp:
		fa, isFA := x.X.(*ssa.FieldAddr)
		if !isFA || x.Op != token.MUL {
			return false
		}
		if _, viaCopy := fa.X.(*ssa.Alloc); viaCopy && InnermostLoop(Loops(in.Parent()), in.Block()) == nil {
			return false
		}
	default:
		return false
	}
	ts := newC18Tables(in.Parent())
	ref, why := ts.elemField(v, InnermostLoop(ts.loops, in.Block()))
	if why != "" || ref.tbl == nil {
		return false
	}
	// the table is complete before the value is read (direct reads; a copied snapshot is checked by c18Tables.of)
	for _, w := range ref.tbl.writes {
		if !c18Precedes(w, in) {
			return false
		}
	}
	for k := 0; k < ref.tbl.n; k++ {
		row := ref.tbl.elem[k]
		if row == nil {
			return false
		}
		cell, has := row[ref.field]
		if !has {
			return false
		}
		if f := c13LoadedField(cell, isObj); f == "" || !zeroed[f] {
			return false
		}
	}
	return ref.tbl.n > 0
}

// c13DeadAfterReset: the branch outcome g cannot occur while the fields named in zeroed of the object hold their
// zero value: g requires `obj.F op k` (or the boolean obj.F itself) and `0 op k` is false.
func c13DeadAfterReset(g Guard, isObj func(ssa.Value) bool, zeroed map[string]bool) bool {
	c, neg := c13StripNot(g.Cond)
	outcome := g.True
	if neg {
		outcome = !outcome
	}
	if c13ResetValue(c, isObj, zeroed) {
		return outcome // the branch needs the flag to be set
	}
	// the comparison is evaluated for the concrete value 0 (exact for floating point too)
	bin, ok := c.(*ssa.BinOp)
	if !ok {
		return false
	}
	op := bin.Op
	switch op {
	case token.EQL, token.NEQ, token.LSS, token.LEQ, token.GTR, token.GEQ:
	default:
		return false
	}
	zero := constant.MakeInt64(0)
	var k *ssa.Const
	switch {
	case c13ResetValue(bin.X, isObj, zeroed):
		k, _ = bin.Y.(*ssa.Const)
	case c13ResetValue(bin.Y, isObj, zeroed):
		k, _ = bin.X.(*ssa.Const)
		op = map[token.Token]token.Token{token.EQL: token.EQL, token.NEQ: token.NEQ, token.LSS: token.GTR, token.GTR: token.LSS, token.LEQ: token.GEQ, token.GEQ: token.LEQ}[op]
	}
	if k == nil || k.Value == nil {
		return false
	}
	var val bool
	switch k.Value.Kind() {
	case constant.Int, constant.Float:
		val = constant.Compare(zero, op, k.Value)
	case constant.Bool:
		switch op {
		case token.EQL:
			val = !constant.BoolVal(k.Value)
		case token.NEQ:
			val = constant.BoolVal(k.Value)
		default:
			return false
		}
	default:
		return false
	}
	return val != outcome
}

// c13LiveErrorReturns lists the returns of fn (a check of one node, result 0 an error) that hand out a non-nil error
// and are not dead while the receiver's fields named in zeroed hold zero.
func c13LiveErrorReturns(p *Prog, fn *ssa.Function, zeroed map[string]bool) []string {
	var out []string
	if len(fn.Params) == 0 {
		return []string{"no receiver"}
	}
	recv := fn.Params[0]
	isObj := func(v ssa.Value) bool { return v == ssa.Value(recv) }
	dead := func(gs []Guard) bool {
		for _, g := range gs {
			if c13DeadAfterReset(g, isObj, zeroed) {
				return true
			}
		}
		return false
	}
	var visit func(v ssa.Value, at *ssa.BasicBlock, gs []Guard, pos token.Pos, depth int)
	visit = func(v ssa.Value, at *ssa.BasicBlock, gs []Guard, pos token.Pos, depth int) {
		if c, isC := v.(*ssa.Const); isC && c.Value == nil {
			return
		}
		if ph, isPhi := v.(*ssa.Phi); isPhi && depth < 6 {
			for i, e := range ph.Edges {
				visit(e, ph.Block().Preds[i], condsAt(ph.Block().Preds[i], ph.Block()), pos, depth+1)
			}
			return
		}
		if !dead(gs) {
			out = append(out, p.Pos(pos))
		}
	}
	for _, b := range fn.Blocks {
		if len(b.Instrs) == 0 {
			continue
		}
		if ret, ok := b.Instrs[len(b.Instrs)-1].(*ssa.Return); ok && len(ret.Results) > 0 {
			visit(ret.Results[len(ret.Results)-1], b, Guards(b), ret.Pos(), 0)
		}
	}
	return out
}
