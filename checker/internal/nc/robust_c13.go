package nc

import (
	"go/token"

	"golang.org/x/tools/go/ssa"
)

// c13Counted describes a loop that is proven to run its counter through
// init, init+1, ... while counter < bound, in whatever syntactic form it was written
// (three-clause for, `for { if i >= n { break } ... i++ }`, negated or mirrored tests).
type c13Counted struct {
	Loop  *Loop
	Phi   *ssa.Phi           // the counter, a phi of the loop header
	Inits []ssa.Value        // the values entering from outside the loop (one per entry edge)
	Bound ssa.Value          // the loop is left as soon as !(Phi < Bound)
	Test  *ssa.BasicBlock    // the block that ends in the exit test
	Stay  *ssa.BasicBlock    // its successor inside the loop
	steps map[ssa.Value]bool // the phi+1 values on the back edges
}

// c13StripNot removes boolean negations; neg tells whether an odd number was removed.
func c13StripNot(v ssa.Value) (ssa.Value, bool) {
	neg := false
	for {
		u, ok := v.(*ssa.UnOp)
		if !ok || u.Op != token.NOT {
			return v, neg
		}
		v, neg = u.X, !neg
	}
}

// c13LessThan decomposes cond (known to have the given outcome) into "x < y" if it has that meaning.
func c13LessThan(cond ssa.Value, outcome bool) (x, y ssa.Value, ok bool) {
	c, neg := c13StripNot(cond)
	if neg {
		outcome = !outcome
	}
	bin, isBin := c.(*ssa.BinOp)
	if !isBin {
		return nil, nil, false
	}
	switch {
	case bin.Op == token.LSS && outcome: // x < y
		return bin.X, bin.Y, true
	case bin.Op == token.GTR && outcome: // y > x
		return bin.Y, bin.X, true
	case bin.Op == token.GEQ && !outcome: // !(x >= y)
		return bin.X, bin.Y, true
	case bin.Op == token.LEQ && !outcome: // !(y <= x)
		return bin.Y, bin.X, true
	}
	return nil, nil, false
}

// c13IsPlusOne: v is ph+1 (or 1+ph).
func c13IsPlusOne(v ssa.Value, ph *ssa.Phi) bool {
	add, ok := v.(*ssa.BinOp)
	if !ok || add.Op != token.ADD {
		return false
	}
	if add.X == ph {
		k, isK := constInt(add.Y)
		return isK && k == 1
	}
	if add.Y == ph {
		k, isK := constInt(add.X)
		return isK && k == 1
	}
	return false
}

// c13CountedLoopOf recognises l as a counted loop. What is established when ok:
//   - the counter is a header phi whose every in-loop edge carries counter+1 and whose entry edges carry Inits;
//   - exactly one block of the loop has an edge leaving it, that block ends in a test which keeps the
//     iteration inside the loop precisely when counter < Bound, and the test is passed in every iteration
//     before the back edge (it dominates every latch);
//
// hence the blocks dominated by the edge Test->Stay run exactly for counter = init, init+1, ..., Bound-1
// (as far as Bound is loop-invariant, which callers establish through its origin term).
func c13CountedLoopOf(l *Loop) (*c13Counted, bool) {
	if l == nil {
		return nil, false
	}
	// the single exiting block
	var test *ssa.BasicBlock
	for b := range l.Blocks {
		for _, s := range b.Succs {
			if !l.Blocks[s] {
				if test != nil && test != b {
					return nil, false // a second way out (break/return in the body): coverage not exact
				}
				test = b
			}
		}
	}
	if test == nil || len(test.Instrs) == 0 {
		return nil, false
	}
	iff, isIf := test.Instrs[len(test.Instrs)-1].(*ssa.If)
	if !isIf || len(test.Succs) != 2 {
		return nil, false
	}
	var stay *ssa.BasicBlock
	var stayOutcome bool
	switch {
	case l.Blocks[test.Succs[0]] && !l.Blocks[test.Succs[1]]:
		stay, stayOutcome = test.Succs[0], true
	case !l.Blocks[test.Succs[0]] && l.Blocks[test.Succs[1]]:
		stay, stayOutcome = test.Succs[1], false
	default:
		return nil, false
	}
	x, y, ok := c13LessThan(iff.Cond, stayOutcome)
	if !ok {
		return nil, false
	}
	ph, isPhi := x.(*ssa.Phi)
	if !isPhi || ph.Block() != l.Header {
		return nil, false
	}
	// the test is evaluated in every iteration before the counter advances
	for _, lt := range l.Latch {
		if !(test == lt || test.Dominates(lt)) {
			return nil, false
		}
	}
	cl := &c13Counted{Loop: l, Phi: ph, Bound: y, Test: test, Stay: stay, steps: map[ssa.Value]bool{}}
	for i, e := range ph.Edges {
		pred := l.Header.Preds[i]
		if l.Blocks[pred] {
			if !c13IsPlusOne(e, ph) {
				return nil, false
			}
			cl.steps[e] = true
		} else {
			cl.Inits = append(cl.Inits, e)
		}
	}
	if len(cl.steps) == 0 || len(cl.Inits) == 0 {
		return nil, false
	}
	// the bound must not be computed from the counter
	if y == ssa.Value(ph) || cl.steps[y] {
		return nil, false
	}
	return cl, true
}

// RunsEveryIteration: instruction in (inside the loop) is executed once in every iteration that passes the test,
// with the counter of that iteration: it lies behind the edge Test->Stay and no path from that edge reaches a
// back edge without it.
func (cl *c13Counted) RunsEveryIteration(in ssa.Instruction) bool {
	b := in.Block()
	if !cl.Loop.Blocks[b] || !edgeDominates(cl.Test, cl.Stay, b) {
		return false
	}
	// an inner loop would repeat it (or skip the counter): require the innermost loop of b to be this one
	if il := InnermostLoop(Loops(b.Parent()), b); il == nil || il.Header != cl.Loop.Header {
		return false
	}
	for _, lt := range cl.Loop.Latch {
		if !(b == lt || b.Dominates(lt)) {
			return false
		}
	}
	return true
}
