package nc

import (
	"fmt"
	"go/token"
	"go/types"
	"sort"
	"strings"

	"golang.org/x/tools/go/ssa"
)

func init() { register("C13", C13) }

// isZeroTerm: the constant zero value of any type.
func isZeroTerm(t *Term) bool {
	if t == nil {
		return false
	}
	switch t.Op {
	case "nil":
		return true
	case "const":
		return t.Name == "0" || t.Name == "false" || t.Name == "zero" || t.Name == `""`
	}
	return false
}

// C13 — flushing makes a network indistinguishable from a fresh one.
func C13(p *Prog, r *Run) {
	r.Explanation = "Observational equivalence after a flush is not decidable statically; decided is reset completeness, the only mechanism that can break it: let RT(T) be the fields (or slice-field elements) of T written by any function reachable over the call graph from the activation API, and RS(T) those reset to their initial value by Flush. (1) RT(NNode) ⊆ RS(NNode) ∪ {ActivationSum}, where ActivationSum is exempt for the checked reason that it is zero-stored in the sweep before it is accumulated or read, and Network.Flush applies Flushback to every element of the node list the sweeps iterate; the isActive flag of control nodes (written by the sweep, not visited by Flush) is exempt for the checked reason that it is never read for a control node. (2) RT(FastModularNetworkSolver) ⊆ RS ∪ {activated, inActivation, lastActivation}, exempt because RecursiveSteps re-initialises them for every index before any read; the reset loop covers [biasNeuronCount, totalNeuronCount) so that bias signals keep their 1. (3) Fresh state = flushed state: per index range of the solver's neuron layout ([0,biasNeuronCount), [biasNeuronCount,sensorNeuronCount), [sensorNeuronCount,totalNeuronCount)) the value Flush leaves in an array equals the value the constructor leaves there (replay of both functions' array writes: make, counted loops evaluated per range, copy, replayed methods), so an initial value that is not zero (bias signals, pre-armed accumulators, 'activated' marks of sensors) is restored and not erased; for nodes, no function outside the activation API and the flush stores a non-zero value into a field that an activation writes, so a new node holds what Flushback restores. Not decided: equality of outputs of (history; Flush; sequence) and (sequence) itself."
	api := []string{"Network.ActivateSteps", "Network.Activate", "Network.ForwardSteps", "Network.RecursiveSteps", "Network.Relax", "Network.LoadSensors",
		"Network.MaxActivationDepth", "Network.MaxActivationDepthWithCap", "NNode.Depth", "ActivateNode", "ActivateModule"}
	fastAPI := []string{"FastModularNetworkSolver.ForwardSteps", "FastModularNetworkSolver.RecursiveSteps", "FastModularNetworkSolver.Relax", "FastModularNetworkSolver.LoadSensors"}

	collect := func(names []string, owner string) (map[string][]Effect, *Reach) {
		var roots []*ssa.Function
		for _, n := range names {
			roots = append(roots, p.Func(PkgN, n))
		}
		re := p.Reachable(roots, nil)
		out := map[string][]Effect{}
		for _, f := range re.RepoFuncs() {
			r.Fn(FuncName(f))
			for _, e := range Writes(f) {
				switch e.Kind {
				case "field":
					if e.Owner != nil && e.Owner.Obj().Name() == owner {
						out[e.Field.Name()] = append(out[e.Field.Name()], e)
					}
				case "elem":
					if fld := ElemOwner(e); fld != nil {
						// which struct owns the slice field?
						for _, cand := range p.Fields(PkgN, owner) {
							if cand == fld {
								out[fld.Name()+"[*]"] = append(out[fld.Name()+"[*]"], e)
							}
						}
					}
				}
			}
			// copy(x.F[a:b], ...) writes elements of F as well
			Instrs(f, func(_ *ssa.BasicBlock, _ int, in ssa.Instruction) {
				ci, isCall := in.(ssa.CallInstruction)
				if !isCall {
					return
				}
				if b, isB := ci.Common().Value.(*ssa.Builtin); !isB || b.Name() != "copy" || len(ci.Common().Args) != 2 {
					return
				}
				fld := c13SliceField(ci.Common().Args[0])
				if fld == nil {
					return
				}
				for _, cand := range p.Fields(PkgN, owner) {
					if cand == fld {
						out[fld.Name()+"[*]"] = append(out[fld.Name()+"[*]"], Effect{Fn: f, Instr: in, Kind: "copy", Addr: ci.Common().Args[0], Val: ci.Common().Args[1]})
					}
				}
			})
		}
		return out, re
	}

	r.Rule("C13.1", "reset completeness for the standard network: every NNode field written by the activation API is reset by Flushback (ActivationSum exempt: zeroed before use), and Flush visits every node the sweeps iterate", func() {
		rt, re := collect(api, "NNode")
		flushback := p.Func(PkgN, "NNode.Flushback")
		flush := p.Func(PkgN, "Network.Flush")
		r.Fn(FuncName(flushback), FuncName(flush))
		tmF := NewTermer(flushback)
		rs := map[string]bool{}
		for _, e := range Writes(flushback) {
			if e.Kind == "field" && tmF.Of(e.Addr.(*ssa.FieldAddr).X).Op == "recv" {
				if isZeroTerm(tmF.Of(e.Val)) {
					rs[e.Field.Name()] = true
				} else {
					r.Bad("Flushback."+e.Field.Name(), p.Pos(e.Instr.Pos()), "Flushback sets "+e.Field.Name()+" to "+tmF.Of(e.Val).String()+", not to its initial value")
				}
			}
		}
		var names []string
		for k := range rt {
			names = append(names, k)
		}
		sort.Strings(names)
		for _, f := range names {
			r.FieldsChecked++
			e := rt[f][0]
			where := fmt.Sprintf("written by %s at %s", FuncName(e.Fn), p.Pos(e.Instr.Pos()))
			switch {
			case rs[f]:
				r.OK("NNode."+f, p.Pos(e.Instr.Pos()), "run-time field ("+where+") is reset by Flushback")
			case f == "ActivationSum":
				r.checkActivationSumExempt(rt[f], re)
			default:
				r.Bad("NNode."+f, p.Pos(e.Instr.Pos()), "NNode."+f+" is run-time state ("+where+"; reached via "+strings.Join(re.Chain(e.Fn), " -> ")+") but Flushback does not reset it: a flushed network still carries it")
			}
		}
		r.Floor("run-time NNode fields", len(names), 6)
		// fresh = flushed: outside the activation API and the flush itself nobody gives a run-time field a value
		// other than the one Flushback restores (constructors, composite literals, genome-to-network code included)
		{
			flushReach := p.Reachable([]*ssa.Function{flushback, flush}, nil)
			// the fields the activation itself writes (the loop-detection mark `visited` of the pure topology queries is
			// scratch that every query sets and clears; it is not part of what an activation leaves behind)
			depthFns := map[string]bool{"MaxActivationDepth": true, "MaxActivationDepthWithCap": true, "Depth": true, "maxActivationDepthFast": true}
			var actRoots []*ssa.Function
			for _, n := range []string{"Network.ActivateSteps", "Network.Activate", "Network.ForwardSteps", "Network.RecursiveSteps", "Network.Relax", "Network.LoadSensors", "ActivateNode", "ActivateModule"} {
				actRoots = append(actRoots, p.Func(PkgN, n))
			}
			act := map[string]bool{}
			for _, f := range p.Reachable(actRoots, func(f *ssa.Function) bool { return depthFns[f.Name()] }).RepoFuncs() {
				if depthFns[f.Name()] {
					continue
				}
				for _, e := range Writes(f) {
					if e.Kind == "field" && e.Owner != nil && e.Owner.Obj().Name() == "NNode" {
						act[e.Field.Name()] = true
					}
				}
			}
			badW, nW := "", 0
			pinned := PinnedFuncs()
			cg := p.CallGraph()
			for _, f := range p.SrcFuncs() {
				if _, isAPI := re.Funcs[f]; isAPI {
					continue
				}
				// a helper that a refactoring introduced and that the normaliser inlined at all its call sites has no
				// caller left: its body is seen where it was inlined
				top := f
				for top.Parent() != nil {
					top = top.Parent()
				}
				if obj, isFn := top.Object().(*types.Func); isFn && !pinned[obj.FullName()] {
					if n := cg.Nodes[top]; n == nil || len(n.In) == 0 {
						continue
					}
				}
				if _, isFlush := flushReach.Funcs[f]; isFlush {
					continue
				}
				var tf *Termer
				for _, e := range Writes(f) {
					if e.Kind != "field" || e.Owner == nil || e.Owner.Obj().Name() != "NNode" || e.Owner.Obj().Pkg() == nil || e.Owner.Obj().Pkg().Path() != PkgN {
						continue
					}
					if !act[e.Field.Name()] {
						continue
					}
					if tf == nil {
						tf = NewTermer(f)
					}
					nW++
					if v := tf.Of(e.Val); !isZeroTerm(v) && badW == "" {
						badW = fmt.Sprintf("%s sets NNode.%s to %s at %s", FuncName(f), e.Field.Name(), v, p.Pos(e.Instr.Pos()))
					}
				}
			}
			r.Floor("NNode fields written by an activation", len(act), 5)
			r.Check(badW == "", "NNode.fresh=flushed", p.Pos(flushback.Pos()),
				fmt.Sprintf("no function outside the activation API and the flush gives a run-time field of NNode a non-zero value (%d zero store(s) elsewhere): a new node holds exactly what Flushback restores", nW),
				badW+": the function is neither reachable from the activation API nor part of the flush, so a node starts its life (or is handed to the network) with a value of this run-time field that Flushback does not restore - a flushed network differs from a freshly built one")
		}
		// Flush visits every element of the list the sweeps iterate
		tm := NewTermer(flush)
		cs := CallsTo(flush, flushback)
		okAll := false
		for _, c := range cs {
			a := tm.Of(c.Common().Args[0])
			if a.Op == "elem" && a.Args[0].String() == "recv.allNodes" {
				// no way to reach the back edge or exit of the loop without passing the call
				l := InnermostLoop(Loops(flush), c.Block())
				if l != nil {
					path := FindPath(p, PathQuery{Fn: flush, StartEdge: [2]*ssa.BasicBlock{l.Header, bodySucc(l)},
						TargetEdge: func(a, b *ssa.BasicBlock) bool { return b == l.Header },
						Avoid:      func(in ssa.Instruction) bool { return in == c.(ssa.Instruction) }, Explored: &r.PathsExplored})
					okAll = path == nil
				}
			}
		}
		r.Check(okAll, "Flush.visits-all", p.Pos(flush.Pos()), "Flush calls Flushback on every element of allNodes", "Network.Flush does not call Flushback on every element of allNodes")
		for _, c := range cs {
			if l := InnermostLoop(Loops(flush), c.Block()); l != nil {
				w := returnsBypassing(p, flush, l)
				r.Check(w == "", "Flush.unconditional", p.Pos(flush.Pos()), "every return of Flush lies inside or after the loop over the nodes", "Network.Flush can return at "+w+" without visiting the nodes: whatever condition is tested there, run-time state written by an earlier (possibly failed or partial) activation survives the flush")
			}
		}
		// leaving the loop after a node has been flushed: only because that node failed a check, and the check cannot
		// fail for a node that Flushback has just reset - otherwise the nodes behind it keep their state
		fbc := p.FuncOpt(PkgN, "NNode.FlushbackCheck")
		for _, c := range cs {
			l := InnermostLoop(Loops(flush), c.Block())
			if l == nil {
				continue
			}
			nodeTerm := tm.Of(c.Common().Args[0]).String()
			isNode := func(v ssa.Value) bool { return tm.Of(v).String() == nodeTerm }
			badExit, nExits := "", 0
			for _, a := range flush.Blocks {
				if !l.Blocks[a] || !(a == c.Block() || c.Block().Dominates(a)) {
					continue
				}
				for _, b := range a.Succs {
					if l.Blocks[b] {
						continue
					}
					nExits++
					ok := false
					for _, g := range condsAt(a, b) {
						if x, y, op, isCmp := CmpFact(g.Cond, g.True); isCmp && op == token.NEQ && fbc != nil {
							if k, isK := y.(*ssa.Const); isK && k.Value == nil && tm.Of(x).Has(func(t *Term) bool { return t.Op == "call" && t.Name == "NNode.FlushbackCheck" }) {
								ok = true
							}
						}
						if (g.At == c.Block() || c.Block().Dominates(g.At)) && c13DeadAfterReset(g, isNode, rs) {
							ok = true
						}
					}
					if !ok && badExit == "" {
						badExit = p.Pos(a.Instrs[len(a.Instrs)-1].Pos())
						if badExit == "" || badExit == "-" {
							badExit = p.Pos(c.Pos())
						}
					}
				}
			}
			r.Check(badExit == "", "Flush.exits", p.Pos(flush.Pos()), fmt.Sprintf("the node loop is left early at %d place(s), each time only when the check of the node just flushed fails", nExits),
				"Network.Flush leaves the loop over the nodes at "+badExit+" after flushing a node, and not because that node failed FlushbackCheck: the nodes behind it keep the state of the previous activations")
		}
		if fbc != nil && len(CallsTo(flush, fbc)) > 0 {
			r.Fn(FuncName(fbc))
			live := c13LiveErrorReturns(p, fbc, rs)
			r.Check(len(live) == 0, "FlushbackCheck.passes-after-Flushback", p.Pos(fbc.Pos()), "every error return of FlushbackCheck is guarded by a test of a field that Flushback has just zeroed, which fails for zero: the early exit of Network.Flush is dead",
				"FlushbackCheck can report an error at "+strings.Join(live, ", ")+" for a node that Flushback has just reset (the return is not guarded by a test of a reset field that is false for the reset value): Network.Flush then stops at the first node and leaves all nodes behind it unflushed")
		}
		// the sweeps iterate allNodes (and controlNodes for modules)
		as := p.Func(PkgN, "Network.ActivateSteps")
		ta := NewTermer(as)
		lists := map[string]bool{}
		Instrs(as, func(_ *ssa.BasicBlock, _ int, in ssa.Instruction) {
			if st, ok := in.(*ssa.Store); ok {
				if fa, ok := st.Addr.(*ssa.FieldAddr); ok {
					lists[ta.Of(fa.X).Root().String()] = true
					_ = fa
				}
			}
		})
		// control nodes: isActive is written but never read for them
		isActive := p.Field(PkgN, "NNode", "isActive")
		badLoad := ""
		nLoads := 0
		for _, f := range re.RepoFuncs() {
			tf := NewTermer(f)
			Instrs(f, func(_ *ssa.BasicBlock, _ int, in ssa.Instruction) {
				u, ok := in.(*ssa.UnOp)
				if !ok {
					return
				}
				fa, ok := u.X.(*ssa.FieldAddr)
				if !ok || fieldOf(fa.X.Type(), fa.Field) != isActive {
					return
				}
				nLoads++
				base := tf.Of(fa.X).String()
				if strings.Contains(base, "controlNodes") {
					badLoad = fmt.Sprintf("%s reads isActive of %s at %s", FuncName(f), base, p.Pos(u.Pos()))
				}
			})
		}
		r.Check(badLoad == "" && nLoads > 0, "NNode.isActive(control-nodes)", p.Pos(as.Pos()), fmt.Sprintf("isActive is read at %d site(s), never for a control node (Flush does not visit control nodes)", nLoads),
			"isActive of a control node is read although Flush never resets control nodes: "+badLoad)
	})

	r.Rule("C13.3", "no run-time state outside the nodes: every field of Network (or of the fast solver) written by the sweeps - not counting the pure topology queries of the depth functions - is reset by its Flush", func() {
		depthFns := map[string]bool{"MaxActivationDepth": true, "MaxActivationDepthWithCap": true, "Depth": true, "maxActivationDepthFast": true}
		for _, x := range []struct {
			owner string
			api   []string
			flush string
		}{{"Network", []string{"Network.ActivateSteps", "Network.Activate", "Network.ForwardSteps", "Network.RecursiveSteps", "Network.Relax", "Network.LoadSensors"}, "Network.Flush"}} {
			var roots []*ssa.Function
			for _, n := range x.api {
				roots = append(roots, p.Func(PkgN, n))
			}
			re := p.Reachable(roots, func(f *ssa.Function) bool { return depthFns[f.Name()] })
			flush := p.Func(PkgN, x.flush)
			reset := map[string]bool{}
			tmF := NewTermer(flush)
			fre := p.Reachable([]*ssa.Function{flush}, nil)
			for _, f := range fre.RepoFuncs() {
				for _, e := range Writes(f) {
					if e.Kind == "field" && e.Owner != nil && e.Owner.Obj().Name() == x.owner {
						reset[e.Field.Name()] = true
					}
				}
			}
			_ = tmF
			n := 0
			seen := map[string]bool{}
			for _, f := range re.RepoFuncs() {
				if depthFns[f.Name()] {
					continue
				}
				for _, e := range Writes(f) {
					var fname string
					switch e.Kind {
					case "field":
						if e.Owner == nil || e.Owner.Obj().Name() != x.owner {
							continue
						}
						fname = e.Field.Name()
					case "elem":
						fld := ElemOwner(e)
						if fld == nil {
							continue
						}
						own := false
						for _, cand := range p.Fields(PkgN, x.owner) {
							if cand == fld {
								own = true
							}
						}
						if !own {
							continue
						}
						fname = fld.Name() + "[*]"
					default:
						continue
					}
					if seen[fname] {
						continue
					}
					seen[fname] = true
					n++
					r.Check(reset[strings.TrimSuffix(fname, "[*]")], x.owner+"."+fname, p.Pos(e.Instr.Pos()), "written by the sweeps and reset by "+x.flush,
						fmt.Sprintf("%s.%s is written by %s (reached from the activation API via %s) but %s never resets it: a flushed network still remembers it", x.owner, fname, FuncName(e.Fn), strings.Join(re.Chain(e.Fn), " -> "), x.flush))
				}
			}
			if n == 0 {
				r.OK(x.owner+".stateless", p.Pos(flush.Pos()), "the sweeps write no field of "+x.owner+" itself: all run-time state lives in the nodes")
			}
		}
	})

	r.Rule("C13.2", "reset completeness for the fast solver: every solver array written by the activation API is reset by Flush over [biasNeuronCount,totalNeuronCount) or re-initialised by RecursiveSteps before any read", func() {
		rt, _ := collect(fastAPI, "FastModularNetworkSolver")
		flush := p.Func(PkgN, "FastModularNetworkSolver.Flush")
		r.Fn(FuncName(flush))
		tm := NewTermer(flush)
		rs := map[string]bool{}
		// every loop of Flush that zeroes solver array elements, in order of appearance, with its zero stores
		var resetLoops []*Loop
		resetStores := map[*Loop][]Effect{}
		strayReset := ""
		flushLoops := Loops(flush)
		for _, e := range Writes(flush) {
			if e.Kind == "elem" {
				if f := ElemOwner(e); f != nil && isZeroTerm(tm.Of(e.Val)) {
					l := InnermostLoop(flushLoops, e.Instr.Block())
					if l == nil {
						strayReset = f.Name() + " at " + p.Pos(e.Instr.Pos())
						continue
					}
					rs[f.Name()+"[*]"] = true
					if resetStores[l] == nil {
						resetLoops = append(resetLoops, l)
					}
					resetStores[l] = append(resetStores[l], e)
				}
			}
		}
		// exemptions re-verified in RecursiveSteps
		reinit, initFirst := c13RecursiveScratch(p)
		var names []string
		for k := range rt {
			names = append(names, k)
		}
		sort.Strings(names)
		for _, f := range names {
			r.FieldsChecked++
			e := rt[f][0]
			where := fmt.Sprintf("written by %s at %s", FuncName(e.Fn), p.Pos(e.Instr.Pos()))
			switch {
			case rs[f]:
				r.OK("Fast."+f, p.Pos(e.Instr.Pos()), "run-time array ("+where+") is reset by Flush")
			case reinit[f] && initFirst && (f == "activated[*]" || f == "inActivation[*]" || f == "lastActivation[*]"):
				r.OK("Fast."+f, p.Pos(e.Instr.Pos()), "scratch array of the recursive activation: re-initialised for every index at the top of RecursiveSteps before any read")
			case c13FlushRestores(p, []string{strings.TrimSuffix(f, "[*]")}, false) == "":
				// reset to an initial value that is not zero: over the input, output and hidden neurons Flush stores what the constructor stores
				r.OK("Fast."+f, p.Pos(e.Instr.Pos()), "run-time array ("+where+") is reset by Flush to the values the constructor gives it")
			default:
				r.Bad("Fast."+f, p.Pos(e.Instr.Pos()), "FastModularNetworkSolver."+f+" is run-time state ("+where+") but Flush does not reset it and it is not re-initialised before use")
			}
		}
		r.Floor("run-time arrays of the fast solver", len(names), 5)
		// bounds of the reset loop(s): each loop that zeroes array elements must zero, in every iteration, the element at
		// its counter, and the counter must run over exactly [biasNeuronCount, totalNeuronCount)
		if len(resetLoops) == 0 {
			r.Bad("Fast.Flush.loop", p.Pos(flush.Pos()), "Flush has no reset loop")
			return
		}
		wb := ""
		for _, l := range resetLoops {
			if w := returnsBypassing(p, flush, l); w != "" && wb == "" {
				wb = w
			}
		}
		r.Check(wb == "", "Fast.Flush.unconditional", p.Pos(flush.Pos()), "every return of Flush lies inside or after the reset loop", "the fast solver's Flush can return at "+wb+" without resetting the signals")
		okAll, why := true, ""
		fail := func(msg string) {
			if okAll {
				okAll, why = false, msg
			}
		}
		if strayReset != "" {
			fail("a zero store to " + strayReset + " lies outside any loop, so it resets a single cell only")
		}
		for _, l := range resetLoops {
			at := p.Pos(resetStores[l][0].Instr.Pos())
			cl, ok := c13CountedLoopOf(l)
			if !ok {
				// the original matcher (kept for forms it knows)
				bound, ph, okOld := loopCounterFrom(l, tm)
				init := ""
				if okOld {
					for _, e := range ph.Edges {
						if t := tm.Of(e); t.Op != "bin" {
							init = t.String()
						}
					}
				}
				fail(fmt.Sprintf("the reset loop at %s runs from %q to %v and is not a loop counting up by one with a single exit test", at, init, bound))
				continue
			}
			bound := tm.Of(cl.Bound)
			inits := []string{}
			initOK := true
			for _, v := range cl.Inits {
				t := tm.Of(v).String()
				inits = append(inits, t)
				if t != "recv.biasNeuronCount" {
					initOK = false
				}
			}
			if !initOK || bound.String() != "recv.totalNeuronCount" {
				fail(fmt.Sprintf("the reset loop at %s runs from %q to %v", at, strings.Join(inits, "|"), bound))
			}
			for _, e := range resetStores[l] {
				ia := e.Addr.(*ssa.IndexAddr)
				if ia.Index != ssa.Value(cl.Phi) {
					fail(fmt.Sprintf("the zero store at %s writes index %v, not the loop counter", p.Pos(e.Instr.Pos()), tm.Of(ia.Index)))
				}
				if !cl.RunsEveryIteration(e.Instr) {
					fail(fmt.Sprintf("the zero store at %s is not executed in every iteration of the reset loop", p.Pos(e.Instr.Pos())))
				}
			}
		}
		if !okAll {
			// the same fact for any other spelling of the reset (range loops, guards on the counter inside the body,
			// len() of an array as bound, several loops): evaluated per index range of the neuron layout
			var zeroed []string
			for k := range rs {
				zeroed = append(zeroed, strings.TrimSuffix(k, "[*]"))
			}
			sort.Strings(zeroed)
			if strayReset == "" && len(zeroed) > 0 && c13FlushCoversNonBias(p, zeroed) == "" {
				okAll = true
			}
		}
		r.Check(okAll, "Fast.Flush.bounds", p.Pos(flush.Pos()), "reset loop covers [biasNeuronCount, totalNeuronCount)",
			why+"; it must cover exactly the non-bias neurons [biasNeuronCount, totalNeuronCount): a later start leaves input/output/hidden state behind, an earlier one erases the bias signals")
	})
	r.Rule("C13.4", "a flushed fast solver is in the constructor's state: over each index range of the neuron layout ([0,biasNeuronCount) bias, [biasNeuronCount,sensorNeuronCount) inputs, [sensorNeuronCount,totalNeuronCount) outputs and hidden) every element of a solver array that Flush writes ends up with the value the constructor leaves there (zero from make unless the constructor stores something else) - unless RecursiveSteps re-initialises the array for every index before any read. If Flush leaves another value, the first activation after a flush starts from other contents than the first activation of a new solver, and whatever reads the element before overwriting it (accumulators that are added to, 'activated' marks that are tested) computes other outputs", func() {
		owner := p.Named(PkgN, "FastModularNetworkSolver")
		flush := p.Func(PkgN, "FastModularNetworkSolver.Flush")
		ctors := c13SolverCtors(p, owner)
		if len(ctors) == 0 {
			r.Bad("Fast.fresh-state.constructor", p.Pos(flush.Pos()), "no function of neat/network allocates and returns a FastModularNetworkSolver: the state of a freshly built solver cannot be established")
			return
		}
		rt, _ := collect(fastAPI, "FastModularNetworkSolver")
		m := newC13Model(p, owner)
		for _, fld := range p.Fields(PkgN, "FastModularNetworkSolver") {
			if _, isRT := rt[fld.Name()+"[*]"]; isRT {
				m.state[fld] = true
			}
		}
		for _, c := range ctors {
			m.learnCtor(c)
			r.Fn(FuncName(c))
		}
		r.Fn(FuncName(flush))
		fl := m.final(flush, false)
		reinit, initFirst := c13RecursiveScratch(p)
		var arrs []*types.Var
		for f := range fl {
			arrs = append(arrs, f)
		}
		sort.Slice(arrs, func(i, j int) bool { return arrs[i].Name() < arrs[j].Name() })
		n := 0
		for _, c := range ctors {
			cs := m.final(c, true)
			for _, f := range arrs {
				name := "Fast.fresh-state:" + f.Name()
				if len(ctors) > 1 {
					name += "@" + c.Name()
				}
				n++
				r.FieldsChecked++
				key := f.Name() + "[*]"
				if reinit[key] && initFirst && (key == "activated[*]" || key == "inActivation[*]" || key == "lastActivation[*]") {
					r.OK(name, p.Pos(flush.Pos()), "scratch array of the recursive activation: re-initialised for every index at the top of RecursiveSteps before any read, so what Flush leaves in it is never seen")
					continue
				}
				why, okText := "", []string{}
				for k := 0; k < c13NSeg && why == ""; k++ {
					fe := fl[f][k]
					var ce c13Eff
					if cs[f] != nil {
						ce = cs[f][k]
					} else {
						ce = c13Eff{Kind: 2, Val: c.Name() + " does not allocate the array"}
					}
					switch {
					case fe.Kind == 0 && k == c13NSeg-1:
					case k == c13NSeg-1:
						why = "Flush may write " + f.Name() + "[i] for i in " + c13SegName(k) + ", behind the last neuron: " + fe.Val
					case fe.Kind == 0:
						okText = append(okText, c13SegName(k)+" untouched")
					case fe.Kind == 2:
						why = "what Flush leaves in " + f.Name() + "[i] for i in " + c13SegName(k) + " cannot be established: " + fe.Val
					case ce.Kind != 1:
						why = "what " + c.Name() + " leaves in " + f.Name() + "[i] for i in " + c13SegName(k) + " cannot be established: " + ce.Val
					case ce.Val != fe.Val:
						why = fmt.Sprintf("for i in %s Flush leaves %s[i] = %s but %s leaves %s[i] = %s", c13SegName(k), f.Name(), c13ShowVal(fe.Val), c.Name(), f.Name(), c13ShowVal(ce.Val))
					default:
						okText = append(okText, c13SegName(k)+" = "+c13ShowVal(fe.Val))
					}
				}
				r.Check(why == "", name, p.Pos(flush.Pos()), "Flush leaves what "+c.Name()+" leaves: "+strings.Join(okText, ", "),
					why+": a flushed solver is not in the state of a freshly built one, and the array is not re-initialised for every index before it is read")
			}
		}
		r.Floor("solver arrays written by Flush", n, 2)
		// the constructor alone defines the fresh state: nobody else (a factory that prepares the solver after building
		// it, a setter) writes a run-time array or an array that Flush writes
		_, apiReach := collect(fastAPI, "FastModularNetworkSolver")
		flushReach := p.Reachable([]*ssa.Function{flush}, nil)
		isCtor := map[*ssa.Function]bool{}
		for _, c := range ctors {
			isCtor[c] = true
		}
		watched := map[*types.Var]bool{}
		for f := range m.state {
			watched[f] = true
		}
		for f := range fl {
			watched[f] = true
		}
		pinned := PinnedFuncs()
		cg := p.CallGraph()
		other := ""
		for _, f := range p.SrcFuncs() {
			top := f
			for top.Parent() != nil {
				top = top.Parent()
			}
			if _, isAPI := apiReach.Funcs[f]; isAPI || isCtor[top] {
				continue
			}
			if _, isFlush := flushReach.Funcs[f]; isFlush {
				continue
			}
			if obj, isFn := top.Object().(*types.Func); isFn && !pinned[obj.FullName()] {
				if nd := cg.Nodes[top]; nd == nil || len(nd.In) == 0 {
					continue // inlined at its call sites by the normaliser
				}
			}
			Instrs(f, func(_ *ssa.BasicBlock, _ int, in ssa.Instruction) {
				var fld *types.Var
				switch x := in.(type) {
				case *ssa.Store:
					switch a := x.Addr.(type) {
					case *ssa.IndexAddr:
						fld = c13SliceField(a.X)
					case *ssa.FieldAddr:
						fld = fieldOf(a.X.Type(), a.Field)
					}
				case ssa.CallInstruction:
					if b, isB := x.Common().Value.(*ssa.Builtin); isB && b.Name() == "copy" && len(x.Common().Args) == 2 {
						fld = c13SliceField(x.Common().Args[0])
					}
				}
				if fld != nil && watched[fld] && other == "" {
					other = fmt.Sprintf("%s writes %s at %s", FuncName(f), fld.Name(), p.Pos(in.Pos()))
				}
			})
		}
		r.Check(other == "", "Fast.fresh-state.writers", p.Pos(flush.Pos()), "the run-time arrays of the solver are written only by the constructor, the activation API and Flush",
			other+": the function is neither the constructor, nor reachable from the activation API, nor part of Flush, so a solver handed out by it is in a state the comparison of constructor and Flush does not cover")
	})
}

// c13RecursiveScratch re-verifies the exemption of the recursive activation's scratch arrays: reinit names the arrays
// that RecursiveSteps stores into inside a loop over [0, totalNeuronCount); initFirst says that this loop is left
// before any call of recursiveActivateNode.
func c13RecursiveScratch(p *Prog) (reinit map[string]bool, initFirst bool) {
	rsteps := p.Func(PkgN, "FastModularNetworkSolver.RecursiveSteps")
	tr := NewTermer(rsteps)
	reinit = map[string]bool{}
	var initLoop *Loop
	for _, e := range Writes(rsteps) {
		if e.Kind == "elem" {
			if f := ElemOwner(e); f != nil {
				l := InnermostLoop(Loops(rsteps), e.Instr.Block())
				if l != nil {
					b, _, ok := loopCounter(l, tr)
					full := ok && b.String() == "recv.totalNeuronCount"
					if !full {
						// the same fact for other loop forms: counter enters with 0, +1 per iteration, single exit at !(i < totalNeuronCount)
						if cl, okc := c13CountedLoopOf(l); okc && tr.Of(cl.Bound).String() == "recv.totalNeuronCount" {
							full = true
							for _, v := range cl.Inits {
								if k, isK := constInt(v); !isK || k != 0 {
									full = false
								}
							}
						}
					}
					if full {
						reinit[f.Name()+"[*]"] = true
						initLoop = l
					}
				}
			}
		}
	}
	// the re-initialisation loop precedes every recursive activation
	initFirst = false
	if initLoop != nil {
		initFirst = true
		for _, c := range CallsTo(rsteps, p.Func(PkgN, "FastModularNetworkSolver.recursiveActivateNode")) {
			// the loop's exit block must dominate the call
			dom := false
			for _, s := range initLoop.Header.Succs {
				if !initLoop.Blocks[s] && (s == c.Block() || s.Dominates(c.Block())) {
					dom = true
				}
			}
			if !dom {
				initFirst = false
			}
		}
	}
	return reinit, initFirst
}

// loopCounterFrom is loopCounter for loops that start at an arbitrary value.
func loopCounterFrom(l *Loop, tm *Termer) (bound *Term, phi *ssa.Phi, ok bool) {
	for b := range l.Blocks {
		iff, isIf := b.Instrs[len(b.Instrs)-1].(*ssa.If)
		if !isIf || !(l.Blocks[b.Succs[0]] && !l.Blocks[b.Succs[1]]) {
			continue
		}
		bin, isBin := iff.Cond.(*ssa.BinOp)
		if !isBin || bin.Op.String() != "<" {
			continue
		}
		ph, isPhi := bin.X.(*ssa.Phi)
		if !isPhi {
			continue
		}
		step := false
		for _, e := range ph.Edges {
			if add, isAdd := e.(*ssa.BinOp); isAdd && add.Op.String() == "+" && add.X == ph {
				if k, isK := constInt(add.Y); isK && k == 1 {
					step = true
				}
			}
		}
		if step {
			return tm.Of(bin.Y), ph, true
		}
	}
	return nil, nil, false
}

// checkActivationSumExempt re-verifies the reason ActivationSum needs no reset.
func (r *Run) checkActivationSumExempt(effects []Effect, re *Reach) {
	p := r.P
	as := p.Func(PkgN, "Network.ActivateSteps")
	sumF := p.Field(PkgN, "NNode", "ActivationSum")
	tm := NewTermer(as)
	var zero *ssa.Store
	for _, st := range FieldStores(as, sumF) {
		if isZeroTerm(tm.Of(st.Val)) {
			zero = st
		}
	}
	if zero == nil {
		r.Bad("NNode.ActivationSum", p.Pos(as.Pos()), "ActivationSum is run-time state that Flushback does not reset, and the sweep no longer zeroes it before summing")
		return
	}
	ok := true
	why := ""
	for _, e := range effects {
		if e.Fn != as {
			ok, why = false, "it is also written by "+FuncName(e.Fn)
			continue
		}
		if e.Instr == zero {
			continue
		}
		if !(zero.Block() == e.Instr.Block() || zero.Block().Dominates(e.Instr.Block())) {
			ok, why = false, "a write at "+p.Pos(e.Instr.Pos())+" is not preceded by the zero store"
		}
	}
	// reads: in ActivateSteps (dominated by the zero store) and ActivateNode only
	for _, f := range re.RepoFuncs() {
		Instrs(f, func(_ *ssa.BasicBlock, _ int, in ssa.Instruction) {
			u, isU := in.(*ssa.UnOp)
			if !isU {
				return
			}
			fa, isFA := u.X.(*ssa.FieldAddr)
			if !isFA || fieldOf(fa.X.Type(), fa.Field) != sumF {
				return
			}
			switch {
			case f == as:
				if !(zero.Block() == u.Block() || zero.Block().Dominates(u.Block())) {
					ok, why = false, "a read at "+p.Pos(u.Pos())+" is not preceded by the zero store"
				}
			case f.Name() == "ActivateNode" || f.Name() == "PrintDebug" || f.Name() == "String":
			default:
				ok, why = false, "it is read by "+FuncName(f)
			}
		})
	}
	r.Check(ok, "NNode.ActivationSum", p.Pos(zero.Pos()), "exempt: zero-stored in the sweep before it is accumulated or read", "ActivationSum is not reset by Flushback and the exemption does not hold: "+why)
}

// returnsBypassing names a return of fn that is neither inside loop l nor dominated by its header ("" if none).
func returnsBypassing(p *Prog, fn *ssa.Function, l *Loop) string {
	for _, b := range fn.Blocks {
		if len(b.Instrs) == 0 {
			continue
		}
		ret, ok := b.Instrs[len(b.Instrs)-1].(*ssa.Return)
		if !ok || l.Blocks[b] || l.Header.Dominates(b) {
			continue
		}
		return p.Pos(ret.Pos())
	}
	return ""
}
