package nc

import (
	"fmt"
	"go/types"
	"sort"
	"strings"

	"golang.org/x/tools/go/ssa"
)

func init() { register("C16", C16) }

// goroutineRoots returns the functions started by `go` statements in fn.
func goroutineRoots(fn *ssa.Function) (gos []*ssa.Go, roots []*ssa.Function) {
	Instrs(fn, func(_ *ssa.BasicBlock, _ int, in ssa.Instruction) {
		if g, ok := in.(*ssa.Go); ok {
			gos = append(gos, g)
			switch v := g.Call.Value.(type) {
			case *ssa.Function:
				roots = append(roots, v)
			case *ssa.MakeClosure:
				roots = append(roots, v.Fn.(*ssa.Function))
			}
		}
	})
	return
}

func isMutexCall(c ssa.CallInstruction, method string) bool {
	callee := c.Common().StaticCallee()
	return callee != nil && callee.Name() == method && callee.Pkg != nil && callee.Pkg.Pkg.Path() == "sync" &&
		callee.Signature.Recv() != nil && strings.HasSuffix(callee.Signature.Recv().Type().String(), "sync.Mutex")
}

// lockHeldAt decides whether the mutex `mutexTerm` is held whenever instruction at executes.
func (r *Run) lockHeldAt(fn *ssa.Function, tm *Termer, mutexTerm string, at ssa.Instruction) (bool, []string) {
	p := r.P
	isLock := func(in ssa.Instruction) bool {
		c, ok := in.(*ssa.Call)
		return ok && isMutexCall(c, "Lock") && tm.Of(c.Call.Args[0]).String() == mutexTerm
	}
	isUnlock := func(in ssa.Instruction) bool {
		c, ok := in.(*ssa.Call) // a deferred Unlock is an *ssa.Defer and runs at return
		return ok && isMutexCall(c, "Unlock") && tm.Of(c.Call.Args[0]).String() == mutexTerm
	}
	target := func(in ssa.Instruction) bool { return in == at }
	if path := FindPath(p, PathQuery{Fn: fn, Target: target, Avoid: isLock, Explored: &r.PathsExplored}); path != nil {
		return false, path
	}
	var bad []string
	Instrs(fn, func(_ *ssa.BasicBlock, _ int, in ssa.Instruction) {
		if isUnlock(in) && bad == nil {
			if path := FindPath(p, PathQuery{Fn: fn, StartAfter: in, Target: target, Avoid: isLock, Explored: &r.PathsExplored}); path != nil {
				bad = path
			}
		}
	})
	if bad != nil {
		return false, bad
	}
	return true, nil
}

// C16 — the parallel executor is race-free.
func C16(p *Prog, r *Run) {
	r.Explanation = "Race freedom under every schedule is decided by lockset and ownership rules that do not depend on the schedule. S = the repository functions reachable (VTA call graph) from the closure that ParallelPopulationEpochExecutor.reproduce starts with `go`. (1) guarded-by: every load and store of Population.innovations in S executes with Population.mutex held on every path (must-hold path search; deferred Unlock counts at return); the elements are immutable: no store to a field of Innovation outside its constructors and no indexed store into the list, so a snapshot taken under the lock may be scanned without it. (2) the counters nextInnovNum/nextNodeId are touched in S only as the address argument of sync/atomic calls, and (C16.8) every number handed out is the result of one indivisible read-modify-write: an atomic add, or a load confirmed by a successful compare-and-swap from that value to a larger one; no separate store/swap overwrites a counter (alternatively every access sits in one critical section of the population's mutex). (3) no other shared writes: a transitive writes-through analysis (which parameter's reachable memory does a function store to, propagated through every call site with the origin of the argument; stores, copy, in-place sorts, clear/delete, append onto a slice whose array the function did not allocate unless its capacity is clipped, and writes of closures through what they captured) leaves at the goroutine root exactly {Population.innovations and the locked append onto it, Organism.superChampOffspring}; every other store in S lands in memory allocated by the goroutine itself; superChampOffspring is accessed only as recv.Organisms[0] of the goroutine's own species. (4) hand-over: the struct sent on the channel holds no pointer to repository types, wg.Add precedes go, Done is deferred first, wg.Wait dominates close and the receive loop, and the closure captures no variable; every goroutine is counted exactly once by wg.Add, the result channel buffers one result per goroutine, close precedes a receive loop that ends on close. (5, C16.9) the spawner is a concurrent party too: between a go statement and wg.Wait it (and what it calls) stores nothing into memory reachable from its arguments or globals and touches the innovation list / counters only under the same discipline. Assumption: offspring producers (duplicate, mate*) return deep-fresh genomes for non-modular parents (C06.3, C04). Not decided: the check-then-act window between Innovations() and StoreInnovation (allowed by the statement); the sequential guarantees on the shared code are the obligations of C01-C03."
	par := p.Func(PkgG, "ParallelPopulationEpochExecutor.reproduce")
	gos, roots := goroutineRoots(par)
	if len(roots) != 1 {
		r.Rule("C16.0", "the parallel executor starts one kind of goroutine", func() {
			r.Undecided("goroutine-root", p.Pos(par.Pos()), fmt.Sprintf("expected one go statement in ParallelPopulationEpochExecutor.reproduce, found %d", len(roots)))
		})
		return
	}
	root := roots[0]
	re := p.Reachable([]*ssa.Function{root}, nil)
	S := re.RepoFuncs()
	for _, f := range S {
		r.Fn(FuncName(f))
	}
	innovF := p.Field(PkgG, "Population", "innovations")
	mutexF := p.Field(PkgG, "Population", "mutex")
	_ = mutexF

	r.Rule("C16.1", "guarded-by: every access to Population.innovations in the goroutines' call tree holds Population.mutex; innovation records are immutable once stored", func() {
		n := 0
		for _, fn := range S {
			tm := NewTermer(fn)
			Instrs(fn, func(_ *ssa.BasicBlock, _ int, in ssa.Instruction) {
				fa, ok := in.(*ssa.FieldAddr)
				if !ok || fieldOf(fa.X.Type(), fa.Field) != innovF {
					return
				}
				base := tm.Of(fa.X).String()
				for _, ref := range *fa.Referrers() {
					kind := ""
					switch x := ref.(type) {
					case *ssa.UnOp:
						kind = "read"
					case *ssa.Store:
						if x.Addr == fa {
							kind = "write"
						}
					}
					if kind == "" {
						continue
					}
					n++
					held, path := r.lockHeldAt(fn, tm, base+".mutex", ref)
					if held {
						r.OK(fn.Name()+".innovations."+kind, p.Pos(ref.Pos()), kind+" of the innovation list with "+base+".mutex held on every path")
					} else {
						r.Bad(fn.Name()+".innovations."+kind, p.Pos(ref.Pos()), "unsynchronised "+kind+" of Population.innovations in "+FuncName(fn)+", reachable from the reproduction goroutines via "+strings.Join(re.Chain(fn), " -> ")+": it races with the append in StoreInnovation", path...)
					}
				}
			})
		}
		r.Floor("accesses to Population.innovations in the goroutine call tree", n, 3)
		r.c16InnovationAppends(S, innovF)
		// immutability of the records
		ctors := map[string]bool{"NewInnovationForNode": true, "NewInnovationForLink": true, "NewInnovationForRecurrentLink": true}
		okImm := true
		for _, fn := range p.SrcFuncs() {
			for _, e := range Writes(fn) {
				if e.Kind == "field" && e.Owner != nil && e.Owner.Obj().Name() == "Innovation" && e.Owner.Obj().Pkg().Path() == PkgG && !ctors[fn.Name()] {
					// initialising a record that this very function allocated and has not handed to anybody yet is construction
					// too (a helper shared by the constructors); a declaration the normaliser expanded away is not executed
					if p.expandedAway(fn, PinnedFuncs()) || c16UnpublishedFresh(p, fn, e) {
						continue
					}
					r.Bad("Innovation.immutable:"+e.Field.Name(), p.Pos(e.Instr.Pos()), FuncName(fn)+" writes Innovation."+e.Field.Name()+" after construction: a goroutine scanning its snapshot of the list would race with it")
					okImm = false
				}
				if e.Kind == "elem" {
					if f := ElemOwner(e); f == innovF {
						r.Bad("innovations.elem-store", p.Pos(e.Instr.Pos()), FuncName(fn)+" overwrites an element of the innovation list in place")
						okImm = false
					}
				}
			}
		}
		if okImm {
			r.OK("Innovation.immutable", p.Pos(p.Func(PkgG, "NewInnovationForNode").Pos()), "no store to a field of Innovation outside its three constructors; no in-place element store")
		}
		// fixture: an unguarded read next to a guarded append must be reported
		if p.Fix != nil {
			if ffn := p.Fix.FuncOpt("lockset", "Box.Items"); ffn != nil {
				tm := NewTermer(ffn)
				hit := false
				Instrs(ffn, func(_ *ssa.BasicBlock, _ int, in ssa.Instruction) {
					if u, ok := in.(*ssa.UnOp); ok {
						if fa, ok := u.X.(*ssa.FieldAddr); ok && fieldOf(fa.X.Type(), fa.Field).Name() == "items" {
							fr := NewRun(p.Fix, "fixture", "quick")
							if held, _ := fr.lockHeldAt(ffn, tm, "recv.mu", u); !held {
								hit = true
							}
						}
					}
				})
				if !hit {
					r.add("rule-inert", "fixture:lockset", "-", "the lockset rule did not report the fixture's unguarded read", nil)
				} else {
					r.Note("positive fixture lockset.Box.Items reported by the lockset rule")
				}
			} else {
				r.add("rule-inert", "fixture:lockset", "-", "fixture lockset.Box.Items not found", nil)
			}
		}
	})

	r.Rule("C16.2", "atomic-only: nextInnovNum and nextNodeId are touched in the goroutines' call tree only as the address argument of sync/atomic calls", func() {
		n := 0
		for _, name := range []string{"nextInnovNum", "nextNodeId"} {
			f := p.Field(PkgG, "Population", name)
			locked := r.c16MutexRegime(counterAccesses(S, f)) // alternative discipline: everything under the population's mutex
			for _, fn := range S {
				Instrs(fn, func(_ *ssa.BasicBlock, _ int, in ssa.Instruction) {
					fa, ok := in.(*ssa.FieldAddr)
					if !ok || fieldOf(fa.X.Type(), fa.Field) != f {
						return
					}
					for _, ref := range *fa.Referrers() {
						n++
						okA := false
						if c, isC := ref.(ssa.CallInstruction); isC {
							if callee := c.Common().StaticCallee(); callee != nil && callee.Pkg != nil && callee.Pkg.Pkg.Path() == "sync/atomic" {
								okA = true
								// monotone issue: Add with a positive constant
								if strings.HasPrefix(callee.Name(), "Add") {
									if k, isK := constInt(c.Common().Args[1]); !isK || k < 1 {
										okA = false
									}
								}
							}
						}
						r.Check(okA || locked, fn.Name()+"."+name, p.Pos(ref.Pos()), name+" is accessed through sync/atomic (Add of a positive constant)",
							name+" is accessed non-atomically (or not incremented by a positive constant) in "+FuncName(fn)+", which runs concurrently in every reproduction goroutine")
					}
				})
			}
		}
		r.Floor("counter accesses in the goroutine call tree", n, 2)
	})

	r.Rule("C16.8", "indivisible issue: every number handed out in the goroutines' call tree is the result of ONE atomic read-modify-write of the counter (atomic add of a positive constant, or a load confirmed by a successful compare-and-swap from that value to a larger one), and the counter is never overwritten by a separate store - or all accesses share one critical section of the population's mutex. Necessary: with load + store two goroutines that draw at the same moment both read n and both return n+1, so one innovation number (node id) denotes two different connections (nodes); a late store also moves the counter backwards", func() {
		r.c16CounterIssue(S, re)
	})

	r.Rule("C16.3", "no other shared writes: through its parameters the goroutine writes only Population.innovations (locked) and superChampOffspring of its own species' champion", func() {
		wt := c16WriteThrough(p, S)
		allowed := map[string]string{
			"p|Population.innovations":                 "append under the mutex (C16.1)",
			"p|append-in-place:Population.innovations": "the append itself runs under the mutex and fills only slots beyond the length of every snapshot handed out (C16.1 innovations.append)",
			"sp|Organism.superChampOffspring":          "the champion of the goroutine's own species",
			"wg|deref":                                 "WaitGroup",
		}
		for _, name := range []string{"nextInnovNum", "nextNodeId"} {
			if r.c16MutexRegime(counterAccesses(S, p.Field(PkgG, "Population", name))) {
				allowed["p|Population."+name] = "every access runs under the population's mutex (C16.8)"
			}
		}
		facts := wt.W[root]
		for _, t := range facts {
			who := "?"
			switch {
			case t.Param >= 0 && t.Param < len(root.Params):
				who = root.Params[t.Param].Name()
			case t.Param == rootGlobal:
				who = "<global>"
			case t.Param == rootUnknown:
				who = "<unknown-origin>"
			}
			k := who + "|" + t.What
			if why, ok := allowed[k]; ok {
				r.OK("shared-write:"+k, p.Pos(t.Pos), "allowed: "+why+" (via "+strings.Join(t.Via, " -> ")+")")
			} else {
				note := ""
				if strings.HasPrefix(t.What, "append-") {
					note = "; append(s, x) stores x into the array of s whenever s has spare capacity - always after s[:0] or s[:k] - and that array is the one every holder of the list reads"
				}
				r.Bad("shared-write:"+k, p.Pos(t.Pos), fmt.Sprintf("the reproduction goroutine writes %s of memory reachable from its argument %q (shared with the other goroutines) via %s%s", t.What, who, strings.Join(t.Via, " -> "), note))
			}
		}
		r.Floor("write-through facts at the goroutine root", len(facts), 2)
		// superChampOffspring only as recv.Organisms[0] in Species.reproduce
		sco := p.Field(PkgG, "Organism", "superChampOffspring")
		for _, fn := range S {
			tm := NewTermer(fn)
			Instrs(fn, func(_ *ssa.BasicBlock, _ int, in ssa.Instruction) {
				fa, ok := in.(*ssa.FieldAddr)
				if !ok || fieldOf(fa.X.Type(), fa.Field) != sco {
					return
				}
				base := tm.Of(fa.X).String()
				r.Check(fn.Name() == "reproduce" && base == "recv.Organisms[0]", "superChampOffspring.owner", p.Pos(fa.Pos()), "accessed as recv.Organisms[0] of the goroutine's own species",
					"superChampOffspring is accessed as "+base+" in "+FuncName(fn)+": another species' organism may be written by two goroutines")
			})
		}
		// each goroutine gets its own species: the argument is the range variable over pop.Species
		tp := NewTermer(par)
		for _, g := range gos {
			a := tp.Of(g.Call.Args[1])
			r.Check(a.Op == "elem" && a.Args[0].String() == "p3.Species", "goroutine.species", p.Pos(g.Pos()), "one goroutine per element of pop.Species", "the goroutine's species argument is "+a.String()+", not the loop's element of pop.Species")
		}
	})

	r.Rule("C16.5", "numbers stay single-valued under every interleaving: each gene carries a number issued by its own NextInnovationNumber call or taken from the matched record, and a record stores exactly the issued numbers (rules shared with C03)", func() {
		c03Core(p, r, NewSummaries(p))
	})

	r.Rule("C16.6", "offspring share nothing with the old generation (the assumption behind C16.3): duplicates and crossover children are built from copies - the obligations of C06.1-C06.3 (exact, alias-free duplicate) and C04.1, C04.6, C04.7, C04.8 (gene copies, parents unmodified, averaged trait objects, copied interface nodes)", func() {
		for _, dep := range []struct {
			id   string
			run  func(*Prog, *Run)
			keep []string
		}{{"C06", C06, []string{"C06.1", "C06.2", "C06.3"}}, {"C04", C04, []string{"C04.0", "C04.1", "C04.6", "C04.7", "C04.8"}}} {
			sub := NewRun(p, dep.id, r.Tier)
			dep.run(p, sub)
			for _, o := range sub.Obs {
				keep := false
				for _, k := range dep.keep {
					if strings.HasPrefix(o.Rule, k) {
						keep = true
					}
				}
				if keep {
					r.add(o.Status, o.Rule+":"+o.Construct, o.Pos, o.Detail, o.Path)
				}
			}
			r.FieldsChecked += sub.FieldsChecked
		}
	})

	r.Rule("C16.7", "same population guarantees as the sequential executor: the epoch pipeline of both executors (every species reproduces once, the progeny count is compared with PopSize for equality on the very list that is speciated, purge and ageing) - obligations shared with C02.1", func() {
		r.epochPipeline(true)
	})

	r.Rule("C16.10", "the babies cross the goroutine boundary as bytes (Organism.MarshalBinary in the goroutine, UnmarshalBinary in the collector): what the collector adds to the population is what the goroutine built only if the plain genome encoding and the organism header restore every genetic field - including the out node of a self-loop gene and the id-based lookups - so the sequential executor's guarantees carry over (obligations shared with C15.0, C15.1, C15.3, C15.6, C15.12, and C15.10 for the organism decoder; the YAML codec is not on this path)", func() {
		sub := NewRun(p, "C15", r.Tier)
		C15(p, sub)
		want := map[string]bool{"C15.0": true, "C15.1": true, "C15.3": true, "C15.6": true, "C15.12": true, "C15.10": true, "setup": true}
		n := 0
		for _, o := range sub.Obs {
			if !want[o.Rule] {
				continue
			}
			lc := strings.ToLower(o.Construct)
			if strings.Contains(lc, "yaml") {
				continue
			}
			if o.Rule == "C15.10" && !strings.Contains(o.Construct, "Organism.UnmarshalBinary") {
				continue
			}
			r.add(o.Status, o.Rule+":"+o.Construct, o.Pos, o.Detail, o.Path)
			n++
		}
		r.Floor("wire obligations shared with C15", n, 10)
	})

	r.Rule("C16.9", "the spawner is one more concurrent party: from the first go statement until wg.Wait returns, ParallelPopulationEpochExecutor.reproduce (and whatever it calls there) stores nothing into memory reachable from its arguments or globals and touches the innovation list / the counters only under the mutex / atomically. Necessary: nothing orders these instructions against the goroutines already running, so such a store races with their reads of the species, organisms and population", func() {
		r.c16SpawnerWindow(par, gos, innovF)
	})

	r.Rule("C16.4", "hand-over: results carry no pointer to repository types; wg.Add precedes go, Done is deferred, Wait dominates close and the receive loop; the closure captures nothing", func() {
		res := p.Named(PkgG, "reproductionResult")
		st := res.Underlying().(*types.Struct)
		okT := true
		for i := 0; i < st.NumFields(); i++ {
			if refersToRepoPointer(st.Field(i).Type(), 0) {
				r.Bad("result."+st.Field(i).Name(), p.Pos(st.Field(i).Pos()), "reproductionResult."+st.Field(i).Name()+" of type "+typeShort(st.Field(i).Type())+" shares repository objects between the goroutine and the collector")
				okT = false
			}
		}
		if okT {
			r.OK("result.type", p.Pos(res.Obj().Pos()), "reproductionResult holds only values, bytes and an error")
		}
		// what is handed over is owned by the goroutine: every pointer-like field of the value sent on the
		// channel holds memory rooted in an allocation of the goroutine itself (not a parameter, a global
		// or a pooled object that another goroutine may obtain as well)
		wtr := NewWriteThrough(p, S)
		nSend := 0
		Instrs(root, func(_ *ssa.BasicBlock, _ int, in ssa.Instruction) {
			snd, ok := in.(*ssa.Send)
			if !ok {
				return
			}
			nSend++
			ld, ok := snd.X.(*ssa.UnOp)
			var al *ssa.Alloc
			if ok {
				al, _ = ld.X.(*ssa.Alloc)
			}
			if al == nil {
				r.Bad("result.owned", p.Pos(snd.Pos()), "the value sent on the result channel is not a local struct of the goroutine; the ownership of what it holds cannot be established")
				return
			}
			for _, ref := range *al.Referrers() {
				fa, ok := ref.(*ssa.FieldAddr)
				if !ok {
					continue
				}
				fld := fieldOf(fa.X.Type(), fa.Field)
				if !isPointerLike(fld.Type()) || fld.Type().String() == "error" {
					continue
				}
				for _, r2 := range *fa.Referrers() {
					st, ok := r2.(*ssa.Store)
					if !ok || st.Addr != ssa.Value(fa) {
						continue
					}
					var bad []string
					for k := range wtr.roots(root, st.Val, 0, map[ssa.Value]bool{}) {
						switch {
						case k == rootFresh:
						case k == rootGlobal:
							bad = append(bad, "a package-level object")
						case k == rootUnknown:
							bad = append(bad, "an object of unknown origin")
						default:
							bad = append(bad, "the goroutine's argument "+root.Params[k].Name())
						}
					}
					sort.Strings(bad)
					r.Check(len(bad) == 0, "result.owned:"+fld.Name(), p.Pos(st.Pos()), "reproductionResult."+fld.Name()+" holds memory allocated by this goroutine",
						"reproductionResult."+fld.Name()+" is handed to the collector but may point into "+strings.Join(bad, ", ")+" (e.g. a pooled buffer that is given back when the goroutine ends): another goroutine can obtain and overwrite the same memory before the collector has decoded it")
				}
			}
		})
		r.Floor("sends on the result channel", nSend, 1)
		r.Check(len(root.FreeVars) == 0, "closure.free-vars", p.Pos(root.Pos()), "the goroutine body captures no variable (everything is passed as an argument)",
			fmt.Sprintf("the goroutine body captures %d variable(s) of the enclosing function (e.g. the loop variable): shared between goroutines", len(root.FreeVars)))
		// channel element type
		tp := NewTermer(par)
		for _, g := range gos {
			// wg.Add before go in the same iteration
			addOK := false
			for _, c := range CallsNamed(par, "sync.WaitGroup.Add") {
				if c.Block() == g.Block() && instrIndex(c) < instrIndex(g) || c.Block() != g.Block() && c.Block().Dominates(g.Block()) {
					addOK = true
				}
			}
			r.Check(addOK, "wg.add-before-go", p.Pos(g.Pos()), "wg.Add precedes the go statement", "wg.Add does not precede the go statement: Wait may return before the goroutine is counted")
		}
		r.c16HandOverCounts(par, gos)
		// Done deferred in the closure before anything else
		var firstDefer *ssa.Defer
		if len(root.Blocks) > 0 {
			for _, in := range root.Blocks[0].Instrs {
				if d, ok := in.(*ssa.Defer); ok {
					firstDefer = d
					break
				}
				if _, ok := in.(ssa.CallInstruction); ok {
					break
				}
			}
		}
		okD := false
		if firstDefer != nil {
			n, _ := calleeName(&firstDefer.Call)
			okD = n == "sync.WaitGroup.Done"
		}
		r.Check(okD, "wg.done-deferred", p.Pos(root.Pos()), "defer wg.Done() is the first action of the goroutine", "wg.Done is not deferred at the top of the goroutine body: an early return or panic leaves Wait blocked or lets it return early")
		waits := CallsNamed(par, "sync.WaitGroup.Wait")
		if len(waits) != 1 {
			r.Bad("wg.wait", p.Pos(par.Pos()), fmt.Sprintf("%d wg.Wait calls", len(waits)))
		} else {
			w := waits[0]
			dom := func(in ssa.Instruction) bool {
				return w.Block() == in.Block() && instrIndex(w) < instrIndex(in) || w.Block() != in.Block() && w.Block().Dominates(in.Block())
			}
			okW := true
			Instrs(par, func(_ *ssa.BasicBlock, _ int, in ssa.Instruction) {
				switch x := in.(type) {
				case *ssa.UnOp:
					if x.Op.String() == "<-" && !dom(in) {
						okW = false
					}
				case *ssa.Call:
					if b, ok := x.Call.Value.(*ssa.Builtin); ok && b.Name() == "close" && !dom(in) {
						okW = false
					}
				}
			})
			r.Check(okW, "wg.wait-dominates", p.Pos(w.Pos()), "wg.Wait precedes close(resChan) and every receive", "results are received (or the channel closed) before wg.Wait: babies may be read while goroutines still run")
			// the wait is outside the spawning loop
			r.Check(InnermostLoop(Loops(par), w.Block()) == nil, "wg.wait-after-loop", p.Pos(w.Pos()), "Wait follows the spawning loop", "wg.Wait sits inside the spawning loop: species reproduce one at a time or deadlock")
		}
		_ = tp
	})
}

// refersToRepoPointer: t contains a pointer/slice/map/chan/interface that can reach a repository type.
func refersToRepoPointer(t types.Type, depth int) bool {
	if depth > 6 {
		return false
	}
	switch x := t.(type) {
	case *types.Named:
		if x.Obj().Pkg() != nil && strings.HasPrefix(x.Obj().Pkg().Path(), Mod) {
			if _, isStruct := x.Underlying().(*types.Struct); isStruct {
				return depth > 0 // a repo struct reached through a pointer-like
			}
		}
		if x.Obj().Name() == "error" {
			return false
		}
		return refersToRepoPointer(x.Underlying(), depth)
	case *types.Pointer:
		return containsRepoType(x.Elem(), 0)
	case *types.Slice:
		return containsRepoType(x.Elem(), 0)
	case *types.Map:
		return containsRepoType(x.Elem(), 0) || containsRepoType(x.Key(), 0)
	case *types.Chan:
		return containsRepoType(x.Elem(), 0)
	case *types.Struct:
		for i := 0; i < x.NumFields(); i++ {
			if refersToRepoPointer(x.Field(i).Type(), depth+1) {
				return true
			}
		}
	}
	return false
}

func containsRepoType(t types.Type, depth int) bool {
	if depth > 6 {
		return false
	}
	switch x := t.(type) {
	case *types.Named:
		if x.Obj().Pkg() != nil && strings.HasPrefix(x.Obj().Pkg().Path(), Mod) {
			return true
		}
		return containsRepoType(x.Underlying(), depth+1)
	case *types.Pointer:
		return containsRepoType(x.Elem(), depth+1)
	case *types.Slice:
		return containsRepoType(x.Elem(), depth+1)
	case *types.Map:
		return containsRepoType(x.Elem(), depth+1) || containsRepoType(x.Key(), depth+1)
	case *types.Struct:
		for i := 0; i < x.NumFields(); i++ {
			if containsRepoType(x.Field(i).Type(), depth+1) {
				return true
			}
		}
	}
	return false
}
