// Package lockset is a positive fixture for the guarded-by rule (C16.1): the
// append holds the mutex, the read does not.
package lockset

import "sync"

type Box struct {
	mu    *sync.Mutex
	items []int
}

func (b *Box) Add(v int) {
	b.mu.Lock()
	defer b.mu.Unlock()
	b.items = append(b.items, v)
}

func (b *Box) Items() []int {
	return b.items
}
