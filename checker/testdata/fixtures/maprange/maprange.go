// Package maprange is a positive fixture: a result that depends on map
// iteration order, reachable from Root. The determinism rule (C17) must
// report it on every run.
package maprange

func Root(m map[int]string) []string {
	return collect(m)
}

func collect(m map[int]string) []string {
	var out []string
	for _, v := range m {
		out = append(out, v)
	}
	return out
}
