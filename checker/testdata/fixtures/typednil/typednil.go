// Package typednil is a positive fixture for the typed-nil rule (C11.5): a
// method with an interface result that wraps a possibly-nil pointer.
package typednil

type Item interface{ ID() int64 }

type item struct{ id int64 }

func (i *item) ID() int64 { return i.id }

type Store struct{ items []*item }

func (s *Store) find(id int64) *item {
	for _, it := range s.items {
		if it.id == id {
			return it
		}
	}
	return nil
}

// Get returns a non-nil interface holding a nil *item for an absent id.
func (s *Store) Get(id int64) Item {
	return s.find(id)
}
