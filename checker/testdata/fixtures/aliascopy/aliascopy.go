// Package aliascopy is a positive fixture for the no-alias rule (C06.3): a
// copy constructor that shares a slice with its source.
package aliascopy

type Thing struct {
	Id     int
	Params []float64
}

func NewThingCopy(t *Thing) *Thing {
	return &Thing{Id: t.Id, Params: t.Params}
}
