# Single-site edits used by selftest/run.py. Each compiles and, by inspection of
# the suite's assertions, keeps the existing tests green.
G = "neat/genetics/"
N = "neat/network/"
VARIANTS = [
 # ---- C06
 dict(id="C06-F1-enabled-true", props=["C06"], file=G+"gene.go",
      old="g.InnovationNum, g.MutationNum, g.IsEnabled)", new="g.InnovationNum, g.MutationNum, true)",
      expect=[r"C06\.1/NewGeneCopy\.IsEnabled"]),
 dict(id="C06-F9-link-trait-shared", props=["C06"], file=G+"genome.go",
      old="""			if l.Trait != nil {
				// point to the duplicate of the link's trait
				newInLink.Trait = TraitWithId(l.Trait.Id, traits)
			}
""", new="", expect=[r"Incoming\.Trait"]),
 dict(id="C06-drop-activation-type", props=["C06"], file=N+"nnode.go",
      old="	node.ActivationType = n.ActivationType\n	node.Trait = t", new="	node.Trait = t",
      expect=[r"NewNNodeCopy\.ActivationType"]),
 dict(id="C06-trait-params-shared", props=["C06"], file="neat/trait.go",
      old="	nt.Id = t.Id\n	copy(nt.Params, t.Params)", new="	nt.Id = t.Id\n	nt.Params = t.Params",
      expect=[r"NewTraitCopy\.Params"]),
 dict(id="C06-gene-trait-not-remapped", props=["C06"], file=G+"genome.go",
      old="		genesDup[i] = NewGeneCopy(gn, assocTrait, inNode, outNode)", new="		genesDup[i] = NewGeneCopy(gn, gn.Link.Trait, inNode, outNode)",
      expect=[r"duplicateGenes\.Trait"]),
 dict(id="C06-out-node-by-in-id", props=["C06"], file=G+"genome.go",
      old="		outNode, ok := nodeIdMap[gn.Link.OutNode.Id]\n		if !ok {\n			return nil, fmt.Errorf(\"outgoing node: %d not found for gene %s\",",
      new="		outNode, ok := nodeIdMap[gn.Link.InNode.Id]\n		if !ok {\n			return nil, fmt.Errorf(\"outgoing node: %d not found for gene %s\",",
      expect=[r"duplicateGenes\.OutNode"]),
 dict(id="C06-spawn-toggle", props=["C06"], file=G+"population.go",
      old="		// create organism for new genome\n", new="		_, _ = newGenome.mutateToggleEnable(1)\n		// create organism for new genome\n",
      expect=[r"spawn\.uses"]),
 dict(id="C06-link-weight-from-mutnum", props=["C06"], file=G+"gene.go",
      old="NewLinkWithTrait(trait, g.Link.ConnectionWeight, inNode, outNode, g.Link.IsRecurrent),\n		g.InnovationNum, g.MutationNum, g.IsEnabled)",
      new="NewLinkWithTrait(trait, g.MutationNum, inNode, outNode, g.Link.IsRecurrent),\n		g.InnovationNum, g.MutationNum, g.IsEnabled)",
      expect=[r"Link\.ConnectionWeight"]),
 dict(id="C06-weights-touch-enabled", props=["C06"], file=G+"genome_mutate.go",
      old="		// Record the innovation\n		gene.MutationNum = gene.Link.ConnectionWeight\n",
      new="		// Record the innovation\n		gene.MutationNum = gene.Link.ConnectionWeight\n		gene.IsEnabled = gene.IsEnabled || num > 1e9\n",
      expect=[r"mutateLinkWeights\.writes"]),
]
