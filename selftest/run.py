#!/usr/bin/env python3
"""Self-test of the checker (development aid, not part of any registered command).

Each variant is a single-site edit of the repository that compiles. It is applied
to a scratch copy of /repo outside /repo and /verif, the named property checks are
run against the copy (NEAT_REPO), and the script asserts that the check fails and
that its report names the expected obligation. The copy is removed afterwards.

usage: selftest/run.py [variant-id-prefix ...]
"""
import os, shutil, subprocess, sys, json, tempfile, re
HERE = os.path.dirname(os.path.abspath(__file__))
VERIF = os.path.dirname(HERE)
sys.path.insert(0, HERE)
from variants import VARIANTS

def sh(cmd, **kw):
    return subprocess.run(cmd, shell=True, stdout=subprocess.PIPE, stderr=subprocess.STDOUT, text=True, **kw)

def main():
    sel = sys.argv[1:]
    scratch = tempfile.mkdtemp(prefix="neat_selftest_")
    repo = os.path.join(scratch, "repo")
    evid = os.path.join(scratch, "verif")
    try:
        sh(f"rsync -a --exclude .git --exclude out /repo/ {repo}/")
        os.makedirs(evid)
        # the checker writes evidence/replay under NEAT_VERIF: keep the real ones untouched
        shutil.copy(os.path.join(VERIF, "KNOWN_FINDINGS.txt"), evid)
        os.symlink(os.path.join(VERIF, "checker"), os.path.join(evid, "checker"))
        env = dict(os.environ, NEAT_REPO=repo, NEAT_VERIF=evid, GOFLAGS="-mod=mod", GOPROXY="off", GOSUMDB="off", GOTOOLCHAIN="local")
        r = sh(f"cd {VERIF}/checker && go build -o {VERIF}/bin/neatcheck ./cmd/neatcheck", env=env)
        if r.returncode != 0:
            print(r.stdout); sys.exit(2)
        results = []
        for v in VARIANTS:
            vid = v["id"]
            if sel and not any(vid.startswith(s) for s in sel):
                continue
            edits = [(v["file"], v["old"], v["new"])] + [tuple(e) for e in v.get("edits", [])]
            origs = {}
            stale = False
            for (f, old, new) in edits:
                path = os.path.join(repo, f)
                if path not in origs:
                    origs[path] = open(path).read()
                cur = open(path).read()
                if old not in cur:
                    stale = True
                    break
                open(path, "w").write(cur.replace(old, new, 1))
            if stale:
                for path, o in origs.items():
                    open(path, "w").write(o)
                results.append((vid, "STALE", "old text not found")); print(f"{vid}: STALE (old text not found)"); continue
            try:
                b = sh(f"cd {repo} && go build ./...", env=env)
                if b.returncode != 0:
                    results.append((vid, "NOBUILD", b.stdout[-400:])); print(f"{vid}: variant does not compile\n{b.stdout[-400:]}"); continue
                for prop in v["props"]:
                    c = sh(f"{VERIF}/bin/neatcheck check {prop} quick", env=env)
                    out = c.stdout
                    fired = c.returncode == 1 and "VIOLATION property=" + prop in out
                    named = all(re.search(pat, out) for pat in v.get("expect", []))
                    status = "CAUGHT" if fired and named else ("FIRED-UNNAMED" if fired else "MISSED")
                    results.append((vid + "@" + prop, status, ""))
                    print(f"{vid}@{prop}: {status}")
                    if status != "CAUGHT":
                        print("   " + "\n   ".join(l for l in out.splitlines() if "WARNING" not in l)[:1500])
            finally:
                for path, o in origs.items():
                    open(path, "w").write(o)
        bad = [r for r in results if r[1] != "CAUGHT"]
        print(f"\n{len(results)-len(bad)}/{len(results)} variants caught")
        with open(os.path.join(HERE, "RESULTS.md"), "w") as f:
            f.write("# Self-test results (selftest/run.py)\n\n| variant@property | status |\n|---|---|\n")
            for r in results:
                f.write(f"| {r[0]} | {r[1]} |\n")
        sys.exit(1 if bad else 0)
    finally:
        shutil.rmtree(scratch, ignore_errors=True)

if __name__ == "__main__":
    main()
